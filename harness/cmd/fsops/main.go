// fsops: runs catalogued file operations of the real pdfcpu API inside sandboxes with the
// instrumented os package: fault enumeration (C01), crash-point snapshots (C02), path relations (C03).
// Emits (1) runs.ndjson: one record per run with the verdict taken from REAL directory snapshots,
// (2) trace.ndjson: the os-call traces for the TLC monitor spec/FSTrace.tla.
package main

import (
	"fmt"
	"math/rand"
	"os"
	"sort"
	"strings"

	"github.com/pdfcpu/pdfcpu/pkg/api"
	"verif/harness/lib/catalog"
	"verif/harness/lib/fsx"
	"verif/harness/lib/h"
)

type runRec struct {
	T       int      `json:"t"`
	Op      string   `json:"op"`
	Cfg     string   `json:"cfg"`
	K       int      `json:"k"`
	Kind    string   `json:"kind"`
	K2      int      `json:"k2,omitempty"`
	At      string   `json:"at"` // the faulted call
	At2     string   `json:"at2,omitempty"` // the second faulted call (double faults)
	N       int      `json:"n"`  // calls in this run
	Outcome string   `json:"outcome"`
	Err     string   `json:"err,omitempty"`
	Diff    []string `json:"diff"`
	Verdict string   `json:"verdict"` // ok | violation | finding:<key>
	Why     string   `json:"why,omitempty"`
	Key     string   `json:"key,omitempty"`
}

var tid int

func errStr(r *fsx.Result) string {
	if r.Panicked {
		return "panic: " + r.PanicVal
	}
	if r.Err != nil {
		s := r.Err.Error()
		if len(s) > 300 {
			s = s[:300]
		}
		return s
	}
	return ""
}

func selected(name string, only string) bool {
	return only == "" || strings.Contains(name, only)
}

// judgeC01 decides, on the real snapshots, whether a non-successful run left everything as it was.
func judgeC01(sc *catalog.Scenario, base *fsx.Result, r *fsx.Result, rec *runRec) {
	rec.Diff = fsx.Diff(r.Canon.Snap(r.Before), r.Canon.Snap(r.After))
	if rec.Diff == nil {
		rec.Diff = []string{}
	}
	if r.Outcome() == "ok" {
		rec.Verdict = "ok" // operation tolerated the fault; C03 judges successes
		return
	}
	// the entry whose removal was made to fail necessarily remains; it is not held against the operation
	diff := rec.Diff
	for _, at := range []string{rec.At, rec.At2} {
		if f := strings.Fields(at); len(f) == 2 && (f[0] == "remove" || f[0] == "removeall") && rec.Kind == "error" {
			kept := []string{}
			for _, d := range diff {
				if d != "+"+f[1] {
					kept = append(kept, d)
				}
			}
			diff = kept
		}
	}
	if len(diff) == 0 {
		rec.Verdict = "ok"
		return
	}
	if sc.Op.Multi {
		// documented: outputs completed before the failure remain. Anything else is a violation.
		baseOuts := map[string]bool{}
		for _, d := range fsx.Diff(base.Canon.Snap(base.Before), base.Canon.Snap(base.After)) {
			if strings.HasPrefix(d, "+") {
				baseOuts[d[1:]] = true
			}
		}
		onlyComplete := true
		for _, d := range diff {
			if strings.HasPrefix(d, "+") && baseOuts[d[1:]] && sc.OkPDF(d[1:]) && r.After[d[1:]].Size > 0 {
				continue
			}
			onlyComplete = false
		}
		if onlyComplete {
			rec.Verdict = "finding"
			rec.Key = "F1|" + sc.Op.Name + "|completed outputs remain after later failure"
			rec.Why = "multi-output operation keeps earlier completed outputs"
			return
		}
	}
	rec.Verdict = "violation"
	rec.Key = fmt.Sprintf("%s|%s|%s|%s", sc.Op.Name, sc.Cfg, rec.Kind, callClass(rec.At))
	if rec.At2 != "" {
		rec.Key += "+" + callClass(rec.At2)
	}
	rec.Why = "operation failed (" + r.Outcome() + ") but the directory changed: " + strings.Join(rec.Diff, " ")
}

// callClass abstracts a call for finding keys: op + role of the path.
func callClass(at string) string {
	f := strings.Fields(at)
	if len(f) < 2 {
		return at
	}
	p := f[1]
	role := "other"
	switch {
	case strings.Contains(p, "#"):
		role = "temp"
	case strings.HasPrefix(p, "in/"):
		role = "input"
	case strings.HasPrefix(p, "out/") || p == "out":
		role = "output"
	}
	return f[0] + ":" + role
}

func c01(w, tw *h.W, tier string, seed int64, only string) {
	rng := rand.New(rand.NewSource(seed))
	ops := catalog.Ops()
	kinds := []string{"error", "panic"}
	if tier == "thorough" {
		kinds = []string{"error", "panic", "short"}
	}
	// ops enumerated over every call in the quick tier (seeded choice); the rest get 3 seeded positions
	full := map[string]bool{}
	perm := rng.Perm(len(ops))
	for i := 0; i < 8 && i < len(perm); i++ {
		full[ops[perm[i]].Name] = true
	}
	full["api.MergeCreateFile"] = true
	full["api.OptimizeFile"] = true
	runs, viol, doubles := 0, 0, 0
	skipped := []string{}
	for i := range ops {
		op := &ops[i]
		if !selected(op.Name, only) {
			continue
		}
		for _, cfg := range catalog.Configs(op, false) {
			sc := catalog.NewScenario(op, cfg)
			base := sc.Run(fsx.RunCfg{})
			sc.Close()
			if base.Outcome() != "ok" {
				skipped = append(skipped, fmt.Sprintf("%s/%s: %s", op.Name, cfg, errStr(&base)))
				continue
			}
			n := len(base.Events)
			var ks []int
			if tier == "thorough" || full[op.Name] {
				for k := 1; k <= n; k++ {
					ks = append(ks, k)
				}
			} else {
				// stratified: the first and the last call of every call class (close:input, write:temp, rename:temp ...)
				// plus two seeded positions, so that every kind of call of every operation is faulted in the quick tier
				seen := map[int]bool{}
				first, last := map[string]int{}, map[string]int{}
				for k := 1; k <= n; k++ {
					c := callClass(base.Events[k-1].Op + " " + base.Events[k-1].A)
					if _, ok := first[c]; !ok {
						first[c] = k
					}
					last[c] = k
				}
				for c := range first {
					seen[first[c]] = true
					seen[last[c]] = true
				}
				for i := 0; i < 2; i++ {
					seen[1+rng.Intn(n)] = true
				}
				seen[n] = true
				for k := range seen {
					ks = append(ks, k)
				}
				sort.Ints(ks)
			}
			for _, kind := range kinds {
				for _, k := range ks {
					bop := base.Events[k-1].Op
					if kind == "short" && !strings.HasPrefix(bop, "write") {
						continue
					}
					// a panic models "the operation panics": it is raised from calls made by the operation body
					// (writing output), not from inside the commit/cleanup calls of the file protocol
					if kind == "panic" && !(strings.HasPrefix(bop, "write") || bop == "readfrom") {
						continue
					}
					sc := catalog.NewScenario(op, cfg)
					r := sc.Run(fsx.RunCfg{FaultAt: k, Kind: kind})
					tid++
					rec := runRec{T: tid, Op: op.Name, Cfg: cfg, K: k, Kind: kind, N: len(r.Events), Outcome: r.Outcome(), Err: errStr(&r)}
					if k <= len(r.Events) {
						rec.At = r.Events[k-1].Op + " " + r.Events[k-1].A
					}
					if kind == "panic" && (k > len(r.Events) || !(strings.HasPrefix(r.Events[k-1].Op, "write") || r.Events[k-1].Op == "readfrom")) {
						// this run's k-th call differs from the recording run (output is not byte-deterministic): not a body panic
						sc.Close()
						continue
					}
					judgeC01(sc, &base, &r, &rec)
					judge := []string{"c01"}
					if op.Multi {
						judge = []string{"c01m"}
					}
					for _, l := range r.Lines(fsx.Meta{T: tid, Name: op.Name + "/" + cfg, Prot: sc.Prot, Outs: sc.Outs, DestDirs: sc.DestDirs, Judge: judge}) {
						tw.Put(l)
					}
					w.Put(rec)
					runs++
					if rec.Verdict == "violation" {
						viol++
					}
					sc.Close()
					// double faults (Staged.tla explores them in the design; here on the real code): a second failing call among
					// the calls the operation makes after the first fault - its error handling and clean-up. Single-output
					// operations; every position in the thorough tier, the fully enumerated operations in the quick tier.
					if kind == "error" && !op.Multi && r.Outcome() != "ok" && (tier == "thorough" || full[op.Name]) {
						for k2 := k + 1; k2 <= len(r.Events); k2++ {
							if tier != "thorough" && rng.Intn(3) != 0 {
								continue
							}
							sc2 := catalog.NewScenario(op, cfg)
							r2 := sc2.Run(fsx.RunCfg{FaultAt: k, Kind: "error", FaultAt2: k2, Kind2: "error"})
							if k2 > len(r2.Events) || r2.Events[k2-1].Op != r.Events[k2-1].Op || r2.Events[k-1].Op != r.Events[k-1].Op {
								sc2.Close() // not the same call sequence as the single-fault run: output is not byte-deterministic
								continue
							}
							tid++
							rec2 := runRec{T: tid, Op: op.Name, Cfg: cfg, K: k, K2: k2, Kind: "error", N: len(r2.Events), Outcome: r2.Outcome(), Err: errStr(&r2),
								At: r2.Events[k-1].Op + " " + r2.Events[k-1].A, At2: r2.Events[k2-1].Op + " " + r2.Events[k2-1].A}
							judgeC01(sc2, &base, &r2, &rec2)
							excuse := []string{}
							if f := strings.Fields(rec2.At2); len(f) == 2 && (f[0] == "remove" || f[0] == "removeall") {
								excuse = append(excuse, f[1])
							}
							for _, l := range r2.Lines(fsx.Meta{T: tid, Name: op.Name + "/" + cfg, Prot: sc2.Prot, Outs: sc2.Outs, DestDirs: sc2.DestDirs, Judge: []string{"c01"}, Excuse: excuse}) {
								tw.Put(l)
							}
							w.Put(rec2)
							runs++
							doubles++
							if rec2.Verdict == "violation" {
								viol++
							}
							sc2.Close()
						}
					}
				}
			}
		}
	}
	h.Summary(map[string]any{"runs": runs, "violations": viol, "ops": len(ops), "skipped": skipped, "double_fault_runs": doubles})
}

// ---------------------------------------------------------------------------------------------- C02

func classify(sn fsx.Snap, before, after fsx.Snap, p string) string {
	e, ok := sn[p]
	if !ok {
		return "ABSENT"
	}
	if b, ok := before[p]; ok && b.Kind == e.Kind && b.Sha == e.Sha && b.Size == e.Size && b.Target == e.Target {
		return "OLD"
	}
	if a, ok := after[p]; ok && a.Kind == e.Kind && a.Sha == e.Sha && a.Size == e.Size {
		return "NEW"
	}
	return "OTHER"
}

func c02(w, tw *h.W, tier string, seed int64, only string) {
	ops := catalog.Ops()
	runs, viol, points := 0, 0, 0
	skipped := []string{}
	for i := range ops {
		op := &ops[i]
		if !selected(op.Name, only) || op.Class == "outdir" {
			continue
		}
		for _, cfg := range catalog.Configs(op, false) {
			sc := catalog.NewScenario(op, cfg)
			if !sc.Replaces {
				sc.Close()
				continue
			}
			r := sc.Run(fsx.RunCfg{Snapshots: true})
			if r.Outcome() != "ok" {
				skipped = append(skipped, fmt.Sprintf("%s/%s: %s", op.Name, cfg, errStr(&r)))
				sc.Close()
				continue
			}
			tid++
			rec := runRec{T: tid, Op: op.Name, Cfg: cfg, Kind: "crash", N: len(r.Events), Outcome: "ok", Verdict: "ok", Diff: []string{}}
			before, after := r.Before, r.After
			for k, sn := range r.Snaps {
				points++
				at := ""
				if k < len(r.Events) {
					at = r.Events[k].Op + " " + r.Events[k].A
				}
				for _, dest := range sc.Outs {
					c := classify(sn, before, after, dest)
					if c != "OLD" && c != "NEW" && rec.Verdict == "ok" {
						rec.Verdict = "violation"
						rec.K = k + 1
						rec.At = at
						rec.Key = fmt.Sprintf("%s|%s|crash|dest %s before %s", op.Name, cfg, c, callClass(at))
						rec.Why = fmt.Sprintf("a kill before call %d (%s) leaves %s %s (neither its previous nor the final content)", k+1, at, dest, c)
					}
				}
				// leftovers: anything not present before must be hidden and live next to a destination
				for name := range sn {
					if _, ok := before[name]; ok {
						continue
					}
					isOut := false
					for _, o := range sc.Outs {
						if o == name {
							isOut = true
						}
					}
					if isOut {
						continue
					}
					dir := name
					if j := strings.LastIndex(name, "/"); j >= 0 {
						dir = name[:j]
					} else {
						dir = "."
					}
					base := name[strings.LastIndex(name, "/")+1:]
					okDir := false
					for _, d := range sc.DestDirs {
						if d == dir {
							okDir = true
						}
					}
					if (!strings.HasPrefix(base, ".") || !okDir) && rec.Verdict == "ok" {
						rec.Verdict = "violation"
						rec.K = k + 1
						rec.At = at
						rec.Key = fmt.Sprintf("%s|%s|crash|leftover not hidden next to destination", op.Name, cfg)
						rec.Why = fmt.Sprintf("a kill before call %d (%s) leaves %s, which is not a hidden file next to the destination", k+1, at, r.Canon.Path(sc.SB.P(name)))
					}
				}
			}
			for _, l := range r.Lines(fsx.Meta{T: tid, Name: op.Name + "/" + cfg, Prot: sc.Outs, Outs: sc.Outs, DestDirs: sc.DestDirs, Judge: []string{"c02"}}) {
				tw.Put(l)
			}
			w.Put(rec)
			runs++
			if rec.Verdict == "violation" {
				viol++
			}
			sc.Close()
		}
	}
	h.Summary(map[string]any{"runs": runs, "violations": viol, "crash_points": points, "skipped": skipped, "ops": len(ops)})
}

// ---------------------------------------------------------------------------------------------- C03

func c03(w, tw *h.W, tier string, seed int64, only string) {
	ops := catalog.Ops()
	runs, viol := 0, 0
	skipped := []string{}
	for i := range ops {
		op := &ops[i]
		if !selected(op.Name, only) || op.Class == "outdir" {
			continue
		}
		for _, cfg := range catalog.Configs(op, true) {
			sc := catalog.NewScenario(op, cfg)
			r := sc.Run(fsx.RunCfg{})
			tid++
			rec := runRec{T: tid, Op: op.Name, Cfg: cfg, Kind: "none", N: len(r.Events), Outcome: r.Outcome(), Err: errStr(&r), Verdict: "ok"}
			rec.Diff = fsx.Diff(r.Canon.Snap(r.Before), r.Canon.Snap(r.After))
			if rec.Diff == nil {
				rec.Diff = []string{}
			}
			fail := func(key, why string) {
				if rec.Verdict == "ok" {
					rec.Verdict = "violation"
					rec.Key = fmt.Sprintf("%s|%s|%s", op.Name, cfg, key)
					rec.Why = why
				}
			}
			if r.Outcome() != "ok" {
				// a refusal is acceptable only if nothing changed (C01 judges failures); remember it as skipped
				if len(rec.Diff) != 0 {
					fail("failed and changed files", "operation failed and changed: "+strings.Join(rec.Diff, " "))
				} else {
					skipped = append(skipped, fmt.Sprintf("%s/%s: %s", op.Name, cfg, errStr(&r)))
				}
			} else {
				dest := sc.Outs[0]
				a, ok := r.After[dest]
				switch {
				case !ok:
					fail("destination missing", "operation succeeded but "+dest+" does not exist")
				case a.Kind != "f":
					fail("destination not a regular file", dest+" is not a regular file")
				case !sc.OkPDF(dest):
					fail("destination incomplete", dest+" does not validate: not the complete output")
				}
				if b, ok2 := r.Before[dest]; ok && ok2 && b.Kind == "f" && a.Mode != b.Mode {
					fail("mode changed", fmt.Sprintf("%s had mode %o, now %o", dest, b.Mode, a.Mode))
				}
				for _, d := range rec.Diff {
					name := d[1:]
					if j := strings.Index(name, "("); j >= 0 && d[0] == '~' {
						name = name[:j]
					}
					if name == dest {
						continue
					}
					// a name aliasing the output (hard link / symlink target) may keep the old or show the new content, never anything else
					if d[0] == '~' && (cfg == "symlink" || cfg == "hardlink") && name == "in/in.pdf" && sc.OkPDF(name) {
						continue
					}
					fail("other entry changed", "operation succeeded but also changed "+d)
				}
			}
			for _, l := range r.Lines(fsx.Meta{T: tid, Name: op.Name + "/" + cfg, Prot: sc.Prot, Outs: sc.Outs, DestDirs: sc.DestDirs, Judge: []string{"c03"}, OkPDF: sc.OkPDF}) {
				tw.Put(l)
			}
			w.Put(rec)
			runs++
			if rec.Verdict == "violation" {
				viol++
			}
			sc.Close()
		}
	}
	// multi-output operations: every output that already exists (with an unusual mode) must be replaced by the complete
	// new output and keep its permission bits
	for i := range ops {
		op := &ops[i]
		if !selected(op.Name, only) || op.Class != "outdir" {
			continue
		}
		sc0 := catalog.NewScenario(op, "dir")
		r0 := sc0.Run(fsx.RunCfg{})
		var outs []string
		for _, d := range fsx.Diff(r0.Before, r0.After) {
			if d[0] == '+' && r0.After[d[1:]].Kind == "f" {
				outs = append(outs, d[1:])
			}
		}
		sc0.Close()
		if r0.Outcome() != "ok" || len(outs) == 0 {
			skipped = append(skipped, op.Name+"/dir-existing: "+errStr(&r0))
			continue
		}
		for _, mode := range []os.FileMode{0664, 0666, 0600} {
			sc := catalog.NewScenario(op, "dir")
			for _, o := range outs {
				sc.SB.Put(o, []byte("previous content of "+o), mode)
			}
			r := sc.Run(fsx.RunCfg{})
			tid++
			cfg := fmt.Sprintf("dir-existing%04o", mode)
			rec := runRec{T: tid, Op: op.Name, Cfg: cfg, Kind: "none", N: len(r.Events), Outcome: r.Outcome(), Err: errStr(&r), Verdict: "ok"}
			rec.Diff = fsx.Diff(r.Canon.Snap(r.Before), r.Canon.Snap(r.After))
			if rec.Diff == nil {
				rec.Diff = []string{}
			}
			fail := func(key, why string) {
				if rec.Verdict == "ok" {
					rec.Verdict, rec.Key, rec.Why = "violation", fmt.Sprintf("%s|%s|%s", op.Name, cfg, key), why
				}
			}
			if r.Outcome() != "ok" {
				if len(rec.Diff) != 0 {
					fail("failed and changed files", "operation failed and changed: "+strings.Join(rec.Diff, " "))
				} else {
					skipped = append(skipped, fmt.Sprintf("%s/%s: %s", op.Name, cfg, errStr(&r)))
				}
			} else {
				for _, o := range outs {
					a, ok := r.After[o]
					b := r.Before[o]
					switch {
					case !ok:
						fail("destination missing", o+" vanished")
					case a.Sha == b.Sha:
						fail("destination not replaced", o+" still holds its previous content although the operation succeeded")
					case a.Mode != b.Mode:
						fail("mode changed", fmt.Sprintf("%s had mode %o, now %o", o, b.Mode, a.Mode))
					case !sc.OkPDF(o):
						fail("destination incomplete", o+" does not validate")
					}
				}
				for _, d := range rec.Diff {
					name := d[1:]
					if j := strings.Index(name, "("); j >= 0 && d[0] == '~' {
						name = name[:j]
					}
					isOut := false
					for _, o := range outs {
						if o == name {
							isOut = true
						}
					}
					if !isOut {
						fail("other entry changed", "operation succeeded but also changed "+d)
					}
				}
			}
			for _, l := range r.Lines(fsx.Meta{T: tid, Name: op.Name + "/" + cfg, Prot: sc.Prot, Outs: outs, DestDirs: sc.DestDirs, Judge: []string{"c03"}, OkPDF: sc.OkPDF}) {
				tw.Put(l)
			}
			w.Put(rec)
			runs++
			if rec.Verdict == "violation" {
				viol++
			}
			sc.Close()
		}
	}
	h.Summary(map[string]any{"runs": runs, "violations": viol, "skipped": skipped, "ops": len(ops)})
}

func main() {
	api.DisableConfigDir()
	os.Setenv("TMPDIR", os.TempDir())
	mode := os.Args[1]
	w := h.NewW(h.Arg("--runs"))
	tw := h.NewW(h.Arg("--trace"))
	defer w.Close()
	defer tw.Close()
	tier := h.Arg("--tier")
	seed := int64(h.ArgInt("--seed", 1))
	switch mode {
	case "c01":
		c01(w, tw, tier, seed, h.Arg("--only"))
	case "c02":
		c02(w, tw, tier, seed, h.Arg("--only"))
	case "c03":
		c03(w, tw, tier, seed, h.Arg("--only"))
	default:
		h.Die("usage: fsops c01|c02|c03 --runs f --trace f --tier quick|thorough --seed n [--only substr]")
	}
}
