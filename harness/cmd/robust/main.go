// robust: harness command for C08 (malformed input never crashes / overflows / hangs), C09 (configured limits bound
// allocation) and C10 (cancellation).  Sub-commands: c08 (parent), c08-child, c09 (parent), c09-child, c10.
package main

import (
	"os"

	"github.com/pdfcpu/pdfcpu/pkg/api"
	"verif/harness/lib/h"
)

func main() {
	if len(os.Args) >= 2 && os.Args[1] == "c08-child" {
		c08Child() // uses a private configuration directory (trust store, fonts) instead of none
		return
	}
	api.DisableConfigDir()
	if len(os.Args) < 2 {
		h.Die("usage: robust c08|c08-child|c09|c09-child|c10 ...")
	}
	switch os.Args[1] {
	case "c10":
		c10Main()
	case "c08":
		c08Main()
	case "c08-emit":
		c08Emit()
	case "c09":
		c09Main()
	case "c09-child":
		c09Child()
	default:
		h.Die("unknown sub-command %q", os.Args[1])
	}
}
