package main

// C10: cancelling a read stops it promptly with the cancellation error.
//
// The io.ReadSeeker given to pdfcpu.ReadWithContext is wrapped: every Read/Seek is one "input operation".  In the
// deterministic mode the Go context is cancelled right after the j-th operation returned (schedule enumeration without
// sleeps); in the timer mode a timer goroutine cancels at a seeded random time.  Every run yields one record that is
// judged by TLC (spec/CancelTrace.tla): result kind, errors.Is(err, ctx.Err()), nil document, operations after the
// cancellation, time after the cancellation.

import (
	"bytes"
	"context"
	"crypto/sha256"
	"encoding/hex"
	"errors"
	"fmt"
	"io"
	"math/rand"
	"os"
	"path/filepath"
	"runtime"
	"sort"
	"strings"
	"sync"
	"sync/atomic"
	"syscall"
	"time"
	"unsafe"

	"github.com/pdfcpu/pdfcpu/pkg/pdfcpu"
	"github.com/pdfcpu/pdfcpu/pkg/pdfcpu/model"
	"github.com/pdfcpu/pdfcpu/pkg/pdfcpu/types"
	"verif/harness/lib/h"
)

type c10Doc struct {
	Name   string
	Data   []byte
	Strict bool
	Class  string // corpus | small | objstm | repair | big
}

type c10Rec struct {
	Doc      string `json:"doc"`
	Class    string `json:"class"`
	Size     int    `json:"size"`
	Mode     string `json:"mode"`  // pre | predl | det | timer | file
	J        int    `json:"j"`     // det: cancel after the j-th operation; timer: microseconds of delay
	Delay    int    `json:"delay"` // gap: microseconds between the j-th operation and the cancellation
	N        int    `json:"n"`     // operations of the uncancelled read
	Phase    string `json:"phase"` // reader phase in which the cancellation fell ("" when it fell after the read)
	Last     string `json:"last"`  // reader phase of the last input operation started after the cancellation
	Fired    bool   `json:"fired"` // the cancellation happened before the read returned
	After    int    `json:"after"` // input operations started after the cancellation
	Kind     string `json:"kind"`  // done | ctxErr | other | panic
	IsCtx    bool   `json:"isctx"` // errors.Is(err, ctx.Err())
	DocNil   bool   `json:"docnil"`
	Same     bool   `json:"same"`     // result equals the result of the uncancelled read
	AfterUs  int    `json:"afterus"`  // wall clock microseconds between the cancellation and the return
	FullUs   int    `json:"fullus"`   // wall clock microseconds of the uncancelled read (best of two)
	AfterCpu int    `json:"aftercpu"` // CPU microseconds the reading thread consumed after the cancellation
	FullCpu  int    `json:"fullcpu"`  // CPU microseconds of the uncancelled read (best of two)
	Err      string `json:"err"`
}

var phaseMarks = []struct{ fn, phase string }{
	{"pdfcpu.bypassXrefSection", "repair"},
	{"pdfcpu.registerXRefObjects", "repair"},
	{"pdfcpu.decodeObjectStreams", "objstm"},
	{"pdfcpu.checkForEncryption", "encrypt"},
	{"pdfcpu.dereferenceObjects", "deref"},
	{"pdfcpu.dereferenceXRefTable", "deref"},
	{"pdfcpu.offsetLastXRefSection", "locate"},
	{"pdfcpu.headerVersion", "header"},
	{"pdfcpu.readXRefTable", "xref"},
	{"model.NewContext", "open"},
}

// callerPhase classifies the reader phase of the calling goroutine by the pdfcpu functions on its stack.
func callerPhase() string {
	pcs := make([]uintptr, 64)
	n := runtime.Callers(3, pcs)
	frames := runtime.CallersFrames(pcs[:n])
	var names []string
	for {
		f, more := frames.Next()
		names = append(names, f.Function)
		if !more {
			break
		}
	}
	for _, m := range phaseMarks {
		for _, fn := range names {
			if strings.HasSuffix(fn, m.fn) {
				return m.phase
			}
		}
	}
	return "other"
}

// threadCPU returns the CPU time (ns) consumed so far by the OS thread tid of this process (Linux per-thread CPU clock);
// it can be read from any thread, so the canceller can sample the reader's clock at the moment of the cancellation.
func threadCPU(tid int) int64 {
	var ts syscall.Timespec
	clk := uint32(^uint32(tid))<<3 | 6
	if _, _, e := syscall.Syscall(syscall.SYS_CLOCK_GETTIME, uintptr(clk), uintptr(unsafe.Pointer(&ts)), 0); e != 0 {
		return -1
	}
	return ts.Sec*1e9 + ts.Nsec
}

type cancelRS struct {
	rs          *bytes.Reader
	ops         int64
	cancelAt    int64 // cancel after this many operations (0: never)
	cancel      func()
	cancelled   atomic.Bool
	after       atomic.Int64
	phase       string
	last        string
	tid         int     // record mode: thread whose CPU clock is sampled around every operation
	opStart     []int64 // record mode: CPU clock when operation i started / ended
	opEnd       []int64
	gapAt       int64  // gap mode: start the cancellation timer after this many operations
	startTimer  func() // gap mode
	cpuAtCancel int64
	tAtCancel   int64
	phases      []string // baseline mode: phase of every operation
	record      bool
}

func (r *cancelRS) pre() {
	if r.record && r.tid != 0 {
		r.opStart = append(r.opStart, threadCPU(r.tid))
	}
	if r.cancelled.Load() {
		if n := r.after.Add(1); n&(n-1) == 0 || n%64 == 0 { // sampled: every power of two and every 64th
			r.last = callerPhase()
		}
	}
	if r.record {
		r.phases = append(r.phases, callerPhase())
	}
}

func (r *cancelRS) post() {
	r.ops++
	if r.cancelAt > 0 && r.ops == r.cancelAt {
		r.phase = callerPhase()
		r.cancelled.Store(true)
		r.cancel()
		// the reader runs on a goroutine locked to its OS thread: everything it burns from here on is after the cancellation
		r.cpuAtCancel = threadCPU(syscall.Gettid())
		r.tAtCancel = time.Now().UnixNano()
	}
	if r.gapAt > 0 && r.ops == r.gapAt && r.startTimer != nil {
		r.startTimer()
	}
	if r.record && r.tid != 0 {
		r.opEnd = append(r.opEnd, threadCPU(r.tid))
	}
}

func (r *cancelRS) Read(p []byte) (int, error) {
	r.pre()
	n, err := r.rs.Read(p)
	r.post()
	return n, err
}

func (r *cancelRS) Seek(off int64, whence int) (int64, error) {
	r.pre()
	n, err := r.rs.Seek(off, whence)
	r.post()
	return n, err
}

func ctxDigest(ctx *model.Context) (dig string) {
	defer func() {
		if r := recover(); r != nil {
			dig = fmt.Sprintf("digest-panic:%v", r)
		}
	}()
	hsh := sha256.New()
	keys := make([]int, 0, len(ctx.Table))
	for k := range ctx.Table {
		keys = append(keys, k)
	}
	sort.Ints(keys)
	for _, k := range keys {
		e := ctx.Table[k]
		fmt.Fprintf(hsh, "%d:%t:%t:", k, e.Free, e.Compressed)
		switch o := e.Object.(type) {
		case nil:
			hsh.Write([]byte("nil"))
		case types.StreamDict:
			fmt.Fprintf(hsh, "S%s|%d|", o.Dict.PDFString(), len(o.Raw))
			hsh.Write(o.Raw)
		case types.ObjectStreamDict:
			fmt.Fprintf(hsh, "O%s|%d|%d", o.Dict.PDFString(), len(o.Raw), len(o.ObjArray))
		case types.XRefStreamDict:
			fmt.Fprintf(hsh, "X%s|%d", o.Dict.PDFString(), len(o.Raw))
		default:
			fmt.Fprintf(hsh, "%T%s", o, o.PDFString())
		}
		hsh.Write([]byte{'\n'})
	}
	return hex.EncodeToString(hsh.Sum(nil))[:24]
}

type c10Base struct {
	n       int
	phases  []string
	digest  string // digest of the document, or "err:" + message
	fullUs  int
	fullCpu int
	gaps    []c10Gap // the longest stretches of computation without input, longest first
}

// c10Gap is a stretch of the uncancelled read between two input operations (or after the last one) in which the
// reader only computes: after operation j it burns us microseconds of CPU before it touches the input again.
type c10Gap struct{ j, us int }

func c10Conf(d *c10Doc) *model.Configuration {
	conf := model.NewDefaultConfiguration()
	if d.Strict {
		conf.ValidationMode = model.ValidationStrict
	}
	return conf
}

func outcomeDigest(ctx *model.Context, err error) string {
	if err != nil {
		return "err:" + err.Error()
	}
	return ctxDigest(ctx)
}

func c10Baseline(d *c10Doc) c10Base {
	var b c10Base
	best := time.Duration(1<<62 - 1)
	bestCpu := int64(1<<62 - 1)
	tid := syscall.Gettid() // the calling goroutine is locked to its thread
	for i := 0; i < 3; i++ {
		r := &cancelRS{rs: bytes.NewReader(d.Data), record: i == 0, tid: tid}
		t0 := time.Now()
		c0 := threadCPU(tid)
		ctx, err := pdfcpu.ReadWithContext(context.Background(), r, c10Conf(d))
		el := time.Since(t0)
		cEnd := threadCPU(tid)
		cel := cEnd - c0
		if i > 0 && el < best { // run 0 pays for the phase recording
			best = el
		}
		if i > 0 && cel < bestCpu {
			bestCpu = cel
		}
		if i == 0 {
			b.n = int(r.ops)
			b.phases = r.phases
			b.digest = outcomeDigest(ctx, err)
			for k := range r.opEnd {
				next := cEnd
				if k+1 < len(r.opStart) {
					next = r.opStart[k+1]
				}
				if us := int((next - r.opEnd[k]) / 1000); us >= 20000 {
					b.gaps = append(b.gaps, c10Gap{k + 1, us})
				}
			}
			sort.Slice(b.gaps, func(x, y int) bool { return b.gaps[x].us > b.gaps[y].us })
			if len(b.gaps) > 3 {
				b.gaps = b.gaps[:3]
			}
		} else if dg := outcomeDigest(ctx, err); dg != b.digest {
			h.Die("c10: uncancelled read of %s is not deterministic: %s vs %s", d.Name, dg, b.digest)
		}
	}
	b.fullUs = int(best.Microseconds())
	b.fullCpu = int(bestCpu / 1000)
	return b
}

func trimErr(err error) string {
	if err == nil {
		return ""
	}
	s := err.Error()
	if len(s) > 160 {
		s = s[:160]
	}
	return s
}

// c10Run performs one read with a cancellation schedule and classifies the result.
func c10Run(d *c10Doc, b *c10Base, mode string, j, delay int) (rec c10Rec) {
	rec = c10Rec{Doc: d.Name, Class: d.Class, Size: len(d.Data), Mode: mode, J: j, Delay: delay, N: b.n, FullUs: b.fullUs, FullCpu: b.fullCpu}
	var c context.Context
	var cancel func()
	switch mode {
	case "predl":
		c, cancel = context.WithDeadline(context.Background(), time.Now().Add(-time.Second))
	default:
		c, cancel = context.WithCancel(context.Background())
	}
	defer cancel()
	r := &cancelRS{rs: bytes.NewReader(d.Data), cancel: cancel}
	var tCancel, cpuCancel atomic.Int64
	var timer *time.Timer
	cbDone := make(chan struct{})
	tid := 0
	switch mode {
	case "pre":
		cancel()
		r.cancelled.Store(true)
	case "predl":
		r.cancelled.Store(true)
	case "det":
		r.cancelAt = int64(j)
		tid = syscall.Gettid() // deterministic runs happen on worker goroutines locked to their threads
	case "timer", "gap":
		tid = syscall.Gettid() // timer runs happen on a goroutine locked to its thread
		wait := time.Duration(j) * time.Microsecond
		if mode == "gap" {
			wait = time.Hour // armed by the j-th operation
		}
		timer = time.AfterFunc(wait, func() {
			// everything is sampled after cancel() returned: the canceller may be descheduled at any point, and
			// operations or time before the context is really cancelled must not be charged to the reader
			cancel()
			cpuCancel.Store(threadCPU(tid))
			tCancel.Store(time.Now().UnixNano())
			r.cancelled.Store(true)
			close(cbDone)
		})
	}
	if mode == "gap" {
		r.gapAt = int64(j)
		r.startTimer = func() { timer.Reset(time.Duration(delay) * time.Microsecond) }
	}
	var ctx *model.Context
	var err error
	func() {
		defer func() {
			if p := recover(); p != nil {
				rec.Kind = "panic"
				rec.Err = fmt.Sprint(p)
			}
		}()
		ctx, err = pdfcpu.ReadWithContext(c, r, c10Conf(d))
	}()
	tEnd := time.Now().UnixNano()
	cpuEnd := int64(0)
	if tid != 0 {
		cpuEnd = threadCPU(tid)
	}
	if timer != nil && !timer.Stop() {
		<-cbDone // the canceller has started: wait until it has recorded its clocks
	}
	rec.After = int(r.after.Load())
	rec.Phase = r.phase
	rec.Last = r.last
	rec.DocNil = ctx == nil
	switch mode {
	case "pre", "predl":
		rec.Fired = true
	case "det":
		rec.Fired = r.cancelled.Load()
		if rec.Fired && r.cpuAtCancel > 0 && cpuEnd >= r.cpuAtCancel {
			rec.AfterCpu = int((cpuEnd - r.cpuAtCancel) / 1000)
			rec.AfterUs = int((tEnd - r.tAtCancel) / 1000)
		}
	case "timer", "gap":
		// the read saw the cancellation if it returned the context's error, or if cancel() had returned before the read did
		sawCancel := err != nil && c.Err() != nil && errors.Is(err, c.Err())
		if tc := tCancel.Load(); tc != 0 && (tc <= tEnd || sawCancel) {
			rec.Fired = true
			if tc <= tEnd {
				rec.AfterUs = int((tEnd - tc) / 1000)
			}
			if cc := cpuCancel.Load(); cc > 0 && cpuEnd >= cc {
				rec.AfterCpu = int((cpuEnd - cc) / 1000)
			}
		}
	}
	if rec.Kind == "panic" {
		return rec
	}
	rec.Err = trimErr(err)
	ce := c.Err()
	rec.IsCtx = err != nil && ce != nil && errors.Is(err, ce)
	rec.Same = outcomeDigest(ctx, err) == b.digest
	switch {
	case rec.IsCtx:
		rec.Kind = "ctxErr"
	case rec.Same:
		rec.Kind = "done"
	default:
		rec.Kind = "other"
	}
	return rec
}

func c10Docs(repo string, quick bool, seed int64) []*c10Doc {
	var docs []*c10Doc
	td := filepath.Join(repo, "pkg", "testdata")
	names, _ := filepath.Glob(filepath.Join(td, "*.pdf"))
	sort.Strings(names)
	type cf struct {
		name string
		size int64
	}
	var cfs []cf
	for _, n := range names {
		st, err := os.Stat(n)
		if err == nil {
			cfs = append(cfs, cf{n, st.Size()})
		}
	}
	pick := map[string]bool{}
	if quick {
		// a seeded choice of small corpus files plus two fixed ones (hybrid xref, xref streams)
		rng := rand.New(rand.NewSource(seed))
		small := []string{}
		for _, c := range cfs {
			if c.size < 400_000 {
				small = append(small, c.name)
			}
		}
		rng.Shuffle(len(small), func(i, j int) { small[i], small[j] = small[j], small[i] })
		for i := 0; i < 4 && i < len(small); i++ {
			pick[small[i]] = true
		}
		pick[filepath.Join(td, "Hybrid-PDF.pdf")] = true
		pick[filepath.Join(td, "annotTest.pdf")] = true
	} else {
		for _, c := range cfs {
			pick[c.name] = true
		}
	}
	for _, c := range cfs {
		if !pick[c.name] {
			continue
		}
		b, err := os.ReadFile(c.name)
		if err != nil {
			h.Die("c10: %v", err)
		}
		docs = append(docs, &c10Doc{Name: "corpus:" + filepath.Base(c.name), Data: b, Class: "corpus"})
	}
	small := manyObjects(3, 40)
	docs = append(docs,
		&c10Doc{Name: "gen:classic", Data: small.classic(), Class: "small"},
		&c10Doc{Name: "gen:classic-strict", Data: small.classic(), Class: "small", Strict: true},
		&c10Doc{Name: "gen:incremental", Data: small.incremental(20, 6), Class: "small"},
		&c10Doc{Name: "gen:objstm", Data: manyObjects(3, 300).xrefStream(40, true), Class: "objstm"},
		&c10Doc{Name: "gen:objstm-raw", Data: manyObjects(2, 120).xrefStream(25, false), Class: "objstm"},
		&c10Doc{Name: "gen:broken-xref", Data: manyObjects(3, 200).broken(), Class: "repair"},
		&c10Doc{Name: "gen:shifted-xref", Data: manyObjects(3, 200).shifted(1), Class: "repair"},
	)
	// one very large object: the reader buffers it and then works on it in single calls that touch no input
	nlit := 120_000
	if !quick {
		nlit = 250_000
	}
	nlit = h.EnvInt("C10_NLIT", nlit)
	for _, kind := range []string{"literals", "hex", "comments"} {
		docs = append(docs, &c10Doc{Name: fmt.Sprintf("gen:bigobj-%s-%d", kind, nlit), Data: bigObjectDoc(kind, nlit), Class: "bigobj"})
	}
	big := 10_000
	if !quick {
		big = 100_000
	}
	bd := manyObjects(5, big)
	docs = append(docs,
		&c10Doc{Name: fmt.Sprintf("gen:big-classic-%d", big), Data: bd.classic(), Class: "big"},
		&c10Doc{Name: fmt.Sprintf("gen:big-objstm-%d", big), Data: bd.xrefStream(1000, true), Class: "big"},
		&c10Doc{Name: fmt.Sprintf("gen:big-broken-%d", big), Data: bd.broken(), Class: "big"},
	)
	return docs
}

// bigObjectDoc returns a small document with one huge object hanging off the catalog: an array of n string literals
// followed by a comment right before endobj, an array of n hex strings, or a dictionary whose entries are separated
// by n comment lines.
func bigObjectDoc(kind string, n int) []byte {
	d := &xdoc{}
	cat, pages, _ := d.basePages(1)
	var sb strings.Builder
	switch kind {
	case "literals":
		sb.WriteString("[")
		for i := 0; i < n; i++ {
			sb.WriteString("(a) ")
		}
		sb.WriteString("]\n% generated names")
	case "hex":
		sb.WriteString("[")
		for i := 0; i < n; i++ {
			sb.WriteString("<6162> ")
		}
		sb.WriteString("<" + strings.Repeat("61", n) + ">]")
	case "comments":
		sb.WriteString("<<")
		for i := 0; i < n; i++ {
			if i%1000 == 0 {
				fmt.Fprintf(&sb, " /K%d (v)\n", i)
			}
			sb.WriteString("% c\n")
		}
		sb.WriteString(">>")
	}
	o := d.add(sb.String())
	d.setCatalog(cat, pages, fmt.Sprintf("/VerifBig %d 0 R", o))
	return d.classic()
}

// schedule returns the operation indexes after which to cancel.
func c10Schedule(b *c10Base, all int, extra int, rng *rand.Rand) []int {
	if b.n <= all {
		js := make([]int, b.n)
		for i := range js {
			js[i] = i + 1
		}
		return js
	}
	set := map[int]bool{1: true, 2: true, b.n: true, b.n - 1: true}
	// around every phase change
	for i := 1; i < len(b.phases); i++ {
		if b.phases[i] != b.phases[i-1] {
			for k := i - 1; k <= i+2; k++ {
				if k >= 1 && k <= b.n {
					set[k] = true
				}
			}
		}
	}
	for len(set) < extra+8 && len(set) < b.n {
		set[1+rng.Intn(b.n)] = true
	}
	js := make([]int, 0, len(set))
	for k := range set {
		js = append(js, k)
	}
	sort.Ints(js)
	return js
}

func c10Main() {
	out := h.Arg("--out")
	repo := h.Arg("--repo")
	quick := h.Arg("--tier") != "thorough"
	seed := int64(h.ArgInt("--seed", 1))
	workers := h.ArgInt("--workers", 8)
	all := h.ArgInt("--all", 600)      // documents with at most this many operations get every j
	extra := h.ArgInt("--extra", 40)   // sampled j for larger documents
	timers := h.ArgInt("--timers", 12) // timer runs per document
	confirm := h.Arg("--confirm")      // "doc|mode|j|delay": re-measure one schedule three times
	runtime.LockOSThread()             // baselines and timer runs measure the CPU clock of this thread
	docs := c10Docs(repo, quick, seed)
	w := h.NewW(out)
	defer w.Close()
	var mu sync.Mutex
	put := func(r c10Rec) {
		mu.Lock()
		w.Put(r)
		mu.Unlock()
	}
	bases := make([]c10Base, len(docs))
	phaseSeen := map[string]int{}
	if confirm == "" {
		for i, d := range docs {
			bases[i] = c10Baseline(d)
		}
	}
	if confirm != "" {
		parts := strings.SplitN(confirm, "|", 4) // doc|mode|j|delay
		var j, dl int
		fmt.Sscanf(parts[2], "%d", &j)
		fmt.Sscanf(parts[3], "%d", &dl)
		for i, d := range docs {
			if d.Name != parts[0] {
				continue
			}
			for k := 0; k < 3; k++ {
				runtime.GC() // a collection that starts during the measured run would be charged to the reader's thread
				bases[i] = c10Baseline(d)
				runtime.GC()
				put(c10Run(d, &bases[i], parts[1], j, dl))
			}
		}
		h.Summary(map[string]any{"confirm": confirm})
		return
	}
	type job struct {
		di   int
		mode string
		j    int
	}
	var jobs []job
	for i := range docs {
		rng := rand.New(rand.NewSource(seed*1000 + int64(i)))
		jobs = append(jobs, job{i, "pre", 0}, job{i, "predl", 0})
		for _, j := range c10Schedule(&bases[i], all, extra, rng) {
			jobs = append(jobs, job{i, "det", j})
		}
	}
	ch := make(chan job, 64)
	var wg sync.WaitGroup
	for k := 0; k < workers; k++ {
		wg.Add(1)
		go func() {
			defer wg.Done()
			runtime.LockOSThread() // the CPU clock of this thread measures what a read burns after its cancellation
			for jb := range ch {
				put(c10Run(docs[jb.di], &bases[jb.di], jb.mode, jb.j, 0))
			}
		}()
	}
	for _, jb := range jobs {
		ch <- jb
	}
	close(ch)
	wg.Wait()
	// timer mode: sequential (timing), after the parallel part
	nTimer, nGap := 0, 0
	for i, d := range docs {
		rng := rand.New(rand.NewSource(seed*7919 + int64(i)))
		for k := 0; k < timers; k++ {
			delay := 1 + rng.Intn(bases[i].fullUs+1)
			if k%3 == 2 { // early cancellations: the xref phase is short
				delay = 1 + rng.Intn(bases[i].fullUs/8+1)
			}
			put(c10Run(d, &bases[i], "timer", delay, 0))
			nTimer++
		}
		// cancellations inside the longest stretches of pure computation (no input operation): 10%, 30% and 60% into
		// the stretch that follows operation j of the uncancelled read
		for _, g := range bases[i].gaps {
			for _, pct := range []int{10, 30, 60} {
				put(c10Run(d, &bases[i], "gap", g.j, g.us*pct/100))
				nGap++
			}
		}
	}
	// the file variant: already cancelled context
	dir, _ := os.MkdirTemp("", "c10-")
	defer os.RemoveAll(dir)
	for i, d := range docs {
		p := filepath.Join(dir, fmt.Sprintf("d%d.pdf", i))
		os.WriteFile(p, d.Data, 0o644)
		c, cancel := context.WithCancel(context.Background())
		cancel()
		ctx, err := pdfcpu.ReadFileWithContext(c, p, c10Conf(d))
		rec := c10Rec{Doc: d.Name, Class: d.Class, Size: len(d.Data), Mode: "file", N: bases[i].n, FullUs: bases[i].fullUs, FullCpu: bases[i].fullCpu, Fired: true,
			DocNil: ctx == nil, Err: trimErr(err), IsCtx: err != nil && errors.Is(err, c.Err())}
		rec.Same = outcomeDigest(ctx, err) == bases[i].digest
		switch {
		case rec.IsCtx:
			rec.Kind = "ctxErr"
		case rec.Same:
			rec.Kind = "done"
		default:
			rec.Kind = "other"
		}
		put(rec)
	}
	for i := range docs {
		seen := map[string]bool{}
		for _, p := range bases[i].phases {
			if !seen[p] {
				seen[p] = true
				phaseSeen[p]++
			}
		}
	}
	var dl []map[string]any
	for i, d := range docs {
		dl = append(dl, map[string]any{"doc": d.Name, "size": len(d.Data), "n": bases[i].n, "fullus": bases[i].fullUs, "fullcpu": bases[i].fullCpu, "ok": !strings.HasPrefix(bases[i].digest, "err:")})
	}
	h.Summary(map[string]any{"docs": dl, "records": w.N, "phases": phaseSeen, "timer": nTimer, "gap": nGap})
	_ = io.EOF
}
