package main

// C08: mutation classes of valid inputs.  TLC enumerates (target, mutation class, ordinal k); this file locates the
// structure boundaries / length fields of the valid sample and applies the k-th mutation.

import (
	"bytes"
	"crypto/ecdsa"
	"crypto/elliptic"
	"crypto/rand"
	"crypto/x509"
	"crypto/x509/pkix"
	"encoding/binary"
	"encoding/pem"
	"fmt"
	"math/big"
	"os"
	"path/filepath"
	"regexp"
	"strings"
	"time"
)

// spread maps ordinal k of kmax onto an index of a list with cnt entries so that the whole list is covered.
func spread(k, kmax, cnt int) int {
	if cnt <= 0 {
		return -1
	}
	if kmax <= 1 || cnt == 1 {
		return 0
	}
	i := k * (cnt - 1) / (kmax - 1)
	if i >= cnt {
		i = cnt - 1
	}
	return i
}

type lenField struct {
	off, size int // big endian unsigned field of `size` bytes at offset off
	der       bool
}

// ---------------------------------------------------------------------------------------------------- TrueType

func ttfStructure(b []byte) (bounds []int, fields []lenField) {
	bounds = []int{0, 4, 12}
	if len(b) < 12 {
		return
	}
	fields = append(fields, lenField{off: 4, size: 2})
	n := int(binary.BigEndian.Uint16(b[4:]))
	for i := 0; i < n && 12+16*(i+1) <= len(b); i++ {
		rec := 12 + 16*i
		fields = append(fields, lenField{off: rec + 8, size: 4}, lenField{off: rec + 12, size: 4})
		off := int(binary.BigEndian.Uint32(b[rec+8:]))
		ln := int(binary.BigEndian.Uint32(b[rec+12:]))
		bounds = append(bounds, rec, off, off+ln/2, off+ln)
		tag := string(b[rec : rec+4])
		// a few counts inside tables
		in := func(o, sz int) {
			if off+o+sz <= len(b) {
				fields = append(fields, lenField{off: off + o, size: sz})
			}
		}
		switch tag {
		case "maxp":
			in(4, 2) // numGlyphs
		case "hhea":
			in(34, 2) // numberOfHMetrics
		case "head":
			in(18, 2) // unitsPerEm
			in(50, 2) // indexToLocFormat
		case "name":
			in(2, 2) // count
			in(4, 2) // stringOffset
		case "cmap":
			in(2, 2) // numTables
			in(8, 4) // first subtable offset
		case "post":
			in(0, 4)
		case "OS/2":
			in(0, 2)
		}
	}
	bounds = append(bounds, len(b)-1)
	return
}

// --------------------------------------------------------------------------------------------------------- DER

func derStructure(b []byte) (bounds []int, fields []lenField) {
	var walk func(lo, hi, depth int)
	walk = func(lo, hi, depth int) {
		for p := lo; p < hi && len(fields) < 4000; {
			if p+2 > hi {
				return
			}
			tag := b[p]
			lp := p + 1
			if tag&0x1f == 0x1f { // high tag number
				for lp < hi && b[lp]&0x80 != 0 {
					lp++
				}
				lp++
			}
			if lp >= hi {
				return
			}
			l := int(b[lp])
			vs := lp + 1
			if l&0x80 != 0 {
				k := l & 0x7f
				if k == 0 || k > 4 || lp+1+k > hi {
					return
				}
				l = 0
				for i := 0; i < k; i++ {
					l = l<<8 | int(b[lp+1+i])
				}
				fields = append(fields, lenField{off: lp + 1, size: k, der: true})
				vs = lp + 1 + k
			} else {
				fields = append(fields, lenField{off: lp, size: 1, der: true})
			}
			ve := vs + l
			if ve > hi {
				return
			}
			bounds = append(bounds, p, vs, ve)
			if tag&0x20 != 0 && depth < 32 {
				walk(vs, ve, depth+1)
			}
			p = ve
		}
	}
	walk(0, len(b), 0)
	return
}

func mutateBinary(b []byte, mop string, k, kmax int, bounds []int, fields []lenField) ([]byte, string) {
	out := append([]byte(nil), b...)
	if mop == "trunc" {
		i := spread(k, kmax, len(bounds))
		if i < 0 {
			return nil, ""
		}
		p := bounds[i]
		if p < 0 {
			p = 0
		}
		if p > len(out) {
			p = len(out)
		}
		return out[:p], fmt.Sprintf("truncate at %d of %d", p, len(b))
	}
	i := spread(k, kmax, len(fields))
	if i < 0 {
		return nil, ""
	}
	f := fields[i]
	if f.off+f.size > len(out) {
		return nil, ""
	}
	var v uint64
	for j := 0; j < f.size; j++ {
		v = v<<8 | uint64(out[f.off+j])
	}
	max := uint64(1)<<(8*uint(f.size)) - 1
	if f.der && f.size == 1 {
		max = 0x7f
	}
	switch mop {
	case "len0":
		v = 0
	case "lenmax":
		v = max
	case "lenplus1":
		v++
	case "lenminus1":
		v--
	}
	v &= uint64(1)<<(8*uint(f.size)) - 1
	if f.der && f.size == 1 && mop == "lenmax" {
		// long form claiming 2^32-1 bytes
		out = append(out[:f.off], append([]byte{0x84, 0xff, 0xff, 0xff, 0xff}, out[f.off+1:]...)...)
		return out, fmt.Sprintf("DER length at %d := 2^32-1", f.off)
	}
	for j := f.size - 1; j >= 0; j-- {
		out[f.off+j] = byte(v)
		v >>= 8
	}
	return out, fmt.Sprintf("%s of the %d byte field at %d", mop, f.size, f.off)
}

// --------------------------------------------------------------------------------------------------- text data

var jsonStructural = regexp.MustCompile(`[{}\[\],:]|"(?:[^"\\]|\\.)*"|-?\d+(?:\.\d+)?|true|false|null`)

func mutateText(b []byte, kind, mop string, k, kmax int) ([]byte, string) {
	var toks [][]int
	if kind == "json" {
		toks = jsonStructural.FindAllIndex(b, -1)
	} else {
		// csv: fields and line ends
		re := regexp.MustCompile(`"(?:[^"]|"")*"|[^,\r\n]+|,|\r?\n`)
		toks = re.FindAllIndex(b, -1)
	}
	i := spread(k, kmax, len(toks))
	if i < 0 {
		return nil, ""
	}
	t := toks[i]
	rep := func(s string) []byte {
		return append(append(append([]byte(nil), b[:t[0]]...), s...), b[t[1]:]...)
	}
	switch mop {
	case "trunc":
		return append([]byte(nil), b[:t[1]]...), fmt.Sprintf("truncate after token %d at %d", i, t[1])
	case "len0":
		return rep(""), fmt.Sprintf("token %d removed", i)
	case "lenmax":
		if kind == "json" {
			return rep(`"` + strings.Repeat("A", 100000) + `"`), fmt.Sprintf("token %d := 100000 character string", i)
		}
		return rep(`"` + strings.Repeat("A", 100000) + `"`), fmt.Sprintf("field %d := 100000 characters", i)
	case "lenplus1":
		return rep(string(b[t[0]:t[1]]) + string(b[t[0]:t[1]])), fmt.Sprintf("token %d doubled", i)
	case "lenminus1":
		if t[1]-t[0] > 1 {
			return rep(string(b[t[0] : t[1]-1])), fmt.Sprintf("token %d loses its last byte", i)
		}
		return rep("99999999999999999999"), fmt.Sprintf("token %d := 99999999999999999999", i)
	}
	return nil, ""
}

// ------------------------------------------------------------------------------------------------------ samples

type samples struct {
	ttf, certDER, certPEM, p7c, pkcs7, json, csv []byte
	formPDF                                      string // path of the form the JSON/CSV data belongs to
}

var sigContents = regexp.MustCompile(`/Contents\s*<([0-9A-Fa-f]{200,})>`)

func loadSamples(repo, dir string) (*samples, error) {
	s := &samples{}
	var err error
	if s.ttf, err = os.ReadFile(filepath.Join(repo, "pkg/testdata/fonts/Roboto-Regular.ttf")); err != nil {
		return nil, err
	}
	if s.p7c, err = os.ReadFile(filepath.Join(repo, "pkg/pdfcpu/model/resources/certs/is.p7c")); err != nil {
		return nil, err
	}
	key, err := ecdsa.GenerateKey(elliptic.P256(), rand.Reader)
	if err != nil {
		return nil, err
	}
	tmpl := &x509.Certificate{SerialNumber: big.NewInt(4711), Subject: pkix.Name{CommonName: "verif C08", Organization: []string{"verif"}},
		NotBefore: time.Unix(1700000000, 0), NotAfter: time.Unix(2000000000, 0), IsCA: true, BasicConstraintsValid: true,
		KeyUsage: x509.KeyUsageCertSign | x509.KeyUsageDigitalSignature, DNSNames: []string{"example.invalid"}}
	if s.certDER, err = x509.CreateCertificate(rand.Reader, tmpl, tmpl, &key.PublicKey, key); err != nil {
		return nil, err
	}
	s.certPEM = pem.EncodeToMemory(&pem.Block{Type: "CERTIFICATE", Bytes: s.certDER})
	sp, err := os.ReadFile(filepath.Join(repo, "pkg/samples/signatures/adbe.pkcs7.detached/sample1.pdf"))
	if err == nil {
		if m := sigContents.FindSubmatch(sp); m != nil {
			hx := bytes.TrimRight(m[1], "0")
			if len(hx)%2 == 1 {
				hx = append(hx, '0')
			}
			raw := make([]byte, len(hx)/2)
			for i := range raw {
				fmt.Sscanf(string(hx[2*i:2*i+2]), "%02x", &raw[i])
			}
			s.pkcs7 = raw
		}
	}
	if s.pkcs7 == nil {
		s.pkcs7 = s.p7c
	}
	if s.json, err = os.ReadFile(filepath.Join(repo, "pkg/samples/form/fill/english.json")); err != nil {
		return nil, err
	}
	s.formPDF = filepath.Join(repo, "pkg/samples/form/fill/english.pdf")
	s.csv = []byte("\"firstName1\",\"lastName1\",\"dob1\",\"gender1\",\"note1\",\"city11\",\"city12\",\"@filename\"\n" +
		"\"Jane\",\"Doe\",\"06.01.2000\",\"female\",\"Person #1\",\"San Francisco\",\"London\",\"Jane\"\n" +
		"\"Joe\",\"Doe\",\"30.07.2001\",\"male\",\"Person, #2\",\"Sao Paulo\",\"San Francisco\",\"Joe\"\n")
	return s, nil
}

// mutateSample returns the mutated bytes of the sample for the target and a description; nil = no such mutation.
func (s *samples) mutate(target, mop string, k, kmax int) ([]byte, string) {
	switch target {
	case "ttf":
		bd, fl := ttfStructure(s.ttf)
		return mutateBinary(s.ttf, mop, k, kmax, bd, fl)
	case "certder":
		bd, fl := derStructure(s.certDER)
		return mutateBinary(s.certDER, mop, k, kmax, bd, fl)
	case "certpem":
		bd, fl := derStructure(s.certDER)
		m, what := mutateBinary(s.certDER, mop, k, kmax, bd, fl)
		if m == nil {
			return nil, ""
		}
		p := pem.EncodeToMemory(&pem.Block{Type: "CERTIFICATE", Bytes: m})
		if mop == "trunc" && k%2 == 1 {
			// odd ordinals: cut the PEM text itself (inside the base64 body)
			cut := spread(k, kmax, len(s.certPEM))
			return append([]byte(nil), s.certPEM[:cut]...), fmt.Sprintf("PEM text truncated at %d", cut)
		}
		return p, "PEM of DER with " + what
	case "p7c":
		bd, fl := derStructure(s.p7c)
		return mutateBinary(s.p7c, mop, k, kmax, bd, fl)
	case "pkcs7":
		bd, fl := derStructure(s.pkcs7)
		return mutateBinary(s.pkcs7, mop, k, kmax, bd, fl)
	case "json":
		return mutateText(s.json, "json", mop, k, kmax)
	case "csv":
		return mutateText(s.csv, "csv", mop, k, kmax)
	}
	return nil, ""
}

// ------------------------------------------------------------------------------------------ PDF field mutation

func isDelim(c byte) bool {
	return c == ' ' || c == '\n' || c == '\r' || c == '\t' || c == '/' || c == '[' || c == '<' || c == '(' || c == '>' || c == ']'
}

func skipWS(b []byte, p int) int {
	for p < len(b) && (b[p] == ' ' || b[p] == '\n' || b[p] == '\r' || b[p] == '\t') {
		p++
	}
	return p
}

// valueEnd returns the end of the PDF value starting at p (best effort).
func valueEnd(b []byte, p int) int {
	if p >= len(b) {
		return p
	}
	match := func(open, cl string) int {
		depth := 0
		for i := p; i < len(b); i++ {
			switch {
			case bytes.HasPrefix(b[i:], []byte(open)):
				depth++
				i += len(open) - 1
			case bytes.HasPrefix(b[i:], []byte(cl)):
				depth--
				i += len(cl) - 1
				if depth == 0 {
					return i + 1
				}
			}
			if i-p > 20000 {
				break
			}
		}
		return p
	}
	switch {
	case bytes.HasPrefix(b[p:], []byte("<<")):
		return match("<<", ">>")
	case b[p] == '[':
		return match("[", "]")
	case b[p] == '(':
		return match("(", ")")
	case b[p] == '<':
		if i := bytes.IndexByte(b[p:], '>'); i >= 0 {
			return p + i + 1
		}
		return p
	case b[p] == '/':
		i := p + 1
		for i < len(b) && !isDelim(b[i]) {
			i++
		}
		return i
	}
	// number, possibly a reference "n g R"
	tok := func(i int) int {
		for i < len(b) && !isDelim(b[i]) {
			i++
		}
		return i
	}
	e := tok(p)
	q := skipWS(b, e)
	e2 := tok(q)
	r := skipWS(b, e2)
	if e2 > q && r < len(b) && b[r] == 'R' && (r+1 == len(b) || isDelim(b[r+1])) && isNum(b[p:e]) && isNum(b[q:e2]) {
		return r + 1
	}
	return e
}

func isNum(b []byte) bool {
	if len(b) == 0 {
		return false
	}
	for _, c := range b {
		if c < '0' || c > '9' {
			return false
		}
	}
	return true
}

var objHeader = regexp.MustCompile(`(\d+)\s+\d+\s+obj`)

func valueFor(class string, b []byte, at int) string {
	switch class {
	case "0":
		return "0"
	case "neg":
		return "-1"
	case "one":
		return "1"
	case "huge":
		return "2147483647"
	case "huger":
		return "99999999999999999999"
	case "real":
		return "1.5"
	case "name":
		return "/Bogus"
	case "null":
		return "null"
	case "refself":
		ms := objHeader.FindAllSubmatch(b[:at], -1)
		if len(ms) > 0 {
			return string(ms[len(ms)-1][1]) + " 0 R"
		}
		return "1 0 R"
	case "refdangling":
		return "999999 0 R"
	case "emptyarray":
		return "[]"
	case "string":
		return "(x)"
	case "dict":
		return "<< /A 1 >>"
	case "deeparray":
		return nest("[", "]", 200, "0")
	case "longname":
		return "/" + strings.Repeat("A", 5000)
	case "boolean":
		return "true"
	}
	return "null"
}

// mutatePDF overwrites the value of the k-th occurrence of /field (or the startxref number) with a value of the class.
func mutatePDF(b []byte, field, class string, k int) ([]byte, string) {
	var vs, ve int
	if field == "startxref" {
		i := bytes.LastIndex(b, []byte("startxref"))
		if i < 0 || k > 0 {
			return nil, ""
		}
		vs = skipWS(b, i+len("startxref"))
		ve = valueEnd(b, vs)
	} else {
		key := []byte("/" + field)
		p, seen := 0, 0
		found := false
		for p < len(b) {
			i := bytes.Index(b[p:], key)
			if i < 0 {
				break
			}
			i += p
			e := i + len(key)
			if e < len(b) && isDelim(b[e]) {
				if seen == k {
					vs = skipWS(b, e)
					ve = valueEnd(b, vs)
					found = true
					break
				}
				seen++
			}
			p = e
		}
		if !found {
			return nil, ""
		}
	}
	if ve <= vs {
		return nil, ""
	}
	nv := valueFor(class, b, vs)
	old := string(b[vs:ve])
	if len(old) > 40 {
		old = old[:40] + "..."
	}
	// keep the file layout when the new value is not longer than the old one
	if len(nv) < ve-vs {
		nv += strings.Repeat(" ", ve-vs-len(nv))
	}
	out := append(append(append([]byte(nil), b[:vs]...), nv...), b[ve:]...)
	show := nv
	if len(show) > 40 {
		show = show[:40] + "..."
	}
	return out, fmt.Sprintf("/%s occurrence %d at %d: %q -> %q", field, k, vs, old, strings.TrimSpace(show))
}

var pdfBoundary = regexp.MustCompile(`endobj|endstream|stream\r?\n|xref|trailer|startxref|<<|>>|%%EOF`)

func truncatePDF(b []byte, k, kmax int) ([]byte, string) {
	locs := pdfBoundary.FindAllIndex(b, -1)
	i := spread(k, kmax, len(locs))
	if i < 0 {
		return nil, ""
	}
	p := locs[i][1]
	if k%3 == 2 {
		p = locs[i][0] + (locs[i][1]-locs[i][0])/2 // in the middle of the keyword
	}
	return append([]byte(nil), b[:p]...), fmt.Sprintf("truncated at %d of %d (boundary %d of %d)", p, len(b), i, len(locs))
}

// richDoc is a generated document in which most structural fields occur: filters with predictor, an image, a font
// with widths, a form field with appearance, annotations, names, outlines, info, ID, rotation.
func richDoc() *xdoc {
	d := &xdoc{}
	cat := d.reserve()
	d.root = cat
	pages := d.reserve()
	font := d.add("<< /Type /Font /Subtype /TrueType /BaseFont /Helvetica /FirstChar 32 /LastChar 34 /Widths [278 278 355] /Encoding /WinAnsiEncoding >>")
	pred := zlibBytes([]byte{0, 'q', ' ', 'Q', ' ', 0, ' ', ' ', ' ', ' '})
	cs := d.add(streamObj("/Filter /FlateDecode /DecodeParms << /Predictor 12 /Columns 4 >>", pred))
	img := d.add(streamObj("/Type /XObject /Subtype /Image /Width 2 /Height 2 /BitsPerComponent 8 /ColorSpace /DeviceGray /Filter /FlateDecode", zlibBytes([]byte{1, 2, 3, 4})))
	ap := d.add(streamObj("/Type /XObject /Subtype /Form /BBox [0 0 90 20] /Resources << /Font << /F1 "+ref(font)+" >> >>", []byte("/Tx BMC BT /F1 10 Tf (v) Tj ET EMC")))
	page := d.reserve()
	field := d.addf("<< /Type /Annot /Subtype /Widget /FT /Tx /T (name) /V (v) /Rect [10 10 100 30] /P %d 0 R /DA (/F1 10 Tf 0 g) /AP << /N %d 0 R >> >>", page, ap)
	link := d.addf("<< /Type /Annot /Subtype /Link /Rect [0 0 10 10] /A << /S /URI /URI (http://example.invalid) >> >>")
	d.setf(page, "<< /Type /Page /Parent %d 0 R /MediaBox [0 0 200 200] /Rotate 90 /Contents %d 0 R /Resources << /Font << /F1 %d 0 R >> /XObject << /Im1 %d 0 R >> >> /Annots [%d 0 R %d 0 R] >>",
		pages, cs, font, img, field, link)
	d.setf(pages, "<< /Type /Pages /Count 1 /Kids [%d 0 R] >>", page)
	ol := d.reserve()
	it := d.addf("<< /Title (one) /Parent %d 0 R /Dest [%d 0 R /Fit] >>", ol, page)
	d.setf(ol, "<< /Type /Outlines /First %d 0 R /Last %d 0 R /Count 1 >>", it, it)
	names := d.addf("<< /Names [(d1) [%d 0 R /Fit]] >>", page)
	d.setf(cat, "<< /Type /Catalog /Pages %d 0 R /Outlines %d 0 R /Names << /Dests %d 0 R >> /AcroForm << /Fields [%d 0 R] /DA (/F1 10 Tf 0 g) /DR << /Font << /F1 %d 0 R >> >> >> >>",
		pages, ol, names, field, font)
	d.info = d.add("<< /Title (rich) /Producer (verif) >>")
	d.trailer = "/ID [<00112233445566778899AABBCCDDEEFF> <00112233445566778899AABBCCDDEEFF>]"
	return d
}
