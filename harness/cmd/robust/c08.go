package main

// C08: malformed input never crashes, overflows the stack or hangs.
//
// Shapes come from TLC (spec/Robust.tla).  The child turns each shape into a real input and runs every entry point on
// it; a panic that escapes the API is recovered and recorded, a fatal error (stack exhaustion with the lowered
// debug.SetMaxStack, out of memory) or a missed deadline kills the child and is attributed by the parent to the
// operation in flight.  The parent writes one record per shape: the list of operations and their outcomes, which TLC
// judges (spec/RobustTrace.tla): every outcome must be ok or error.

import (
	"bytes"
	"encoding/json"
	"fmt"
	"io"
	"os"
	"path/filepath"
	"runtime/debug"
	"sort"
	"strings"
	"sync"
	"time"

	"github.com/pdfcpu/pdfcpu/pkg/api"
	"github.com/pdfcpu/pdfcpu/pkg/font"
	"github.com/pdfcpu/pdfcpu/pkg/pdfcpu"
	"github.com/pdfcpu/pdfcpu/pkg/pdfcpu/model"
	"github.com/pdfcpu/pdfcpu/pkg/pdfcpu/pkcs7"
	"github.com/pdfcpu/pdfcpu/pkg/pdfcpu/types"
	"verif/harness/lib/h"
)

type c08Shape struct {
	Fam    string  `json:"fam"`
	Rel    string  `json:"rel"`
	N      int     `json:"n"`
	Adj    [][]int `json:"adj"`
	Decor  string  `json:"decor"`
	Succ   []int   `json:"succ"`
	First  []int   `json:"first"`
	ILast  []int   `json:"ilast"`
	RFirst int     `json:"rfirst"`
	Parent []int   `json:"parent"`
	RT     bool    `json:"rt"`
	Next   []int   `json:"next"`
	Prev   []int   `json:"prev"`
	Last   int     `json:"last"`
	Depth  int     `json:"depth"`
	Target string  `json:"target"`
	Mop    string  `json:"mop"`
	K      int     `json:"k"`
	Base   string  `json:"base"`
	Field  string  `json:"field"`
	Val    string  `json:"val"`
}

type c08Case struct {
	Shape   c08Shape `json:"shape"`
	Verdict string   `json:"verdict"`
	Steps   int      `json:"steps"`
	Revisit bool     `json:"revisit"`
	Cyclic  bool     `json:"cyclic"`
}

type c08OpRec struct {
	Idx     int    `json:"idx"`
	Op      string `json:"op"`
	Outcome string `json:"outcome"`
	Where   string `json:"where"`
	Err     string `json:"err"`
	Ms      int    `json:"ms"`
	Size    int    `json:"size"`
	What    string `json:"what"`
}

type c08Rec struct {
	Idx     int      `json:"idx"`
	Fam     string   `json:"fam"`
	Rel     string   `json:"rel"`
	Key     string   `json:"key"` // compact description of the shape
	Size    int      `json:"size"`
	What    string   `json:"what"`
	Skipped bool     `json:"skipped"`
	Nontriv bool     `json:"nontriv"`
	Ops     []string `json:"ops"`
	Outs    []string `json:"outs"`
	Wheres  []string `json:"wheres"`
	Errs    []string `json:"errs"`
	MaxMs   int      `json:"maxms"`
	TotMs   int      `json:"totms"`
}

func (s c08Shape) key() string {
	switch s.Fam {
	case "graph":
		return fmt.Sprintf("%s n=%d adj=%v decor=%s", s.Rel, s.N, s.Adj, s.Decor)
	case "fun":
		return fmt.Sprintf("%s n=%d succ=%v", s.Rel, s.N, s.Succ)
	case "outline":
		return fmt.Sprintf("outline n=%d titled-root=%v root.First=%d root.Last=%d Parent=%v First=%v Last=%v Next=%v Prev=%v (0 none, %d root)", s.N, s.RT, s.RFirst, s.Last, s.Parent, s.First, s.ILast, s.Next, s.Prev, s.N+1)
	case "depth":
		return fmt.Sprintf("%s depth=%d", s.Rel, s.Depth)
	case "mut":
		return fmt.Sprintf("%s %s k=%d", s.Target, s.Mop, s.K)
	case "pdfmut":
		return fmt.Sprintf("%s /%s := %s occurrence %d", s.Base, s.Field, s.Val, s.K)
	case "trunc":
		return fmt.Sprintf("%s truncation %d", s.Base, s.K)
	}
	return s.Fam
}

// ------------------------------------------------------------------------------------------------- child state

type c08Env struct {
	dir     string
	samples *samples
	bases   map[string][]byte
	mutK    int
	truncK  int
}

func pwConf() *model.Configuration {
	conf := model.NewDefaultConfiguration()
	conf.UserPW, conf.OwnerPW = "upw", "opw"
	conf.Offline = true
	return conf
}

func strictConf() *model.Configuration {
	conf := pwConf()
	conf.ValidationMode = model.ValidationStrict
	return conf
}

func (e *c08Env) loadBases(repo string) {
	e.bases = map[string][]byte{}
	rd := richDoc()
	e.bases["classic"] = rd.classic()
	e.bases["objstm"] = rd.xrefStream(4, true)
	var enc bytes.Buffer
	conf := model.NewAESConfiguration("upw", "opw", 256)
	if err := api.Encrypt(bytes.NewReader(e.bases["classic"]), &enc, conf); err != nil {
		h.Die("c08: cannot encrypt the base document: %v", err)
	}
	e.bases["encrypted"] = enc.Bytes()
	if b, err := os.ReadFile(filepath.Join(repo, "pkg/samples/signatures/adbe.pkcs7.detached/sample1.pdf")); err == nil {
		e.bases["signed"] = b
	} else {
		h.Die("c08: %v", err)
	}
	if b, err := os.ReadFile(filepath.Join(repo, "pkg/samples/form/fill/english.pdf")); err == nil {
		e.bases["form"] = b
	} else {
		h.Die("c08: %v", err)
	}
}

// input builds the concrete input of a shape. ok=false: the shape has no concrete counterpart (e.g. the field does
// not occur in the base document); it is recorded as skipped.
func (e *c08Env) input(s c08Shape) (data []byte, what string, ok bool) {
	switch s.Fam {
	case "graph":
		sh := relShape{n: s.N, succs: func(i int) []int {
			ts := append([]int(nil), s.Adj[i-1]...)
			if i == 1 {
				switch s.Decor {
				case "dangling":
					ts = append(ts, tDangling)
				case "wrong":
					ts = append(ts, tWrong)
				case "null":
					ts = append(ts, tNull)
				case "direct":
					ts = append(ts, tDirect)
				}
			}
			return ts
		}}
		b, err := buildRelation(s.Rel, sh)
		return b, "", err == nil
	case "fun":
		sh := relShape{n: s.N, succs: func(i int) []int {
			t := s.Succ[i-1]
			switch {
			case t == 0:
				return nil
			case t == s.N+1:
				return []int{tDangling}
			case t == s.N+2:
				return []int{tWrong}
			}
			return []int{t}
		}}
		b, err := buildRelation(s.Rel, sh)
		return b, "", err == nil
	case "outline":
		tr := func(v int) int {
			switch {
			case v == 0:
				return tNone
			case v == s.N+1:
				return tRoot
			}
			return v
		}
		return buildOutline(outlineShape{n: s.N, last: tr(s.Last), rfirst: tr(s.RFirst), rt: s.RT,
			first: func(i int) int { return tr(s.First[i-1]) },
			ilast: func(i int) int { return tr(s.ILast[i-1]) },
			parent: func(i int) int {
				if i-1 < len(s.Parent) {
					return tr(s.Parent[i-1])
				}
				return tRoot
			},
			next: func(i int) int { return tr(s.Next[i-1]) },
			prev: func(i int) int { return tr(s.Prev[i-1]) }}), "", true
	case "depth":
		switch s.Rel {
		case "array", "dict", "mixed", "parens", "contentarray", "contentq", "contentdict":
			return buildSyntactic(s.Rel, s.Depth), "", true
		}
		b, err := buildRelation(s.Rel, chainShape(s.Depth))
		return b, "", err == nil
	case "mut":
		b, what := e.samples.mutate(s.Target, s.Mop, s.K, e.mutK)
		return b, what, b != nil
	case "pdfmut":
		base, ok := e.bases[s.Base]
		if !ok {
			return nil, "", false
		}
		b, what := mutatePDF(base, s.Field, s.Val, s.K)
		return b, what, b != nil
	case "trunc":
		base, ok := e.bases[s.Base]
		if !ok {
			return nil, "", false
		}
		b, what := truncatePDF(base, s.K, e.truncK)
		return b, what, b != nil
	}
	return nil, "", false
}

// ------------------------------------------------------------------------------------------------- operations

type c08Op struct {
	name string
	run  func(data []byte, e *c08Env) error
}

func rs(data []byte) *bytes.Reader { return bytes.NewReader(data) }

var genericFormJSON = []byte(`{"forms":[{"textfield":[{"name":"F1","value":"x"},{"name":"name","value":"y"},{"name":"leaf","value":"z"}]}]}`)

func pdfOps() []c08Op {
	discardPage := func(r io.Reader, _ int) error { _, err := io.Copy(io.Discard, r); return err }
	return []c08Op{
		{"read-relaxed", func(d []byte, e *c08Env) error { _, err := api.ReadContext(rs(d), pwConf()); return err }},
		{"read-strict", func(d []byte, e *c08Env) error { _, err := api.ReadContext(rs(d), strictConf()); return err }},
		{"validate-relaxed", func(d []byte, e *c08Env) error { return api.Validate(rs(d), pwConf()) }},
		{"validate-strict", func(d []byte, e *c08Env) error { return api.Validate(rs(d), strictConf()) }},
		{"optimize", func(d []byte, e *c08Env) error { return api.Optimize(rs(d), io.Discard, pwConf()) }},
		{"info", func(d []byte, e *c08Env) error {
			_, err := api.PDFInfo(rs(d), "x.pdf", nil, true, pwConf())
			return err
		}},
		{"extract-pages", func(d []byte, e *c08Env) error { return api.ExtractPages(rs(d), nil, discardPage, pwConf()) }},
		{"extract-images", func(d []byte, e *c08Env) error { _, err := api.ExtractImagesRaw(rs(d), nil, pwConf()); return err }},
		{"list-images", func(d []byte, e *c08Env) error { _, err := api.Images(rs(d), nil, pwConf()); return err }},
		{"extract-fonts", func(d []byte, e *c08Env) error {
			return api.ExtractFonts(rs(d), nil, func(pdfcpu.Font) error { return nil }, pwConf())
		}},
		{"extract-content", func(d []byte, e *c08Env) error { return api.ExtractContent(rs(d), nil, discardPage, pwConf()) }},
		{"extract-metadata", func(d []byte, e *c08Env) error {
			return api.ExtractMetadata(rs(d), func(pdfcpu.Metadata) error { return nil }, pwConf())
		}},
		{"attachments", func(d []byte, e *c08Env) error {
			if _, err := api.Attachments(rs(d), pwConf()); err != nil {
				return err
			}
			_, err := api.ExtractAttachmentsRaw(rs(d), e.dir, nil, pwConf())
			return err
		}},
		{"annotations", func(d []byte, e *c08Env) error { _, err := api.Annotations(rs(d), nil, pwConf()); return err }},
		{"boxes", func(d []byte, e *c08Env) error { _, err := api.Boxes(rs(d), nil, pwConf()); return err }},
		{"properties", func(d []byte, e *c08Env) error {
			var first error
			keep := func(err error) {
				if first == nil {
					first = err
				}
			}
			_, err := api.Properties(rs(d), pwConf())
			keep(err)
			_, err = api.Keywords(rs(d), pwConf())
			keep(err)
			_, _, err = api.ViewerPreferences(rs(d), pwConf())
			keep(err)
			_, err = api.PageLayout(rs(d), pwConf())
			keep(err)
			_, err = api.PageMode(rs(d), pwConf())
			keep(err)
			_, err = api.PageDims(rs(d), pwConf())
			keep(err)
			return first
		}},
		{"trim", func(d []byte, e *c08Env) error { return api.Trim(rs(d), io.Discard, []string{"1"}, pwConf()) }},
		{"rotate", func(d []byte, e *c08Env) error { return api.Rotate(rs(d), io.Discard, 90, nil, pwConf()) }},
		{"remove-pages", func(d []byte, e *c08Env) error { return api.RemovePages(rs(d), io.Discard, []string{"1"}, pwConf()) }},
		{"insert-pages", func(d []byte, e *c08Env) error {
			return api.InsertPages(rs(d), io.Discard, []string{"1"}, true, nil, pwConf())
		}},
		{"collect", func(d []byte, e *c08Env) error { return api.Collect(rs(d), io.Discard, []string{"1", "1"}, pwConf()) }},
		{"nup", func(d []byte, e *c08Env) error {
			conf := pwConf()
			nup, err := api.PDFNUpConfig(2, "", conf)
			if err != nil {
				return err
			}
			return api.NUp(rs(d), io.Discard, nil, nil, nup, conf)
		}},
		{"split", func(d []byte, e *c08Env) error { _, err := api.SplitRaw(rs(d), 1, pwConf()); return err }},
		{"merge", func(d []byte, e *c08Env) error {
			return api.MergeRaw([]io.ReadSeeker{rs(d), rs(e.bases["classic"])}, io.Discard, false, pwConf())
		}},
		{"stamp", func(d []byte, e *c08Env) error {
			wm, err := api.TextWatermark("verif", "scale:0.5", true, false, types.POINTS)
			if err != nil {
				return err
			}
			return api.AddWatermarks(rs(d), io.Discard, nil, wm, pwConf())
		}},
		{"remove-stamp", func(d []byte, e *c08Env) error { return api.RemoveWatermarks(rs(d), io.Discard, nil, pwConf()) }},
		{"form-list", func(d []byte, e *c08Env) error { _, err := api.ListFormFields(rs(d), pwConf()); return err }},
		{"form-export-fill", func(d []byte, e *c08Env) error {
			var js bytes.Buffer
			err := api.ExportFormJSON(rs(d), &js, "x.pdf", pwConf())
			data := genericFormJSON
			if err == nil && js.Len() > 0 {
				data = js.Bytes()
			}
			if ferr := api.FillForm(rs(d), bytes.NewReader(data), io.Discard, pwConf()); err == nil {
				err = ferr
			}
			return err
		}},
		{"form-reset", func(d []byte, e *c08Env) error { return api.ResetFormFields(rs(d), io.Discard, nil, pwConf()) }},
		{"form-remove", func(d []byte, e *c08Env) error {
			return api.RemoveFormFields(rs(d), io.Discard, []string{"F1", "name", "leaf"}, pwConf())
		}},
		{"bookmarks", func(d []byte, e *c08Env) error {
			_, err := api.Bookmarks(rs(d), pwConf())
			if _, lerr := api.ListBookmarks(rs(d), pwConf()); err == nil {
				err = lerr
			}
			return err
		}},
		{"bookmarks-export", func(d []byte, e *c08Env) error { return api.ExportBookmarksJSON(rs(d), io.Discard, "x.pdf", pwConf()) }},
		{"sig-validate", func(d []byte, e *c08Env) error {
			p := filepath.Join(e.dir, "sig.pdf")
			if err := os.WriteFile(p, d, 0o644); err != nil {
				h.Die("c08: %v", err)
			}
			_, err := api.ValidateSignatures(p, true, pwConf())
			return err
		}},
		{"encrypt", func(d []byte, e *c08Env) error {
			conf := model.NewAESConfiguration("upw", "opw", 256)
			return api.Encrypt(rs(d), io.Discard, conf)
		}},
	}
}

// coreOps are run on every shape in the quick tier; relOps adds the entry points that traverse the relation.
var coreOps = map[string]bool{"read-relaxed": true, "read-strict": true, "validate-relaxed": true, "validate-strict": true, "optimize": true,
	"info": true, "extract-pages": true, "trim": true, "stamp": true, "merge": true}

var relOps = map[string][]string{
	"pagetree":     {"rotate", "remove-pages", "insert-pages", "collect", "nup", "split", "boxes"},
	"pageparent":   {"rotate", "insert-pages", "collect", "nup", "boxes"},
	"refkids":      {"rotate", "remove-pages", "collect", "split"},
	"fields":       {"form-list", "form-export-fill", "form-reset", "form-remove", "annotations", "sig-validate"},
	"fieldparent":  {"form-list", "form-export-fill", "form-reset", "form-remove", "sig-validate"},
	"structtree":   {"remove-pages", "collect", "properties"},
	"nametree":     {"attachments", "bookmarks", "properties", "split"},
	"numtree":      {"properties", "remove-pages", "collect"},
	"xobjects":     {"extract-images", "list-images", "extract-fonts", "extract-content", "remove-stamp", "nup"},
	"colorspace":   {"extract-images", "list-images", "extract-content", "nup"},
	"function":     {"extract-images", "extract-content", "nup"},
	"smask":        {"extract-images", "list-images", "nup"},
	"irt":          {"annotations", "remove-pages", "rotate"},
	"actionnext":   {"bookmarks", "bookmarks-export", "annotations", "properties"},
	"beads":        {"remove-pages", "collect", "properties"},
	"outline":      {"bookmarks", "bookmarks-export", "split", "properties"},
	"outlinefirst": {"bookmarks", "bookmarks-export", "split"},
	"outlinenext":  {"bookmarks", "bookmarks-export", "split"},
	"xrefprev":     {"encrypt", "sig-validate"},
	"xrefstmprev":  {"encrypt", "sig-validate"},
	"xrefstm":      {"encrypt", "sig-validate"},
	"extends":      {"encrypt", "properties"},
	"length":       {"extract-content", "remove-stamp", "encrypt"},
	"refchain":     {"extract-content", "extract-fonts", "extract-images", "nup"},
	"refcontents":  {"extract-content", "remove-stamp", "nup"},
	"refannots":    {"annotations", "form-list", "rotate"},
	"array":        {"properties"},
	"dict":         {"properties"},
	"mixed":        {"properties"},
	"parens":       {"properties", "extract-metadata"},
	"contentarray": {"extract-content", "remove-stamp", "nup", "extract-fonts"},
	"contentq":     {"extract-content", "remove-stamp", "nup"},
	"contentdict":  {"extract-content", "remove-stamp", "extract-images", "nup"},
}

func selectOps(all []c08Op, s c08Shape) []c08Op {
	rel := s.Rel
	if s.Fam == "outline" {
		rel = "outline"
	}
	want := map[string]bool{}
	for _, n := range relOps[rel] {
		want[n] = true
	}
	var out []c08Op
	for _, o := range all {
		if coreOps[o.name] || want[o.name] {
			out = append(out, o)
		}
	}
	return out
}

// warmOps are executed once on a valid document when a child starts: their first execution initialises tables
// (font metrics, colour tables) whose cost must not be charged to the first shape.
var warmOps = map[string]bool{}

// bigOps: in the quick tier inputs above 256 KB (the 10^4 object chains, the 10^5 level nestings) get the reading and
// validating entry points plus the first two that traverse the relation; the thorough tier runs everything.
var bigOps = map[string]bool{"read-relaxed": true, "validate-relaxed": true, "validate-strict": true, "optimize": true, "info": true}

func selectBigOps(sel []c08Op, s c08Shape) []c08Op {
	extra := map[string]bool{}
	for i, n := range relOps[s.Rel] {
		if i < 2 {
			extra[n] = true
		}
	}
	var out []c08Op
	for _, o := range sel {
		if bigOps[o.name] || extra[o.name] {
			out = append(out, o)
		}
	}
	return out
}

func mutOps(target string) []c08Op {
	file := func(e *c08Env, name string, d []byte) string {
		p := filepath.Join(e.dir, name)
		if err := os.WriteFile(p, d, 0o644); err != nil {
			h.Die("c08: %v", err)
		}
		return p
	}
	certOps := func(name string) []c08Op {
		return []c08Op{
			{"cert-import", func(d []byte, e *c08Env) error {
				_, err := api.ImportCertificates([]string{file(e, name, d)})
				return err
			}},
			{"cert-inspect", func(d []byte, e *c08Env) error {
				_, err := api.InspectCertificates([]string{file(e, name, d)})
				return err
			}},
		}
	}
	fill := func(name string) []c08Op {
		ops := []c08Op{
			{"multifill", func(d []byte, e *c08Env) error {
				out := filepath.Join(e.dir, "mf")
				os.RemoveAll(out)
				os.MkdirAll(out, 0o755)
				return api.MultiFillFormFile(e.samples.formPDF, file(e, name, d), out, "out.pdf", false, pwConf())
			}},
		}
		if strings.HasSuffix(name, ".json") {
			ops = append(ops, c08Op{"fill", func(d []byte, e *c08Env) error {
				return api.FillFormFile(e.samples.formPDF, file(e, name, d), filepath.Join(e.dir, "filled.pdf"), pwConf())
			}}, c08Op{"fill-stream", func(d []byte, e *c08Env) error {
				form, err := os.ReadFile(e.samples.formPDF)
				if err != nil {
					h.Die("c08: %v", err)
				}
				return api.FillForm(rs(form), bytes.NewReader(d), io.Discard, pwConf())
			}})
		}
		return ops
	}
	switch target {
	case "ttf":
		return []c08Op{{"font-install", func(d []byte, e *c08Env) error {
			fd := filepath.Join(e.dir, "fonts")
			os.MkdirAll(fd, 0o755)
			_, err := font.InstallTrueTypeFont(fd, file(e, "Mutated-Regular.ttf", d))
			return err
		}}}
	case "certpem":
		return certOps("mut.pem")
	case "certder":
		return certOps("mut.crt")
	case "p7c":
		return append(certOps("mut.p7c"), c08Op{"pkcs7-parse", func(d []byte, e *c08Env) error { _, err := pkcs7.Parse(d); return err }})
	case "pkcs7":
		return []c08Op{{"pkcs7-parse", func(d []byte, e *c08Env) error { _, err := pkcs7.Parse(d); return err }}}
	case "json":
		return fill("mut.json")
	case "csv":
		return fill("mut.csv")
	}
	return nil
}

func c08Child() {
	in := h.Arg("--in")
	repo := h.Arg("--repo")
	var cases []c08Case
	if err := h.EachLine(in, func(line []byte) error {
		var c c08Case
		if err := json.Unmarshal(line, &c); err != nil {
			return err
		}
		cases = append(cases, c)
		return nil
	}); err != nil {
		h.Die("c08-child: %v", err)
	}
	// temporary files live under --tmp (the parent's scratch directory) so that nothing survives a killed child
	dir, err := os.MkdirTemp(h.Arg("--tmp"), "c08-")
	if err != nil {
		h.Die("c08: %v", err)
	}
	defer os.RemoveAll(dir)
	// the configuration directory (fonts, certificates) is prepared once by the parent and shared
	cfgDir := h.Arg("--cfgdir")
	if cfgDir == "" {
		cfgDir = filepath.Join(dir, "cfg")
	}
	tStart := time.Now()
	if err := api.EnsureDefaultConfigAt(cfgDir); err != nil {
		h.Die("c08: config dir: %v", err)
	}
	tCfg := time.Since(tStart)
	model.TrustedCertDir = filepath.Join(dir, "trusted")
	os.MkdirAll(model.TrustedCertDir, 0o755)
	e := &c08Env{dir: dir, mutK: h.ArgInt("--mutk", 12), truncK: h.ArgInt("--trunck", 12)}
	if e.samples, err = loadSamples(repo, dir); err != nil {
		h.Die("c08: samples: %v", err)
	}
	e.loadBases(repo)
	debug.SetMaxStack(h.ArgInt("--maxstack-mb", 64) << 20)
	if os.Getenv("GOMEMLIMIT") == "" {
		debug.SetMemoryLimit(8 << 30)
	}
	pops := pdfOps()
	opsMode := h.Arg("--ops")
	baseCPU := time.Duration(h.ArgInt("--cpu-ms", 1500)) * time.Millisecond
	perByte := time.Duration(h.ArgInt("--cpu-ns-per-byte", 20000)) * time.Nanosecond
	// one-time initialisations (font metrics, tables) must not be charged to the first shape
	tw := time.Now()
	for _, op := range pops {
		if !warmOps[op.name] {
			continue
		}
		func() {
			defer func() { recover() }()
			op.run(e.bases["classic"], e)
		}()
	}
	tWarm := time.Since(tw)
	if os.Getenv("C08_PROFILE") != "" {
		fmt.Fprintf(os.Stderr, "startup: config %v warm-up %v total %v\n", tCfg, tWarm, time.Since(tStart))
	}
	brk := &breaker{path: h.Arg("--breaker")}
	wd := newWatchdog()
	timeouts := map[int]int{} // case -> operations that ran out of CPU budget so far (from --timeouts on a restart)
	if v := h.Arg("--timeouts"); v != "" {
		var ci, n int
		if _, err := fmt.Sscanf(v, "%d:%d", &ci, &n); err == nil {
			timeouts[ci] = n
		}
	}
	childLoop(len(cases), func(idx int, cio *childIO) {
		c := cases[idx]
		data, what, ok := e.input(c.Shape)
		if !cio.skip(0) {
			cio.begin(idx, 0, "@meta:0")
			m := c08OpRec{Idx: idx, Op: "@meta", Outcome: "ok", Size: len(data), What: what}
			if !ok {
				m.Outcome = "skipped"
			}
			b, _ := json.Marshal(m)
			cio.record(b)
		}
		if !ok {
			return
		}
		ops := pops
		if c.Shape.Fam == "mut" {
			ops = mutOps(c.Shape.Target)
		} else if opsMode == "validate" { // experiments only
			ops = pops[2:4]
		} else if opsMode == "core" && (c.Shape.Fam == "graph" || c.Shape.Fam == "fun" || c.Shape.Fam == "outline" || c.Shape.Fam == "depth") {
			ops = selectOps(pops, c.Shape)
			if len(data) > 256<<10 {
				ops = selectBigOps(ops, c.Shape)
			}
		} else if c.Shape.Fam == "depth" && len(data) > 2<<20 {
			// thorough tier: the 10^5 object chains get the core entry points plus those that traverse the relation
			ops = selectOps(pops, c.Shape)
		}
		for k, op := range ops {
			if cio.skip(k + 1) {
				continue
			}
			r := c08OpRec{Idx: idx, Op: op.name}
			if (c.Cyclic || c.Revisit) && brk.broken(relKey(c.Shape), op.name) {
				// this entry point already died or ran out of budget on several shapes of this relation (reported): skip
				cio.begin(idx, k+1, fmt.Sprintf("%s:%d", op.name, len(data)))
				r.Outcome = "notrun"
				b, _ := json.Marshal(r)
				cio.record(b)
				continue
			}
			if timeouts[idx] >= 2 {
				// two operations already exceeded their budget on this input: the rest is not run (and not judged)
				cio.begin(idx, k+1, fmt.Sprintf("%s:%d", op.name, len(data)))
				r.Outcome = "notrun"
				b, _ := json.Marshal(r)
				cio.record(b)
				continue
			}
			budget := baseCPU + time.Duration(len(data))*perByte
			if timeouts[idx] == 1 {
				budget /= 3
			}
			cio.begin(idx, k+1, fmt.Sprintf("%s:%d", op.name, len(data)))
			t0 := time.Now()
			wd.arm(budget)
			func() {
				defer wd.disarm()
				defer func() {
					if p := recover(); p != nil {
						r.Outcome = "panic"
						r.Err = trimStr(fmt.Sprint(p), 160)
						r.Where = topPdfcpuFrame(debug.Stack())
					}
				}()
				if err := op.run(data, e); err != nil {
					r.Outcome, r.Err = "error", trimStr(err.Error(), 100)
				} else {
					r.Outcome = "ok"
				}
			}()
			r.Ms = int(time.Since(t0).Milliseconds())
			b, _ := json.Marshal(r)
			cio.record(b)
		}
	})
}

func relKey(s c08Shape) string {
	if s.Fam == "outline" {
		return "outline"
	}
	return s.Fam + ":" + s.Rel + s.Target + s.Base
}

// breaker is the set of (relation, operation) pairs that timed out on breakerK shapes already; the parent appends to
// the file, the children re-read it when it has grown.
type breaker struct {
	path string
	size int64
	set  map[string]bool
}

const breakerK = 2

func (b *breaker) broken(rel, op string) bool {
	if b.path == "" {
		return false
	}
	if st, err := os.Stat(b.path); err == nil && st.Size() != b.size {
		b.size = st.Size()
		b.set = map[string]bool{}
		if data, err := os.ReadFile(b.path); err == nil {
			for _, ln := range strings.Split(string(data), "\n") {
				if ln != "" {
					b.set[ln] = true
				}
			}
		}
	}
	return b.set[rel+"|"+op]
}

func envOr(name, def string) string {
	if v := os.Getenv(name); v != "" {
		return v
	}
	return def
}

func trimStr(s string, n int) string {
	if len(s) > n {
		return s[:n]
	}
	return s
}

func c08Main() {
	in := h.Arg("--in")
	out := h.Arg("--out")
	repo := h.Arg("--repo")
	workers := h.ArgInt("--workers", 8)
	baseMs := h.ArgInt("--base-ms", 300000)
	var cases []c08Case
	if err := h.EachLine(in, func(line []byte) error {
		var c c08Case
		if err := json.Unmarshal(line, &c); err != nil {
			return err
		}
		cases = append(cases, c)
		return nil
	}); err != nil {
		h.Die("c08: %v", err)
	}
	var mu sync.Mutex
	byCase := make([][]c08OpRec, len(cases))
	dead := 0
	cpuMs := h.ArgInt("--cpu-ms", 1500)
	tmpBase, err := os.MkdirTemp(filepath.Dir(out), "c08-tmp-")
	if err != nil {
		h.Die("c08: %v", err)
	}
	defer os.RemoveAll(tmpBase)
	cfgDir, err := os.MkdirTemp(tmpBase, "cfg-")
	if err != nil {
		h.Die("c08: %v", err)
	}
	defer os.RemoveAll(cfgDir)
	if err := api.EnsureDefaultConfigAt(cfgDir); err != nil {
		h.Die("c08: config dir: %v", err)
	}
	brkPath := out + ".breaker"
	os.WriteFile(brkPath, nil, 0o644)
	defer os.Remove(brkPath)
	brkCount := map[string]int{}
	r := &runner{sub: "c08-child", n: len(cases), workers: workers,
		confirmArgs: []string{"--cpu-ms", fmt.Sprint(3 * cpuMs)},
		args: []string{"--in", in, "--repo", repo, "--mutk", h.Arg("--mutk"), "--trunck", h.Arg("--trunck"), "--maxstack-mb", h.Arg("--maxstack-mb"),
			"--cpu-ms", h.Arg("--cpu-ms"), "--cpu-ns-per-byte", h.Arg("--cpu-ns-per-byte"), "--ops", h.Arg("--ops"), "--breaker", brkPath, "--cfgdir", cfgDir, "--tmp", tmpBase},
		env: []string{"GOMAXPROCS=2"},
		deadline: func(idx int, op string) time.Duration {
			// The child enforces a CPU time budget proportional to the input size itself; this wall clock bound is the
			// backstop for an operation that blocks without consuming CPU: base + 400 microseconds per byte.
			size := 0
			if i := strings.LastIndex(op, ":"); i >= 0 {
				fmt.Sscanf(op[i+1:], "%d", &size)
			}
			return time.Duration(baseMs)*time.Millisecond + time.Duration(size)*400*time.Microsecond
		},
		onRecord: func(line []byte) {
			var o c08OpRec
			if err := json.Unmarshal(line, &o); err != nil {
				h.Die("c08: bad child record: %v", err)
			}
			mu.Lock()
			byCase[o.Idx] = append(byCase[o.Idx], o)
			mu.Unlock()
		},
		onDead: func(d deadOp) {
			name := d.Op
			if i := strings.LastIndex(name, ":"); i >= 0 {
				name = name[:i]
			}
			o := c08OpRec{Idx: d.Idx, Op: name, Outcome: d.Kind, Where: d.Where, Err: d.Detail, Ms: int(d.Ms)}
			if len(d.Stack) > 1 {
				o.Err = trimStr(d.Detail+" || "+strings.Join(d.Stack, " < "), 600)
			}
			mu.Lock()
			byCase[d.Idx] = append(byCase[d.Idx], o)
			dead++
			{
				// any kind of death counts: after breakerK deaths of an entry point on shapes of one relation it is
				// no longer run on the remaining cyclic shapes of that relation
				k := relKey(cases[d.Idx].Shape) + "|" + name
				brkCount[k]++
				if brkCount[k] == breakerK {
					if f, err := os.OpenFile(brkPath, os.O_APPEND|os.O_WRONLY, 0o644); err == nil {
						f.WriteString(k + "\n")
						f.Close()
					}
				}
			}
			if h.Arg("--verbose") == "1" {
				fmt.Fprintf(os.Stderr, "dead: case %d %s %s %s [%s]\n", d.Idx, name, d.Kind, d.Where, cases[d.Idx].Shape.key())
			}
			mu.Unlock()
		}}
	r.run()
	w := newLineW(out)
	defer w.close()
	nops := 0
	for idx, c := range cases {
		rec := c08Rec{Idx: idx, Fam: c.Shape.Fam, Rel: c.Shape.Rel + c.Shape.Target + c.Shape.Base, Key: c.Shape.key(), Ops: []string{}, Outs: []string{}, Wheres: []string{}, Errs: []string{}}
		rec.Nontriv = c.Revisit || c.Cyclic || c.Verdict == "depth" || (c.Shape.Fam == "graph" && c.Shape.Decor != "none") ||
			c.Shape.Fam == "mut" || c.Shape.Fam == "pdfmut" || c.Shape.Fam == "trunc"
		if c.Shape.Fam == "fun" {
			for _, t := range c.Shape.Succ {
				if t > c.Shape.N {
					rec.Nontriv = true
				}
			}
		}
		ops := byCase[idx]
		sort.SliceStable(ops, func(i, j int) bool { return false })
		if len(ops) == 0 {
			h.Die("c08: no record for case %d", idx)
		}
		for _, o := range ops {
			if o.Op == "@meta" {
				rec.Size, rec.What, rec.Skipped = o.Size, o.What, o.Outcome == "skipped"
				continue
			}
			rec.Ops = append(rec.Ops, o.Op)
			rec.Outs = append(rec.Outs, o.Outcome)
			rec.Wheres = append(rec.Wheres, o.Where)
			if o.Outcome == "ok" || o.Outcome == "error" {
				rec.Errs = append(rec.Errs, "")
			} else {
				rec.Errs = append(rec.Errs, o.Err)
			}
			if o.Ms > rec.MaxMs {
				rec.MaxMs = o.Ms
			}
			rec.TotMs += o.Ms
			nops++
		}
		b, _ := json.Marshal(rec)
		w.line(b)
	}
	h.Summary(map[string]any{"cases": len(cases), "records": w.n, "ops": nops, "dead": dead, "timeouts_not_confirmed": r.unconfirmed})
}

// c08Emit writes the concrete input of the first shape in --in to --out (for replaying a reported violation by hand).
func c08Emit() {
	var c c08Case
	if err := h.EachLine(h.Arg("--in"), func(line []byte) error {
		if c.Shape.Fam == "" {
			return json.Unmarshal(line, &c)
		}
		return nil
	}); err != nil {
		h.Die("c08-emit: %v", err)
	}
	dir, _ := os.MkdirTemp("", "c08-emit-")
	defer os.RemoveAll(dir)
	e := &c08Env{dir: dir, mutK: h.ArgInt("--mutk", 12), truncK: h.ArgInt("--trunck", 12)}
	var err error
	if e.samples, err = loadSamples(h.Arg("--repo"), dir); err != nil {
		h.Die("c08-emit: %v", err)
	}
	e.loadBases(h.Arg("--repo"))
	data, what, ok := e.input(c.Shape)
	if !ok {
		h.Die("c08-emit: the shape has no concrete input")
	}
	if err := os.WriteFile(h.Arg("--out"), data, 0o644); err != nil {
		h.Die("c08-emit: %v", err)
	}
	fmt.Printf("%s %s (%d bytes)\n", c.Shape.key(), what, len(data))
}
