package main

// Byte-level document emitters shared by the C08/C09/C10 sub-commands.  Everything here is independent of pdfcpu's
// writer (fmt + compress/zlib only), so that the inputs do not depend on the code under test.

import (
	"bytes"
	"compress/zlib"
	"fmt"
	"strings"
)

// xdoc is a list of numbered object bodies (1-based; "" = free) that can be serialised in several physical layouts.
type xdoc struct {
	objs    []string
	root    int
	info    int
	trailer string // extra trailer entries
	version string
}

func (d *xdoc) add(body string) int            { d.objs = append(d.objs, body); return len(d.objs) }
func (d *xdoc) reserve() int                   { return d.add("null") }
func (d *xdoc) set(n int, body string)         { d.objs[n-1] = body }
func (d *xdoc) addf(f string, a ...any) int    { return d.add(fmt.Sprintf(f, a...)) }
func (d *xdoc) setf(n int, f string, a ...any) { d.set(n, fmt.Sprintf(f, a...)) }
func ref(n int) string                         { return fmt.Sprintf("%d 0 R", n) }

func streamBody(dict string, data []byte) string {
	return fmt.Sprintf("<< %s /Length %d >>\nstream\n%s\nendstream", dict, len(data), data)
}

func (d *xdoc) addStream(dict string, data []byte) int { return d.add(streamBody(dict, data)) }

func isStreamBody(body string) bool { return strings.Contains(body, "\nstream\n") }

func zlibBytes(b []byte) []byte {
	var z bytes.Buffer
	w, _ := zlib.NewWriterLevel(&z, zlib.BestSpeed)
	w.Write(b)
	w.Close()
	return z.Bytes()
}

func (d *xdoc) header(b *bytes.Buffer) {
	v := d.version
	if v == "" {
		v = "1.7"
	}
	fmt.Fprintf(b, "%%PDF-%s\n%%\xe2\xe3\xcf\xd3\n", v)
}

func (d *xdoc) trailerEntries(size int) string {
	s := fmt.Sprintf("/Size %d /Root %d 0 R", size, d.root)
	if d.info != 0 {
		s += fmt.Sprintf(" /Info %d 0 R", d.info)
	}
	if d.trailer != "" {
		s += " " + d.trailer
	}
	return s
}

// classic serialises with one classic cross-reference table.
func (d *xdoc) classic() []byte {
	var b bytes.Buffer
	d.header(&b)
	offs := make([]int, len(d.objs)+1)
	for i, body := range d.objs {
		if body == "" {
			continue
		}
		offs[i+1] = b.Len()
		fmt.Fprintf(&b, "%d 0 obj\n%s\nendobj\n", i+1, body)
	}
	xref := b.Len()
	writeClassicXRef(&b, d.objs, offs)
	fmt.Fprintf(&b, "trailer\n<< %s >>\nstartxref\n%d\n%%%%EOF\n", d.trailerEntries(len(d.objs)+1), xref)
	return b.Bytes()
}

func writeClassicXRef(b *bytes.Buffer, objs []string, offs []int) {
	fmt.Fprintf(b, "xref\n0 %d\n", len(objs)+1)
	b.WriteString("0000000000 65535 f \n")
	for i := 1; i <= len(objs); i++ {
		if objs[i-1] == "" {
			b.WriteString("0000000000 00000 f \n")
			continue
		}
		fmt.Fprintf(b, "%010d 00000 n \n", offs[i])
	}
}

// broken serialises like classic but with a startxref that points into the middle of an object and a damaged
// xref keyword, so that the reader has to rebuild the table by scanning the file.
func (d *xdoc) broken() []byte {
	b := d.classic()
	b = bytes.Replace(b, []byte("\nxref\n0 "), []byte("\nxrfe\n0 "), 1)
	return b
}

// shifted serialises like classic but every xref offset is off by delta (forces the offset repair path).
func (d *xdoc) shifted(delta int) []byte {
	var b bytes.Buffer
	d.header(&b)
	offs := make([]int, len(d.objs)+1)
	for i, body := range d.objs {
		if body == "" {
			continue
		}
		offs[i+1] = b.Len() + delta
		fmt.Fprintf(&b, "%d 0 obj\n%s\nendobj\n", i+1, body)
	}
	xref := b.Len()
	writeClassicXRef(&b, d.objs, offs)
	fmt.Fprintf(&b, "trailer\n<< %s >>\nstartxref\n%d\n%%%%EOF\n", d.trailerEntries(len(d.objs)+1), xref)
	return b.Bytes()
}

type xent struct{ t, a, c int }

func xrefStreamData(ents []xent) []byte {
	var x bytes.Buffer
	for _, e := range ents {
		x.WriteByte(byte(e.t))
		x.Write([]byte{byte(e.a >> 24), byte(e.a >> 16), byte(e.a >> 8), byte(e.a)})
		x.Write([]byte{byte(e.c >> 8), byte(e.c)})
	}
	return x.Bytes()
}

// xrefStream serialises with object streams (perStm members each, 0 = none) and a cross-reference stream.
func (d *xdoc) xrefStream(perStm int, flate bool) []byte {
	var b bytes.Buffer
	d.header(&b)
	n := len(d.objs)
	var members []int
	ents := make([]xent, n+1, n+8)
	ents[0] = xent{0, 0, 65535}
	for i, body := range d.objs {
		nr := i + 1
		switch {
		case body == "":
			ents[nr] = xent{0, 0, 0}
		case perStm > 0 && !isStreamBody(body) && nr != d.root:
			members = append(members, nr)
		default:
			ents[nr] = xent{1, b.Len(), 0}
			fmt.Fprintf(&b, "%d 0 obj\n%s\nendobj\n", nr, body)
		}
	}
	next := n + 1
	for len(members) > 0 {
		k := perStm
		if k > len(members) {
			k = len(members)
		}
		var head, data bytes.Buffer
		for i, nr := range members[:k] {
			fmt.Fprintf(&head, "%d %d ", nr, data.Len())
			data.WriteString(d.objs[nr-1])
			data.WriteString("\n")
			ents[nr] = xent{2, next, i}
		}
		payload := append(head.Bytes(), data.Bytes()...)
		fl := ""
		if flate {
			payload = zlibBytes(payload)
			fl = " /Filter /FlateDecode"
		}
		ents = append(ents, xent{1, b.Len(), 0})
		fmt.Fprintf(&b, "%d 0 obj\n<< /Type /ObjStm /N %d /First %d%s /Length %d >>\nstream\n", next, k, head.Len(), fl, len(payload))
		b.Write(payload)
		b.WriteString("\nendstream\nendobj\n")
		next++
		members = members[k:]
	}
	start := b.Len()
	ents = append(ents, xent{1, start, 0})
	x := xrefStreamData(ents)
	fl := ""
	if flate {
		x = zlibBytes(x)
		fl = " /Filter /FlateDecode"
	}
	fmt.Fprintf(&b, "%d 0 obj\n<< /Type /XRef %s /W [1 4 2]%s /Length %d >>\nstream\n", next, d.trailerEntries(next+1), fl, len(x))
	b.Write(x)
	fmt.Fprintf(&b, "\nendstream\nendobj\nstartxref\n%d\n%%%%EOF\n", start)
	return b.Bytes()
}

// incremental serialises the first `base` objects with a classic table and every following group of `per` objects
// as one incremental update (each with its own table and /Prev).
func (d *xdoc) incremental(base, per int) []byte {
	var b bytes.Buffer
	d.header(&b)
	n := len(d.objs)
	offs := make([]int, n+1)
	for i := 0; i < base && i < n; i++ {
		offs[i+1] = b.Len()
		fmt.Fprintf(&b, "%d 0 obj\n%s\nendobj\n", i+1, d.objs[i])
	}
	xref := b.Len()
	writeClassicXRef(&b, d.objs[:base], offs)
	fmt.Fprintf(&b, "trailer\n<< %s >>\nstartxref\n%d\n%%%%EOF\n", d.trailerEntries(base+1), xref)
	for lo := base; lo < n; lo += per {
		hi := lo + per
		if hi > n {
			hi = n
		}
		for i := lo; i < hi; i++ {
			offs[i+1] = b.Len()
			fmt.Fprintf(&b, "%d 0 obj\n%s\nendobj\n", i+1, d.objs[i])
		}
		prev := xref
		xref = b.Len()
		fmt.Fprintf(&b, "xref\n%d %d\n", lo+1, hi-lo)
		for i := lo; i < hi; i++ {
			fmt.Fprintf(&b, "%010d 00000 n \n", offs[i+1])
		}
		fmt.Fprintf(&b, "trailer\n<< %s /Prev %d >>\nstartxref\n%d\n%%%%EOF\n", d.trailerEntries(hi+1), prev, xref)
	}
	return b.Bytes()
}

// basePages adds a catalog, a page tree with np pages (each with a small content stream, no fonts: valid in strict mode) and returns
// (catalog, pages root, page object numbers). The catalog body is set by the caller via setCatalog.
func (d *xdoc) basePages(np int) (cat, pages int, pnums []int) {
	cat = d.reserve()
	d.root = cat
	pages = d.reserve()
	var kids []string
	for i := 0; i < np; i++ {
		c := d.addStream("", []byte(fmt.Sprintf("q 0 0 m %d 10 l S Q", 10+i)))
		p := d.addf("<< /Type /Page /Parent %d 0 R /MediaBox [0 0 200 200] /Contents %d 0 R /Resources << >> >>", pages, c)
		pnums = append(pnums, p)
		kids = append(kids, ref(p))
	}
	d.setf(pages, "<< /Type /Pages /Count %d /Kids [%s] >>", np, strings.Join(kids, " "))
	d.setCatalog(cat, pages, "")
	return
}

func (d *xdoc) setCatalog(cat, pages int, extra string) {
	d.setf(cat, "<< /Type /Catalog /Pages %d 0 R %s >>", pages, extra)
}

// manyObjects returns a document with np pages and `extra` additional small dictionary objects that are all
// referenced from an array hanging off the catalog.
func manyObjects(np, extra int) *xdoc {
	d := &xdoc{}
	cat, pages, _ := d.basePages(np)
	arr := d.reserve()
	var sb strings.Builder
	sb.WriteString("[")
	for i := 0; i < extra; i++ {
		n := d.addf("<< /Type /VerifItem /I %d /S (item %d) /A [%d %d] >>", i, i, i, i*7)
		fmt.Fprintf(&sb, "%d 0 R ", n)
	}
	sb.WriteString("]")
	d.set(arr, sb.String())
	d.setCatalog(cat, pages, fmt.Sprintf("/VerifItems %d 0 R", arr))
	return d
}
