package main

// Parent/child runner shared by C08 and C09.  The real pdfcpu calls happen in child processes so that a fatal
// error (stack exhaustion, out of memory), an endless loop or a runaway allocation is observed and attributed to one
// (case, operation) instead of being suffered by the harness.
//
// Protocol (child stdout, one line each):   B <idx> <opIndex> <opName>   before an operation
//                                            R <json record>              after an operation
// Worker w owns the cases idx = w, w+K, w+2K, ...  When a child dies or an operation exceeds its deadline the parent
// writes a record with outcome crash/stack-overflow/oom/timeout for the operation in flight and restarts the child
// right after that operation (--from idx --fromop k+1).

import (
	"bufio"
	"bytes"
	"fmt"
	"os"
	"os/exec"
	"runtime"
	"strconv"
	"strings"
	"sync"
	"syscall"
	"time"

	"verif/harness/lib/h"
)

type deadOp struct {
	Idx     int
	OpIndex int
	Op      string
	Kind    string // timeout | stack-overflow | oom | panic | crash
	Detail  string
	Where   string   // innermost pdfcpu function on the stack of the goroutine that died / hung
	Stack   []string // pdfcpu frames, innermost first
	Ms      int64
}

type runner struct {
	sub      string   // child sub-command
	args     []string // extra child arguments
	n        int      // number of cases
	workers  int
	deadline func(idx int, op string) time.Duration
	onRecord func(line []byte)
	onDead   func(d deadOp)
	env      []string
	// confirmArgs, when set, makes the parent re-run an operation that ran out of its time budget once more in a fresh
	// child with these extra arguments (a larger budget); if it returns then, its record replaces the timeout.
	confirmArgs []string
	unconfirmed int
	mu          sync.Mutex
}

// pdfcpuFrames extracts the pdfcpu function names of the first goroutine trace in a Go crash dump, innermost first,
// with consecutive repetitions collapsed.
func pdfcpuFrames(dump string) []string {
	var out []string
	started := false
	for _, ln := range strings.Split(dump, "\n") {
		if strings.HasPrefix(ln, "goroutine ") {
			if started && len(out) > 0 {
				break
			}
			started = true
			continue
		}
		if !started {
			continue
		}
		if t := strings.TrimSpace(ln); strings.HasPrefix(t, "github.com/pdfcpu/pdfcpu/") {
			// "pkg/path.(*Type).Method(0x..., ...)" or "pkg/path.Func(...)": cut the argument list
			fn := t
			if i := strings.LastIndex(fn, "("); i > 0 {
				fn = fn[:i]
			}
			fn = strings.TrimPrefix(fn, "github.com/pdfcpu/pdfcpu/pkg/")
			fn = strings.NewReplacer("(*", "", ")", "").Replace(fn)
			if len(out) == 0 || out[len(out)-1] != fn {
				out = append(out, fn)
			}
			if len(out) >= 12 {
				break
			}
		}
	}
	return out
}

type tailBuf struct {
	mu  sync.Mutex
	buf []byte
	max int
	// head keeps the beginning of the output as well: a Go crash dump starts with the reason
	head []byte
}

func (t *tailBuf) Write(p []byte) (int, error) {
	t.mu.Lock()
	defer t.mu.Unlock()
	if len(t.head) < 16384 {
		k := 16384 - len(t.head)
		if k > len(p) {
			k = len(p)
		}
		t.head = append(t.head, p[:k]...)
	}
	t.buf = append(t.buf, p...)
	if len(t.buf) > t.max {
		t.buf = t.buf[len(t.buf)-t.max:]
	}
	return len(p), nil
}

func (t *tailBuf) String() string {
	t.mu.Lock()
	defer t.mu.Unlock()
	return string(t.head) + "\n...\n" + string(t.buf)
}

func (r *runner) worker(w int) {
	idx, fromop := w, 0
	toCase, toCount := -1, 0 // timeouts seen so far in the case being resumed
	for idx < r.n {
		args := append([]string{r.sub}, r.args...)
		args = append(args, "--from", strconv.Itoa(idx), "--fromop", strconv.Itoa(fromop), "--stride", strconv.Itoa(r.workers))
		if toCase == idx && toCount > 0 {
			args = append(args, "--timeouts", fmt.Sprintf("%d:%d", idx, toCount))
		}
		cmd := exec.Command(os.Args[0], args...)
		cmd.Env = append(os.Environ(), r.env...)
		stderr := &tailBuf{max: 65536}
		cmd.Stderr = stderr
		stdout, err := cmd.StdoutPipe()
		if err != nil {
			h.Die("pipe: %v", err)
		}
		if err := cmd.Start(); err != nil {
			h.Die("start child: %v", err)
		}
		type ev struct {
			line []byte
			eof  bool
		}
		lines := make(chan ev, 256)
		go func() {
			sc := bufio.NewScanner(stdout)
			sc.Buffer(make([]byte, 1<<20), 1<<28)
			for sc.Scan() {
				lines <- ev{line: append([]byte(nil), sc.Bytes()...)}
			}
			lines <- ev{eof: true}
		}()
		curIdx, curOp, curName := -1, -1, ""
		var curStart time.Time
		inflight := false
		finished := false
		timedOut := false
		timer := time.NewTimer(time.Hour)
	loop:
		for {
			select {
			case e := <-lines:
				if e.eof {
					break loop
				}
				switch {
				case bytes.HasPrefix(e.line, []byte("B ")):
					f := strings.SplitN(string(e.line), " ", 4)
					curIdx, _ = strconv.Atoi(f[1])
					curOp, _ = strconv.Atoi(f[2])
					curName = f[3]
					curStart = time.Now()
					inflight = true
					if !timer.Stop() {
						select {
						case <-timer.C:
						default:
						}
					}
					timer.Reset(r.deadline(curIdx, curName))
				case bytes.HasPrefix(e.line, []byte("R ")):
					inflight = false
					r.onRecord(e.line[2:])
				case bytes.HasPrefix(e.line, []byte("DONE")):
					finished = true
				}
			case <-timer.C:
				if inflight {
					timedOut = true
					// ask for a goroutine dump, then kill
					cmd.Process.Signal(syscall.SIGQUIT)
					time.Sleep(300 * time.Millisecond)
					cmd.Process.Kill()
				} else {
					timer.Reset(time.Hour)
				}
			}
		}
		timer.Stop()
		cmd.Wait()
		if finished && !inflight {
			return
		}
		if !inflight {
			if timedOut && curIdx >= 0 {
				// the wall clock backstop fired just when the operation returned: nothing is lost, go on after it
				idx, fromop = curIdx, curOp+1
				continue
			}
			// died between operations (start-up failure): harness problem
			h.Die("child %s died outside an operation (case %d, last op %d %s, finished=%v): %s\n...\n%s", r.sub, curIdx, curOp, curName, finished,
				firstLines(stderr.String(), 12), lastLines(stderr.String(), 12))
		}
		dump := stderr.String()
		d := deadOp{Idx: curIdx, OpIndex: curOp, Op: curName, Ms: time.Since(curStart).Milliseconds()}
		switch {
		case timedOut || strings.Contains(dump, "VERIF-CPU-BUDGET-EXCEEDED"):
			d.Kind = "timeout"
		case strings.Contains(dump, "goroutine stack exceeds") || strings.Contains(dump, "stack overflow"):
			d.Kind = "stack-overflow"
		case strings.Contains(dump, "out of memory") || strings.Contains(dump, "cannot allocate memory"):
			d.Kind = "oom"
		case strings.Contains(dump, "panic:"):
			d.Kind = "panic"
		default:
			d.Kind = "crash"
		}
		d.Stack = pdfcpuFrames(dump)
		if len(d.Stack) > 0 {
			d.Where = d.Stack[0]
		}
		d.Detail = firstLines(dump, 3)
		if d.Kind == "timeout" && r.confirmArgs != nil {
			if line := r.confirm(curIdx, curOp); line != nil {
				r.mu.Lock()
				r.unconfirmed++
				r.mu.Unlock()
				r.onRecord(line)
				idx, fromop = curIdx, curOp+1
				continue
			}
		}
		r.onDead(d)
		if d.Kind == "timeout" {
			if toCase != curIdx {
				toCase, toCount = curIdx, 0
			}
			toCount++
		}
		idx, fromop = curIdx, curOp+1
	}
}

// confirm re-runs exactly one operation of one case; it returns the record line if the operation returned this time.
func (r *runner) confirm(idx, op int) []byte {
	args := append([]string{r.sub}, r.confirmArgs...) // first occurrence of a flag wins
	args = append(args, r.args...)
	args = append(args, "--from", strconv.Itoa(idx), "--fromop", strconv.Itoa(op), "--stride", "1000000000", "--single-op", "1")
	cmd := exec.Command(os.Args[0], args...)
	cmd.Env = append(os.Environ(), r.env...)
	out, err := cmd.Output()
	if err != nil {
		return nil
	}
	var rec []byte
	for _, ln := range bytes.Split(out, []byte{'\n'}) {
		if bytes.HasPrefix(ln, []byte("R ")) {
			rec = append([]byte(nil), ln[2:]...)
		}
	}
	return rec
}

func firstLines(s string, n int) string {
	ls := strings.Split(strings.TrimSpace(s), "\n")
	if len(ls) > n {
		ls = ls[:n]
	}
	out := strings.Join(ls, " | ")
	if len(out) > 300 {
		out = out[:300]
	}
	return out
}

func lastLines(s string, n int) string {
	ls := strings.Split(strings.TrimSpace(s), "\n")
	if len(ls) > n {
		ls = ls[len(ls)-n:]
	}
	return strings.Join(ls, "\n")
}

func (r *runner) run() {
	var wg sync.WaitGroup
	for w := 0; w < r.workers && w < r.n; w++ {
		wg.Add(1)
		go func(w int) {
			defer wg.Done()
			r.worker(w)
		}(w)
	}
	wg.Wait()
}

// childLoop is the child side: it calls fn for every owned case; fn reports each operation through the returned
// begin/record functions.
type childIO struct {
	w      *bufio.Writer
	fromop int
	first  bool
	single bool // run only operation fromop of the first case
}

func (c *childIO) begin(idx, opIndex int, op string) {
	fmt.Fprintf(c.w, "B %d %d %s\n", idx, opIndex, op)
	c.w.Flush()
}

func (c *childIO) record(b []byte) {
	c.w.WriteString("R ")
	c.w.Write(b)
	c.w.WriteByte('\n')
	c.w.Flush()
}

// skip tells whether operation opIndex of the first case of this child run was already handled by a previous run.
func (c *childIO) skip(opIndex int) bool {
	if c.single {
		return opIndex != c.fromop
	}
	return c.first && opIndex < c.fromop
}

func childLoop(n int, fn func(idx int, io *childIO)) {
	from := h.ArgInt("--from", 0)
	stride := h.ArgInt("--stride", 1)
	io := &childIO{w: bufio.NewWriterSize(os.Stdout, 1<<16), fromop: h.ArgInt("--fromop", 0), first: true, single: h.Arg("--single-op") == "1"}
	for idx := from; idx < n; idx += stride {
		fn(idx, io)
		io.first = false
	}
	io.w.WriteString("DONE\n")
	io.w.Flush()
}

// lineW is a concurrency-safe ndjson line writer.
type lineW struct {
	mu sync.Mutex
	f  *os.File
	w  *bufio.Writer
	n  int
}

func newLineW(path string) *lineW {
	f, err := os.Create(path)
	if err != nil {
		h.Die("create %s: %v", path, err)
	}
	return &lineW{f: f, w: bufio.NewWriterSize(f, 1<<20)}
}

func (l *lineW) line(b []byte) {
	l.mu.Lock()
	l.w.Write(b)
	l.w.WriteByte('\n')
	l.n++
	l.mu.Unlock()
}

func (l *lineW) close() {
	l.w.Flush()
	l.f.Close()
}

// watchdog enforces a CPU time budget (process CPU time, so that machine load does not matter) on one operation:
// when the budget is exceeded it dumps all goroutine stacks and exits; the parent records a timeout.
type watchdog struct {
	mu       sync.Mutex
	deadline time.Duration // process CPU time at which the armed operation is out of budget (0: disarmed)
}

func processCPU() time.Duration {
	var ru syscall.Rusage
	syscall.Getrusage(syscall.RUSAGE_SELF, &ru)
	return time.Duration(ru.Utime.Nano() + ru.Stime.Nano())
}

func newWatchdog() *watchdog {
	w := &watchdog{}
	go func() {
		for {
			time.Sleep(50 * time.Millisecond)
			// the comparison happens under the lock: arm/disarm cannot interleave, so a deadline of an operation that
			// has already returned is never used (the watchdog may be descheduled for long on a loaded machine)
			w.mu.Lock()
			if w.deadline != 0 && processCPU() > w.deadline {
				buf := make([]byte, 1<<20)
				n := runtime.Stack(buf, true)
				os.Stderr.WriteString("VERIF-CPU-BUDGET-EXCEEDED\n")
				os.Stderr.Write(buf[:n])
				os.Exit(3)
			}
			w.mu.Unlock()
		}
	}()
	return w
}

func (w *watchdog) arm(budget time.Duration) {
	w.mu.Lock()
	w.deadline = processCPU() + budget
	w.mu.Unlock()
}

func (w *watchdog) disarm() {
	w.mu.Lock()
	w.deadline = 0
	w.mu.Unlock()
}
