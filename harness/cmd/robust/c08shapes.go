package main

// C08: concretisation of the shapes enumerated by TLC (spec/Robust.tla) into raw PDF bytes.
//
// A relation shape is given as (n, succs): node i (1-based) has the ordered successor targets succs(i).  A target is
// a node 1..n or one of the special targets below.  Depth cases reuse the same builders with a chain 1 -> 2 -> ... -> n.

import (
	"bytes"
	"fmt"
	"strings"
)

const (
	tNone     = 0
	tDangling = -1 // reference to an object that does not exist
	tWrong    = -2 // reference to an object of the wrong type
	tNull     = -3 // the null object
	tRoot     = -4 // outline: the outlines root dictionary
	tDirect   = -5 // a direct object of the wrong type (an integer) where a reference is expected
)

type relShape struct {
	n     int
	succs func(i int) []int
}

func chainShape(n int) relShape {
	return relShape{n: n, succs: func(i int) []int {
		if i < n {
			return []int{i + 1}
		}
		return nil
	}}
}

type sb struct {
	d     *xdoc
	nums  []int // object number of node i (index i)
	wrong int   // object number of a wrong-typed object (an integer)
	wrgS  int   // a stream object usable as wrong-typed target
}

func (b *sb) alloc(n int) {
	b.nums = make([]int, n+1)
	for i := 1; i <= n; i++ {
		b.nums[i] = b.d.reserve()
	}
	b.wrong = b.d.add("42")
}

func (b *sb) ref(t int) string {
	switch {
	case t >= 1 && t < len(b.nums):
		return ref(b.nums[t])
	case t == tDangling:
		return "999999 0 R"
	case t == tWrong:
		return ref(b.wrong)
	case t == tNull:
		return "null"
	case t == tDirect:
		return "7"
	}
	return ""
}

func (b *sb) refs(ts []int) string {
	var sb strings.Builder
	for _, t := range ts {
		if r := b.ref(t); r != "" {
			sb.WriteString(r)
			sb.WriteByte(' ')
		}
	}
	return sb.String()
}

// firstParents computes for every node the first node that lists it as a successor (0: none).
func firstParents(s relShape) []int {
	p := make([]int, s.n+1)
	for i := 1; i <= s.n; i++ {
		for _, t := range s.succs(i) {
			if t >= 1 && t <= s.n && p[t] == 0 {
				p[t] = i
			}
		}
	}
	return p
}

func hasNodeKids(ts []int) bool { return len(ts) > 0 }

// ---------------------------------------------------------------------------------------------- graph relations

func buildPageTree(s relShape) []byte {
	d := &xdoc{}
	b := &sb{d: d}
	cat := d.reserve()
	d.root = cat
	cs := d.addStream("", []byte("q Q"))
	b.alloc(s.n)
	par := firstParents(s)
	for i := 1; i <= s.n; i++ {
		ks := s.succs(i)
		pe := ""
		if par[i] != 0 {
			pe = " /Parent " + b.ref(par[i])
		}
		if hasNodeKids(ks) {
			d.setf(b.nums[i], "<< /Type /Pages%s /Kids [%s] /Count %d /MediaBox [0 0 200 200] >>", pe, b.refs(ks), len(ks))
		} else {
			d.setf(b.nums[i], "<< /Type /Page%s /MediaBox [0 0 200 200] /Contents %d 0 R /Resources << >> >>", pe, cs)
		}
	}
	d.setf(cat, "<< /Type /Catalog /Pages %s >>", b.ref(1))
	return d.classic()
}

func buildFields(s relShape) []byte {
	d := &xdoc{}
	b := &sb{d: d}
	cat, pages, pn := d.basePages(1)
	b.alloc(s.n)
	par := firstParents(s)
	var annots []string
	for i := 1; i <= s.n; i++ {
		ks := s.succs(i)
		pe := ""
		if par[i] != 0 {
			pe = " /Parent " + b.ref(par[i])
		}
		if hasNodeKids(ks) {
			d.setf(b.nums[i], "<< /T (F%d) /FT /Tx%s /Kids [%s] >>", i, pe, b.refs(ks))
		} else {
			d.setf(b.nums[i], "<< /Type /Annot /Subtype /Widget /FT /Tx /T (F%d) /V (v%d) /Rect [10 %d 100 %d] /P %d 0 R%s /DA (/Helv 10 Tf 0 g) >>", i, i, 10+i%500, 30+i%500, pn[0], pe)
			if len(annots) < 64 {
				annots = append(annots, b.ref(i))
			}
		}
	}
	pg := d.objs[pn[0]-1]
	d.set(pn[0], strings.TrimSuffix(pg, ">>")+"/Annots ["+strings.Join(annots, " ")+"] >>")
	d.setCatalog(cat, pages, fmt.Sprintf("/AcroForm << /Fields [%s] /DA (/Helv 10 Tf 0 g) >>", b.ref(1)))
	return d.classic()
}

func buildStructTree(s relShape) []byte {
	d := &xdoc{}
	b := &sb{d: d}
	cat, pages, pn := d.basePages(1)
	root := d.reserve()
	b.alloc(s.n)
	par := firstParents(s)
	for i := 1; i <= s.n; i++ {
		ks := s.succs(i)
		p := ref(root)
		if par[i] != 0 {
			p = b.ref(par[i])
		}
		if hasNodeKids(ks) {
			d.setf(b.nums[i], "<< /Type /StructElem /S /Sect /P %s /K [%s] >>", p, b.refs(ks))
		} else {
			d.setf(b.nums[i], "<< /Type /StructElem /S /P /P %s /Pg %d 0 R /K 0 >>", p, pn[0])
		}
	}
	d.setf(root, "<< /Type /StructTreeRoot /K %s >>", b.ref(1))
	d.setCatalog(cat, pages, fmt.Sprintf("/StructTreeRoot %d 0 R /MarkInfo << /Marked true >>", root))
	return d.classic()
}

func buildNameTree(s relShape, num bool) []byte {
	d := &xdoc{}
	b := &sb{d: d}
	cat, pages, pn := d.basePages(1)
	b.alloc(s.n)
	for i := 1; i <= s.n; i++ {
		ks := s.succs(i)
		switch {
		case hasNodeKids(ks) && num:
			d.setf(b.nums[i], "<< /Kids [%s] /Limits [0 %d] >>", b.refs(ks), s.n)
		case hasNodeKids(ks):
			d.setf(b.nums[i], "<< /Kids [%s] /Limits [(a) (z)] >>", b.refs(ks))
		case num:
			d.setf(b.nums[i], "<< /Nums [%d << /S /D >>] /Limits [%d %d] >>", i-1, i-1, i-1)
		default:
			d.setf(b.nums[i], "<< /Names [(n%06d) [%d 0 R /Fit]] /Limits [(n%06d) (n%06d)] >>", i, pn[0], i, i)
		}
	}
	if num {
		d.setCatalog(cat, pages, "/PageLabels "+b.ref(1))
	} else {
		d.setCatalog(cat, pages, fmt.Sprintf("/Names << /Dests %s /EmbeddedFiles %s >> /OpenAction [%d 0 R /Fit]", b.ref(1), b.ref(1), pn[0]))
	}
	return d.classic()
}

func buildXObjects(s relShape) []byte {
	d := &xdoc{}
	b := &sb{d: d}
	cat, pages, pn := d.basePages(1)
	_ = cat
	b.alloc(s.n)
	for i := 1; i <= s.n; i++ {
		ks := s.succs(i)
		var res, cont strings.Builder
		for k, t := range ks {
			if r := b.ref(t); r != "" {
				fmt.Fprintf(&res, "/K%d %s ", k, r)
				fmt.Fprintf(&cont, "/K%d Do ", k)
			}
		}
		d.set(b.nums[i], streamBody(fmt.Sprintf("/Type /XObject /Subtype /Form /BBox [0 0 10 10] /Resources << /XObject << %s>> >>", res.String()), []byte("q "+cont.String()+"Q")))
	}
	c := d.addStream("", []byte("q /X1 Do Q"))
	d.setf(pn[0], "<< /Type /Page /Parent %d 0 R /MediaBox [0 0 200 200] /Contents %d 0 R /Resources << /XObject << /X1 %s >> >> >>", pages, c, b.ref(1))
	return d.classic()
}

// ------------------------------------------------------------------------------------------- functional relations

func one(s relShape, i int) int {
	ts := s.succs(i)
	if len(ts) == 0 {
		return tNone
	}
	return ts[0]
}

func entry(key string, b *sb, t int) string {
	if r := b.ref(t); r != "" {
		return " /" + key + " " + r
	}
	return ""
}

func buildActionNext(s relShape) []byte {
	d := &xdoc{}
	b := &sb{d: d}
	cat, pages, pn := d.basePages(1)
	b.alloc(s.n)
	for i := 1; i <= s.n; i++ {
		d.setf(b.nums[i], "<< /Type /Action /S /URI /URI (http://example.invalid/%d)%s >>", i, entry("Next", b, one(s, i)))
	}
	// the chain hangs off the document open action, a page's additional actions, a link annotation and an outline item
	link := d.addf("<< /Type /Annot /Subtype /Link /Rect [0 0 10 10] /A %s >>", b.ref(1))
	ol := d.reserve()
	it := d.addf("<< /Title (t) /Parent %d 0 R /A %s >>", ol, b.ref(1))
	d.setf(ol, "<< /Type /Outlines /First %d 0 R /Last %d 0 R /Count 1 >>", it, it)
	pg := d.objs[pn[0]-1]
	d.set(pn[0], strings.TrimSuffix(pg, ">>")+fmt.Sprintf("/Annots [%d 0 R] /AA << /O %s >> >>", link, b.ref(1)))
	d.setCatalog(cat, pages, fmt.Sprintf("/OpenAction %s /Outlines %d 0 R", b.ref(1), ol))
	return d.classic()
}

func buildBeads(s relShape) []byte {
	d := &xdoc{}
	b := &sb{d: d}
	cat, pages, pn := d.basePages(1)
	thr := d.reserve()
	b.alloc(s.n)
	for i := 1; i <= s.n; i++ {
		t := one(s, i)
		d.setf(b.nums[i], "<< /Type /Bead /T %d 0 R%s%s /P %d 0 R /R [0 0 10 10] >>", thr, entry("N", b, t), entry("V", b, t), pn[0])
	}
	d.setf(thr, "<< /Type /Thread /F %s /I << /Title (t) >> >>", b.ref(1))
	pg := d.objs[pn[0]-1]
	d.set(pn[0], strings.TrimSuffix(pg, ">>")+fmt.Sprintf("/B [%s] >>", b.ref(1)))
	d.setCatalog(cat, pages, fmt.Sprintf("/Threads [%d 0 R]", thr))
	return d.classic()
}

// offTarget maps a functional target to a file offset: node offsets are known only after layout, hence the callback.
func offTarget(t int, off func(i int) int, wrongOff int) (int, bool) {
	switch {
	case t >= 1:
		return off(t), true
	case t == tDangling:
		return 999999999, true
	case t == tWrong:
		return wrongOff, true
	}
	return 0, false
}

// buildXRefPrev: n classic xref sections chained by /Prev; startxref points to section 1.
func buildXRefPrev(s relShape) []byte {
	d := &xdoc{}
	d.basePages(1)
	var b bytes.Buffer
	d.header(&b)
	offs := make([]int, len(d.objs)+1)
	for i, o := range d.objs {
		offs[i+1] = b.Len()
		fmt.Fprintf(&b, "%d 0 obj\n%s\nendobj\n", i+1, o)
	}
	wrongOff := offs[1]
	full := func(i int) bool { return s.n <= 16 || i == 1 || i == s.n }
	section := func(i int, prev string) string {
		var x bytes.Buffer
		if full(i) {
			writeClassicXRef(&x, d.objs, offs)
		} else {
			x.WriteString("xref\n0 1\n0000000000 65535 f \n")
		}
		fmt.Fprintf(&x, "trailer\n<< %s%s >>\n", d.trailerEntries(len(d.objs)+1), prev)
		return x.String()
	}
	// layout with fixed width /Prev entries
	prevOf := func(i int) (bool, int) {
		t := one(s, i)
		return t != tNone && t != tNull, t
	}
	secOff := make([]int, s.n+2)
	pos := b.Len()
	for i := 1; i <= s.n; i++ {
		secOff[i] = pos
		has, _ := prevOf(i)
		p := ""
		if has {
			p = fmt.Sprintf(" /Prev %010d", 0)
		}
		pos += len(section(i, p))
	}
	for i := 1; i <= s.n; i++ {
		has, t := prevOf(i)
		p := ""
		if has {
			o, _ := offTarget(t, func(k int) int { return secOff[k] }, wrongOff)
			p = fmt.Sprintf(" /Prev %010d", o)
		}
		b.WriteString(section(i, p))
	}
	fmt.Fprintf(&b, "startxref\n%d\n%%%%EOF\n", secOff[1])
	return b.Bytes()
}

// buildXRefStmChain: xref streams chained by /Prev (hybrid = false) or a classic section whose /XRefStm points into a
// chain of xref streams (hybrid = true; node 1 is the classic section).
func buildXRefStmChain(s relShape, hybrid bool) []byte {
	d := &xdoc{}
	d.basePages(1)
	var b bytes.Buffer
	d.header(&b)
	nb := len(d.objs)
	offs := make([]int, nb+1)
	ents := []xent{{0, 0, 65535}}
	for i, o := range d.objs {
		offs[i+1] = b.Len()
		ents = append(ents, xent{1, offs[i+1], 0})
		fmt.Fprintf(&b, "%d 0 obj\n%s\nendobj\n", i+1, o)
	}
	wrongOff := offs[1]
	size := nb + s.n + 2
	stmObj := func(i int, prev string) string {
		var x []byte
		idx := ""
		if s.n <= 16 || i <= 2 {
			x = xrefStreamData(ents)
			idx = fmt.Sprintf("/Index [0 %d]", len(ents))
		} else {
			x = xrefStreamData(ents[:1])
			idx = "/Index [0 1]"
		}
		return fmt.Sprintf("%d 0 obj\n<< /Type /XRef /Size %d %s /Root %d 0 R /W [1 4 2]%s /Length %d >>\nstream\n%s\nendstream\nendobj\n",
			nb+i, size, idx, d.root, prev, len(x), x)
	}
	classic := func(extra string) string {
		var x bytes.Buffer
		writeClassicXRef(&x, d.objs, offs)
		fmt.Fprintf(&x, "trailer\n<< %s%s >>\n", d.trailerEntries(nb+1), extra)
		return x.String()
	}
	key := " /Prev"
	secOff := make([]int, s.n+2)
	pos := b.Len()
	body := func(i int, o string) string {
		if hybrid && i == 1 {
			if o != "" {
				o = " /XRefStm" + o
			}
			return classic(o)
		}
		if o != "" {
			o = key + o
		}
		return stmObj(i, o)
	}
	has := func(i int) (bool, int) {
		t := one(s, i)
		return t != tNone && t != tNull, t
	}
	for i := 1; i <= s.n; i++ {
		secOff[i] = pos
		h, _ := has(i)
		o := ""
		if h {
			o = fmt.Sprintf(" %010d", 0)
		}
		pos += len(body(i, o))
	}
	for i := 1; i <= s.n; i++ {
		h, t := has(i)
		o := ""
		if h {
			v, _ := offTarget(t, func(k int) int { return secOff[k] }, wrongOff)
			o = fmt.Sprintf(" %010d", v)
		}
		b.WriteString(body(i, o))
	}
	fmt.Fprintf(&b, "startxref\n%d\n%%%%EOF\n", secOff[1])
	return b.Bytes()
}

// buildExtends: n object streams, each holding one small dictionary, chained by /Extends.
func buildExtends(s relShape) []byte {
	d := &xdoc{}
	cat, pages, _ := d.basePages(1)
	nb := len(d.objs)
	// numbering: members nb+1..nb+n, object streams nb+n+1..nb+2n, xref stream nb+2n+1
	member := func(i int) int { return nb + i }
	stm := func(i int) int { return nb + s.n + i }
	var refs strings.Builder
	for i := 1; i <= s.n && i <= 64; i++ {
		fmt.Fprintf(&refs, "%d 0 R ", member(i))
	}
	d.setCatalog(cat, pages, "/VerifMembers ["+refs.String()+"]")
	var b bytes.Buffer
	d.header(&b)
	ents := []xent{{0, 0, 65535}}
	for i, o := range d.objs {
		ents = append(ents, xent{1, b.Len(), 0})
		fmt.Fprintf(&b, "%d 0 obj\n%s\nendobj\n", i+1, o)
	}
	for i := 1; i <= s.n; i++ {
		ents = append(ents, xent{2, stm(i), 0})
	}
	for i := 1; i <= s.n; i++ {
		ents = append(ents, xent{1, b.Len(), 0})
		ext := ""
		switch t := one(s, i); {
		case t >= 1:
			ext = fmt.Sprintf(" /Extends %d 0 R", stm(t))
		case t == tDangling:
			ext = " /Extends 999999 0 R"
		case t == tWrong:
			ext = fmt.Sprintf(" /Extends %d 0 R", cat)
		}
		prolog := fmt.Sprintf("%d 0 ", member(i))
		data := prolog + fmt.Sprintf("<< /Type /VerifMember /I %d >>", i)
		fmt.Fprintf(&b, "%d 0 obj\n<< /Type /ObjStm /N 1 /First %d%s /Length %d >>\nstream\n%s\nendstream\nendobj\n", stm(i), len(prolog), ext, len(data), data)
	}
	start := b.Len()
	ents = append(ents, xent{1, start, 0})
	x := xrefStreamData(ents)
	fmt.Fprintf(&b, "%d 0 obj\n<< /Type /XRef /Size %d /Root %d 0 R /W [1 4 2] /Length %d >>\nstream\n", nb+2*s.n+1, nb+2*s.n+2, d.root, len(x))
	b.Write(x)
	fmt.Fprintf(&b, "\nendstream\nendobj\nstartxref\n%d\n%%%%EOF\n", start)
	return b.Bytes()
}

// buildRefChain: objects whose body is a reference to the next one; site tells where node 1 is used.
func buildRefChain(s relShape, site string) []byte {
	d := &xdoc{}
	b := &sb{d: d}
	cat, pages, pn := d.basePages(1)
	b.alloc(s.n)
	data := []byte("q 1 0 0 1 0 0 cm Q")
	terminal := "<< >>"
	switch site {
	case "length":
		terminal = fmt.Sprintf("%d", len(data))
	case "contents":
		terminal = streamBody("", data)
	case "kids":
		terminal = fmt.Sprintf("[%d 0 R]", pn[0])
	case "annots":
		terminal = "[]"
	}
	for i := 1; i <= s.n; i++ {
		t := one(s, i)
		switch {
		case t == tNone:
			d.set(b.nums[i], terminal)
		case t == tWrong && site == "length":
			d.set(b.nums[i], ref(cat))
		default:
			d.set(b.nums[i], b.ref(t))
		}
	}
	r1 := b.ref(1)
	switch site {
	case "length":
		c := d.addf("<< /Length %s >>\nstream\n%s\nendstream", r1, data)
		d.setf(pn[0], "<< /Type /Page /Parent %d 0 R /MediaBox [0 0 200 200] /Contents %d 0 R /Resources << >> >>", pages, c)
	case "resources":
		c := d.addStream("", data)
		d.setf(pn[0], "<< /Type /Page /Parent %d 0 R /MediaBox [0 0 200 200] /Contents %d 0 R /Resources %s >>", pages, c, r1)
	case "contents":
		d.setf(pn[0], "<< /Type /Page /Parent %d 0 R /MediaBox [0 0 200 200] /Contents %s /Resources << >> >>", pages, r1)
	case "kids":
		d.setf(pages, "<< /Type /Pages /Count 1 /Kids %s >>", r1)
	case "annots":
		pg := d.objs[pn[0]-1]
		d.set(pn[0], strings.TrimSuffix(pg, ">>")+"/Annots "+r1+" >>")
	}
	return d.classic()
}

func buildPageParent(s relShape) []byte {
	d := &xdoc{}
	b := &sb{d: d}
	cat := d.reserve()
	d.root = cat
	cs := d.addStream("", []byte("q Q"))
	page := d.reserve()
	b.alloc(s.n)
	for i := 1; i <= s.n; i++ {
		t := one(s, i)
		mb := ""
		if t == tNone {
			mb = " /MediaBox [0 0 200 200]"
		}
		d.setf(b.nums[i], "<< /Type /Pages /Kids [%d 0 R] /Count 1%s%s >>", page, entry("Parent", b, t), mb)
	}
	d.setf(page, "<< /Type /Page /Parent %s /Contents %d 0 R /Resources << >> >>", b.ref(1), cs)
	d.setf(cat, "<< /Type /Catalog /Pages %s >>", b.ref(1))
	return d.classic()
}

func buildFieldParent(s relShape) []byte {
	d := &xdoc{}
	b := &sb{d: d}
	cat, pages, pn := d.basePages(1)
	leaf := d.reserve()
	b.alloc(s.n)
	for i := 1; i <= s.n; i++ {
		t := one(s, i)
		ft := ""
		if t == tNone {
			ft = " /FT /Tx /DA (/Helv 10 Tf 0 g)"
		}
		d.setf(b.nums[i], "<< /T (N%d) /Kids [%d 0 R]%s%s >>", i, leaf, entry("Parent", b, t), ft)
	}
	d.setf(leaf, "<< /Type /Annot /Subtype /Widget /T (leaf) /V (v) /Rect [10 10 100 30] /P %d 0 R /Parent %s >>", pn[0], b.ref(1))
	pg := d.objs[pn[0]-1]
	d.set(pn[0], strings.TrimSuffix(pg, ">>")+fmt.Sprintf("/Annots [%d 0 R] >>", leaf))
	d.setCatalog(cat, pages, fmt.Sprintf("/AcroForm << /Fields [%s] >>", b.ref(1)))
	return d.classic()
}

func buildColorSpace(s relShape) []byte {
	d := &xdoc{}
	b := &sb{d: d}
	_, pages, pn := d.basePages(1)
	b.alloc(s.n)
	for i := 1; i <= s.n; i++ {
		t := one(s, i)
		base := b.ref(t)
		if base == "" || t == tNull {
			base = "/DeviceGray"
		}
		if i%2 == 1 {
			d.setf(b.nums[i], "[/Indexed %s 1 <00FF>]", base)
		} else {
			icc := d.addStream(fmt.Sprintf("/N 1 /Alternate %s", base), []byte("x"))
			d.setf(b.nums[i], "[/ICCBased %d 0 R]", icc)
		}
	}
	c := d.addStream("", []byte("q /CS1 cs 0 sc 0 0 10 10 re f Q"))
	d.setf(pn[0], "<< /Type /Page /Parent %d 0 R /MediaBox [0 0 200 200] /Contents %d 0 R /Resources << /ColorSpace << /CS1 %s >> >> >>", pages, c, b.ref(1))
	return d.classic()
}

func buildFunction(s relShape) []byte {
	d := &xdoc{}
	b := &sb{d: d}
	_, pages, pn := d.basePages(1)
	b.alloc(s.n)
	for i := 1; i <= s.n; i++ {
		t := one(s, i)
		if r := b.ref(t); r != "" && t != tNull {
			d.setf(b.nums[i], "<< /FunctionType 3 /Domain [0 1] /Functions [%s] /Bounds [] /Encode [0 1] >>", r)
		} else {
			d.set(b.nums[i], "<< /FunctionType 2 /Domain [0 1] /C0 [0] /C1 [1] /N 1 >>")
		}
	}
	c := d.addStream("", []byte("q /Sh1 sh Q"))
	d.setf(pn[0], "<< /Type /Page /Parent %d 0 R /MediaBox [0 0 200 200] /Contents %d 0 R /Resources << /Shading << /Sh1 << /ShadingType 2 /ColorSpace /DeviceGray /Coords [0 0 1 1] /Function %s >> >> /ExtGState << /G1 << /Type /ExtGState /TR %s >> >> >> >>",
		pages, c, b.ref(1), b.ref(1))
	return d.classic()
}

func buildSMask(s relShape) []byte {
	d := &xdoc{}
	b := &sb{d: d}
	_, pages, pn := d.basePages(1)
	b.alloc(s.n)
	for i := 1; i <= s.n; i++ {
		d.set(b.nums[i], streamBody(fmt.Sprintf("/Type /XObject /Subtype /Image /Width 1 /Height 1 /ColorSpace /DeviceGray /BitsPerComponent 8%s", entry("SMask", b, one(s, i))), []byte{0x80}))
	}
	c := d.addStream("", []byte("q 10 0 0 10 0 0 cm /Im1 Do Q"))
	d.setf(pn[0], "<< /Type /Page /Parent %d 0 R /MediaBox [0 0 200 200] /Contents %d 0 R /Resources << /XObject << /Im1 %s >> >> >>", pages, c, b.ref(1))
	return d.classic()
}

func buildIRT(s relShape) []byte {
	d := &xdoc{}
	b := &sb{d: d}
	_, _, pn := d.basePages(1)
	b.alloc(s.n)
	var all []string
	for i := 1; i <= s.n; i++ {
		t := one(s, i)
		d.setf(b.nums[i], "<< /Type /Annot /Subtype /Text /Rect [10 10 30 30] /Contents (c%d) /P %d 0 R%s%s >>", i, pn[0], entry("IRT", b, t), entry("Popup", b, t))
		if len(all) < 64 {
			all = append(all, b.ref(i))
		}
	}
	pg := d.objs[pn[0]-1]
	d.set(pn[0], strings.TrimSuffix(pg, ">>")+"/Annots ["+strings.Join(all, " ")+"] >>")
	return d.classic()
}

// ----------------------------------------------------------------------------------------------------- outlines

type outlineShape struct {
	n                        int
	first, ilast, next, prev func(i int) int
	parent                   func(i int) int // nil: every item names the root as its parent
	rfirst, last             int             // the root's First (0: item 1) and Last
	rt                       bool            // the root also carries a title and a destination
}

func buildOutline(o outlineShape) []byte {
	d := &xdoc{}
	cat, pages, pn := d.basePages(1)
	root := d.reserve()
	nums := make([]int, o.n+1)
	for i := 1; i <= o.n; i++ {
		nums[i] = d.reserve()
	}
	r := func(key string, t int) string {
		switch {
		case t >= 1 && t <= o.n:
			return fmt.Sprintf(" /%s %d 0 R", key, nums[t])
		case t == tRoot:
			return fmt.Sprintf(" /%s %d 0 R", key, root)
		case t == tDangling:
			return fmt.Sprintf(" /%s 999999 0 R", key)
		}
		return ""
	}
	for i := 1; i <= o.n; i++ {
		f := o.first(i)
		l := f
		if o.ilast != nil {
			l = o.ilast(i)
		}
		par := fmt.Sprintf(" /Parent %d 0 R", root)
		if o.parent != nil {
			par = r("Parent", o.parent(i))
		}
		body := fmt.Sprintf("<< /Title (N%d) /Dest [%d 0 R /Fit]", i, pn[0]) + par + r("First", f) + r("Last", l) + r("Next", o.next(i)) + r("Prev", o.prev(i))
		if f != tNone {
			body += " /Count 1"
		}
		d.set(nums[i], body+" >>")
	}
	rf := o.rfirst
	if rf == tNone {
		rf = 1
	}
	extra := ""
	if o.rt {
		extra = fmt.Sprintf(" /Title (N0) /Dest [%d 0 R /Fit]", pn[0])
	}
	d.setf(root, "<< /Type /Outlines%s%s%s /Count %d >>", extra, r("First", rf), r("Last", o.last), o.n)
	d.setCatalog(cat, pages, fmt.Sprintf("/Outlines %d 0 R /PageMode /UseOutlines", root))
	return d.classic()
}

// ------------------------------------------------------------------------------------------------ syntactic depth

func buildSyntactic(kind string, depth int) []byte {
	d := &xdoc{}
	cat, pages, pn := d.basePages(1)
	switch kind {
	case "array":
		o := d.add(nest("[", "]", depth, "0"))
		d.setCatalog(cat, pages, fmt.Sprintf("/VerifNest %d 0 R /ViewerPreferences << /PrintPageRange %d 0 R >>", o, o))
	case "dict":
		o := d.add(nest("<< /K ", " >>", depth, "0"))
		d.setCatalog(cat, pages, fmt.Sprintf("/VerifNest %d 0 R /ViewerPreferences %d 0 R", o, o))
	case "mixed":
		o := d.add(nest("[ << /K ", " >> ]", depth/2+1, "0"))
		d.setCatalog(cat, pages, fmt.Sprintf("/VerifNest %d 0 R /OCProperties << /OCGs [] /D << /Order %d 0 R >> >>", o, o))
	case "parens":
		d.info = d.add("<< /Title " + nest("(", ")", depth, "t") + " >>")
	case "contentarray":
		c := d.addStream("", []byte("BT "+nest("[", "]", depth, "(a)")+" TJ ET"))
		d.setf(pn[0], "<< /Type /Page /Parent %d 0 R /MediaBox [0 0 200 200] /Contents %d 0 R /Resources << >> >>", pages, c)
	case "contentq":
		c := d.addStream("", []byte(strings.Repeat("q ", depth)+strings.Repeat("Q ", depth)))
		d.setf(pn[0], "<< /Type /Page /Parent %d 0 R /MediaBox [0 0 200 200] /Contents %d 0 R /Resources << >> >>", pages, c)
	case "contentdict":
		c := d.addStream("", []byte("/OC "+nest("<< /K ", " >>", depth, "0")+" BDC EMC BI /W 1 /H 1 /BPC 8 /CS /G /DP "+nest("[", "]", depth, "0")+" ID \x80 EI"))
		d.setf(pn[0], "<< /Type /Page /Parent %d 0 R /MediaBox [0 0 200 200] /Contents %d 0 R /Resources << >> >>", pages, c)
	}
	return d.classic()
}

// buildRelation dispatches a relation name to its builder.
func buildRelation(rel string, s relShape) ([]byte, error) {
	switch rel {
	case "pagetree":
		return buildPageTree(s), nil
	case "fields":
		return buildFields(s), nil
	case "structtree":
		return buildStructTree(s), nil
	case "nametree":
		return buildNameTree(s, false), nil
	case "numtree":
		return buildNameTree(s, true), nil
	case "xobjects":
		return buildXObjects(s), nil
	case "actionnext":
		return buildActionNext(s), nil
	case "beads":
		return buildBeads(s), nil
	case "xrefprev":
		return buildXRefPrev(s), nil
	case "xrefstmprev":
		return buildXRefStmChain(s, false), nil
	case "xrefstm":
		return buildXRefStmChain(s, true), nil
	case "extends":
		return buildExtends(s), nil
	case "length":
		return buildRefChain(s, "length"), nil
	case "refchain":
		return buildRefChain(s, "resources"), nil
	case "refcontents":
		return buildRefChain(s, "contents"), nil
	case "refkids":
		return buildRefChain(s, "kids"), nil
	case "refannots":
		return buildRefChain(s, "annots"), nil
	case "pageparent":
		return buildPageParent(s), nil
	case "fieldparent":
		return buildFieldParent(s), nil
	case "colorspace":
		return buildColorSpace(s), nil
	case "function":
		return buildFunction(s), nil
	case "smask":
		return buildSMask(s), nil
	case "irt":
		return buildIRT(s), nil
	case "outlinefirst":
		return buildOutline(outlineShape{n: s.n, last: 1,
			first: func(i int) int { return one(s, i) }, next: func(int) int { return tNone }, prev: func(int) int { return tNone }}), nil
	case "outlinenext":
		return buildOutline(outlineShape{n: s.n, last: s.n,
			first: func(int) int { return tNone }, next: func(i int) int { return one(s, i) },
			prev: func(i int) int {
				if i > 1 {
					return i - 1
				}
				return tNone
			}}), nil
	}
	return nil, fmt.Errorf("unknown relation %q", rel)
}
