// Command net serves property C30 (network fetches never reach private or local addresses).
//
//	net expand --in cases.ndjson --out concrete.ndjson
//	net linkprobe
//
// expand turns the abstract cases printed by TLC for spec/Net.tla (URL classes, host names and addresses as integer
// sequences) into concrete cases for the in-package shims (URL strings, allow-list strings), checking with the
// real net/url parser that every concrete URL has exactly the attributes of its abstract class.  The guards of
// pdfcpu are unexported, so the replay itself happens in the shims
// harness/inpkg/pkg/pdfcpu/sign/verif_net_test.go and harness/inpkg/pkg/pdfcpu/primitives/verif_net_test.go.
package main

import (
	"bufio"
	"bytes"
	"encoding/json"
	"fmt"
	"net"
	"net/netip"
	"net/url"
	"os"
	"strings"
	"sync"
	"time"

	"github.com/pdfcpu/pdfcpu/pkg/api"
	"github.com/pdfcpu/pdfcpu/pkg/pdfcpu/model"

	"verif/harness/lib/h"
	"verif/harness/lib/rawpdf"
)

// abstract case (TLC)
type absHop struct {
	Scheme  string   `json:"scheme"`
	User    string   `json:"user"`
	Form    string   `json:"form"`
	Addr    []int    `json:"addr"`
	Host    []int    `json:"host"`
	Port    string   `json:"port"`
	Rel     string   `json:"rel"`
	Answers [][]int  `json:"answers"`
	St      string   `json:"st"`
	Pred    [][]int  `json:"pred"`
	May     [][]int  `json:"may"`
	Classes []string `json:"classes"`
}
type absCase struct {
	Kind      string    `json:"kind"`
	AllowForm string    `json:"allowform"`
	Allow     [][]int   `json:"allow"`
	Variant   int       `json:"variant"`
	Hops      []absHop  `json:"hops"`
	Prev      []absCase `json:"prev"` // history cases: the earlier fetches of the same process
}

// concrete case (shims)
type conHop struct {
	URL     string   `json:"url"`
	Host    string   `json:"host"`
	Scheme  string   `json:"scheme"`
	User    string   `json:"user"`
	Form    string   `json:"form"`
	Port    string   `json:"port"`
	Rel     string   `json:"rel"`
	Answers [][]int  `json:"answers"`
	Classes []string `json:"classes"`
	St      string   `json:"st"`
	Pred    [][]int  `json:"pred"`
	May     [][]int  `json:"may"`
}
type conCase struct {
	ID        int       `json:"id"`
	Kind      string    `json:"kind"`
	AllowForm string    `json:"allowform"`
	Allow     []string  `json:"allow"`
	Variant   int       `json:"variant"`
	Hops      []conHop  `json:"hops"`
	Prev      []conCase `json:"prev"`
}

func str(b []int) string {
	var sb strings.Builder
	for _, c := range b {
		if c < 0 || c > 127 {
			h.Die("non-ASCII code %d in a host name", c)
		}
		sb.WriteByte(byte(c))
	}
	return sb.String()
}

func addr(b []int) netip.Addr {
	raw := make([]byte, len(b))
	for i, v := range b {
		if v < 0 || v > 255 {
			h.Die("address byte out of range: %v", b)
		}
		raw[i] = byte(v)
	}
	a, ok := netip.AddrFromSlice(raw)
	if !ok {
		h.Die("bad address %v", b)
	}
	return a
}

func hopURL(n int, hp absHop) (string, string) {
	var host, hostport string
	if hp.Form == "lit" {
		a := addr(hp.Addr)
		host = a.String()
		if a.Is4() {
			hostport = host
		} else {
			hostport = "[" + host + "]"
		}
		if len(hp.Host) > 0 && str(hp.Host) != host {
			h.Die("the spec spells the literal %v as %q, netip as %q", hp.Addr, str(hp.Host), host)
		}
	} else {
		host = str(hp.Host)
		hostport = host
	}
	if hp.Port != "" {
		hostport += ":" + hp.Port
	}
	ui := map[string]string{"none": "", "user": "alice@", "userpass": "alice:s3cret@", "empty": "@"}[hp.User]
	path := fmt.Sprintf("/hop%d.bin", n)
	if hp.Scheme == "none" {
		return "//" + ui + hostport + path, host
	}
	return hp.Scheme + "://" + ui + hostport + path, host
}

// checkURL makes sure Go's URL parser sees the attributes the model assumed for the class.
func checkURL(raw string, hp absHop, host string) {
	u, err := url.Parse(raw)
	if err != nil {
		h.Die("url.Parse(%q): %v (the model assumes every class parses)", raw, err)
	}
	wantScheme := strings.ToLower(hp.Scheme)
	if hp.Scheme == "none" {
		wantScheme = ""
	}
	if u.Scheme != wantScheme {
		h.Die("%q: scheme %q, model says %q", raw, u.Scheme, wantScheme)
	}
	if (u.User != nil) != (hp.User != "none") {
		h.Die("%q: userinfo presence differs from the model (%s)", raw, hp.User)
	}
	if u.User != nil {
		_, hasPw := u.User.Password()
		if (u.User.Username() != "") != (hp.User == "user" || hp.User == "userpass") || hasPw != (hp.User == "userpass") {
			h.Die("%q: credentials differ from the model (%s)", raw, hp.User)
		}
	}
	if u.Hostname() != host {
		h.Die("%q: hostname %q, model says %q", raw, u.Hostname(), host)
	}
	if u.Port() != hp.Port {
		h.Die("%q: port %q, model says %q", raw, u.Port(), hp.Port)
	}
}

func concrete(id int, ac absCase) conCase {
	cc := conCase{ID: id, Kind: ac.Kind, AllowForm: ac.AllowForm, Variant: ac.Variant, Allow: []string{}, Prev: []conCase{}}
	for _, a := range ac.Allow {
		cc.Allow = append(cc.Allow, str(a))
	}
	for i, hp := range ac.Hops {
		raw, host := hopURL(i+1, hp)
		checkURL(raw, hp, host)
		ch := conHop{URL: raw, Host: host, Scheme: hp.Scheme, User: hp.User, Form: hp.Form, Port: hp.Port, Rel: hp.Rel, Answers: hp.Answers,
			Classes: hp.Classes, St: hp.St, Pred: hp.Pred, May: hp.May}
		if ch.Answers == nil {
			ch.Answers = [][]int{}
		}
		if ch.Pred == nil {
			ch.Pred = [][]int{}
		}
		if ch.May == nil {
			ch.May = [][]int{}
		}
		if ch.Classes == nil {
			ch.Classes = []string{}
		}
		for _, a := range hp.Answers {
			addr(a)
		}
		cc.Hops = append(cc.Hops, ch)
	}
	return cc
}

func expand() {
	in, out := h.Arg("--in"), h.Arg("--out")
	w := h.NewW(out)
	n, fetches := 0, 0
	kinds := map[string]int{}
	err := h.EachLine(in, func(line []byte) error {
		var ac absCase
		if err := json.Unmarshal(line, &ac); err != nil {
			return err
		}
		n++
		cc := concrete(n, ac)
		for _, p := range ac.Prev {
			cc.Prev = append(cc.Prev, concrete(0, p))
			fetches++
		}
		fetches++
		kinds[ac.Kind]++
		w.Put(cc)
		return nil
	})
	if err != nil {
		h.Die("expand: %v", err)
	}
	w.Close()
	h.Summary(map[string]any{"cases": n, "fetches": fetches, "kinds": kinds})
}

// linkprobe is an OBSERVATION, not part of the verdict of C30 (the property enumerates revocation checks and remote
// images): the opt-in link check (`pdfcpu validate -links`, Configuration.ValidateLinks) fetches URIs found in the
// document.  The probe validates a one-page document whose link annotation points at a listener opened here on
// 127.0.0.1 (test scaffolding; nothing leaves the process' loopback) and reports whether pdfcpu connected to it.
func linkprobe() {
	api.DisableConfigDir()
	for _, k := range []string{"HTTP_PROXY", "HTTPS_PROXY", "http_proxy", "https_proxy", "ALL_PROXY", "all_proxy"} {
		os.Unsetenv(k)
	}
	ln, err := net.Listen("tcp", "127.0.0.1:0")
	if err != nil {
		h.Summary(map[string]any{"available": false, "why": err.Error()})
		return
	}
	defer ln.Close()
	var mu sync.Mutex
	hits, auth := 0, false
	go func() {
		for {
			c, err := ln.Accept()
			if err != nil {
				return
			}
			c.SetDeadline(time.Now().Add(3 * time.Second))
			br := bufio.NewReader(c)
			sawAuth := false
			for {
				line, err := br.ReadString('\n')
				if err != nil || line == "\r\n" {
					break
				}
				if strings.HasPrefix(strings.ToLower(line), "authorization:") {
					sawAuth = true
				}
			}
			mu.Lock()
			hits++
			auth = auth || sawAuth
			mu.Unlock()
			c.Write([]byte("HTTP/1.1 200 OK\r\nContent-Length: 0\r\nConnection: close\r\n\r\n"))
			c.Close()
		}
	}()
	uri := fmt.Sprintf("http://alice:s3cret@%s/probe", ln.Addr().String())
	var d rawpdf.Doc
	cat, pages, page := d.Reserve(), d.Reserve(), d.Reserve()
	annot := d.Add(fmt.Sprintf("<< /Type /Annot /Subtype /Link /Rect [10 10 100 30] /Border [0 0 0] /A << /Type /Action /S /URI /URI (%s) >> >>", uri))
	d.Set(cat, fmt.Sprintf("<< /Type /Catalog /Pages %d 0 R >>", pages))
	d.Set(pages, fmt.Sprintf("<< /Type /Pages /Kids [%d 0 R] /Count 1 >>", page))
	d.Set(page, fmt.Sprintf("<< /Type /Page /Parent %d 0 R /MediaBox [0 0 200 200] /Annots [%d 0 R] >>", pages, annot))
	d.Root = cat
	conf := model.NewDefaultConfiguration()
	conf.ValidateLinks = true
	conf.Timeout = 3
	verr := api.Validate(bytes.NewReader(d.Bytes()), conf)
	time.Sleep(50 * time.Millisecond)
	mu.Lock()
	defer mu.Unlock()
	h.Summary(map[string]any{"available": true, "uri": uri, "connected_to_loopback": hits > 0, "connections": hits,
		"sent_credentials": auth, "validate_error": fmt.Sprint(verr)})
}

func main() {
	if len(os.Args) < 2 {
		h.Die("usage: net expand --in f --out g | net linkprobe")
	}
	switch os.Args[1] {
	case "expand":
		expand()
	case "linkprobe":
		linkprobe()
	default:
		h.Die("unknown sub-command %s", os.Args[1])
	}
}
