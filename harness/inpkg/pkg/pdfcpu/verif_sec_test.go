package pdfcpu

// In-package binding for C26 (added to the package by build overlay, never part of /repo):
// replays the SecPerm.tla matrix into the permission decision of the read path. The only unexported identifier
// used is hasNeededPermissions(mode, enc) - the function handlePermissions calls; the table and the mask helpers
// behind it are deliberately not referenced, so refactoring them does not break this binding. The classification
// of a command mode is observed through the decisions (denied or not for every bit combination).

import (
	"bufio"
	"encoding/json"
	"fmt"
	"os"
	"testing"

	"github.com/pdfcpu/pdfcpu/pkg/pdfcpu/model"
)

var verifSecModes = map[string]model.CommandMode{
	"VALIDATE": model.VALIDATE, "LISTINFO": model.LISTINFO, "OPTIMIZE": model.OPTIMIZE, "SPLIT": model.SPLIT,
	"SPLITBYPAGENR": model.SPLITBYPAGENR, "MERGECREATE": model.MERGECREATE, "MERGECREATEZIP": model.MERGECREATEZIP,
	"MERGEAPPEND": model.MERGEAPPEND, "EXTRACTIMAGES": model.EXTRACTIMAGES, "EXTRACTFONTS": model.EXTRACTFONTS,
	"EXTRACTPAGES": model.EXTRACTPAGES, "EXTRACTCONTENT": model.EXTRACTCONTENT, "EXTRACTMETADATA": model.EXTRACTMETADATA,
	"TRIM": model.TRIM, "LISTATTACHMENTS": model.LISTATTACHMENTS, "EXTRACTATTACHMENTS": model.EXTRACTATTACHMENTS,
	"ADDATTACHMENTS": model.ADDATTACHMENTS, "ADDATTACHMENTSPORTFOLIO": model.ADDATTACHMENTSPORTFOLIO,
	"REMOVEATTACHMENTS": model.REMOVEATTACHMENTS, "LISTPERMISSIONS": model.LISTPERMISSIONS, "SETPERMISSIONS": model.SETPERMISSIONS,
	"ADDWATERMARKS": model.ADDWATERMARKS, "REMOVEWATERMARKS": model.REMOVEWATERMARKS, "IMPORTIMAGES": model.IMPORTIMAGES,
	"INSERTPAGESBEFORE": model.INSERTPAGESBEFORE, "INSERTPAGESAFTER": model.INSERTPAGESAFTER, "REMOVEPAGES": model.REMOVEPAGES,
	"LISTKEYWORDS": model.LISTKEYWORDS, "ADDKEYWORDS": model.ADDKEYWORDS, "REMOVEKEYWORDS": model.REMOVEKEYWORDS,
	"LISTPROPERTIES": model.LISTPROPERTIES, "ADDPROPERTIES": model.ADDPROPERTIES, "REMOVEPROPERTIES": model.REMOVEPROPERTIES,
	"COLLECT": model.COLLECT, "CROP": model.CROP, "LISTBOXES": model.LISTBOXES, "ADDBOXES": model.ADDBOXES,
	"REMOVEBOXES": model.REMOVEBOXES, "LISTANNOTATIONS": model.LISTANNOTATIONS, "ADDANNOTATIONS": model.ADDANNOTATIONS,
	"REMOVEANNOTATIONS": model.REMOVEANNOTATIONS, "ROTATE": model.ROTATE, "NUP": model.NUP, "GRID": model.GRID,
	"BOOKLET": model.BOOKLET, "LISTBOOKMARKS": model.LISTBOOKMARKS, "ADDBOOKMARKS": model.ADDBOOKMARKS,
	"REMOVEBOOKMARKS": model.REMOVEBOOKMARKS, "IMPORTBOOKMARKS": model.IMPORTBOOKMARKS, "EXPORTBOOKMARKS": model.EXPORTBOOKMARKS,
	"LISTIMAGES": model.LISTIMAGES, "UPDATEIMAGES": model.UPDATEIMAGES, "CREATE": model.CREATE, "DUMP": model.DUMP,
	"LISTFORMFIELDS": model.LISTFORMFIELDS, "REMOVEFORMFIELDS": model.REMOVEFORMFIELDS, "LOCKFORMFIELDS": model.LOCKFORMFIELDS,
	"UNLOCKFORMFIELDS": model.UNLOCKFORMFIELDS, "RESETFORMFIELDS": model.RESETFORMFIELDS, "EXPORTFORMFIELDS": model.EXPORTFORMFIELDS,
	"FILLFORMFIELDS": model.FILLFORMFIELDS, "MULTIFILLFORMFIELDS": model.MULTIFILLFORMFIELDS, "ENCRYPT": model.ENCRYPT,
	"DECRYPT": model.DECRYPT, "CHANGEUPW": model.CHANGEUPW, "CHANGEOPW": model.CHANGEOPW, "CHEATSHEETSFONTS": model.CHEATSHEETSFONTS,
	"INSTALLFONTS": model.INSTALLFONTS, "LISTFONTS": model.LISTFONTS, "RESIZE": model.RESIZE, "POSTER": model.POSTER,
	"NDOWN": model.NDOWN, "CUT": model.CUT, "LISTPAGELAYOUT": model.LISTPAGELAYOUT, "SETPAGELAYOUT": model.SETPAGELAYOUT,
	"RESETPAGELAYOUT": model.RESETPAGELAYOUT, "LISTPAGEMODE": model.LISTPAGEMODE, "SETPAGEMODE": model.SETPAGEMODE,
	"RESETPAGEMODE": model.RESETPAGEMODE, "LISTVIEWERPREFERENCES": model.LISTVIEWERPREFERENCES,
	"SETVIEWERPREFERENCES": model.SETVIEWERPREFERENCES, "RESETVIEWERPREFERENCES": model.RESETVIEWERPREFERENCES, "ZOOM": model.ZOOM,
	"LISTCERTIFICATES": model.LISTCERTIFICATES, "INSPECTCERTIFICATES": model.INSPECTCERTIFICATES,
	"IMPORTCERTIFICATES": model.IMPORTCERTIFICATES, "VALIDATESIGNATURES": model.VALIDATESIGNATURES,
	"REMOVESIGNATURES": model.REMOVESIGNATURES, "ADDSIGNATURE": model.ADDSIGNATURE,
}

type verifSecRow struct {
	M string `json:"m"`
	X int    `json:"x"`
	Y int    `json:"y"`
	D bool   `json:"d"`
	C bool   `json:"c"`
}

type verifSecCase struct {
	P    int           `json:"p"`
	V    int           `json:"v"`
	R    int           `json:"r"`
	Rows []verifSecRow `json:"rows"`
}

func TestVerifSecPerm(t *testing.T) {
	in, out := os.Getenv("VERIF_SEC_CASES"), os.Getenv("VERIF_SEC_OUT")
	if in == "" || out == "" {
		t.Skip("VERIF_SEC_CASES / VERIF_SEC_OUT not set")
	}
	f, err := os.Open(in)
	if err != nil {
		t.Fatal(err)
	}
	defer f.Close()
	w, err := os.Create(out)
	if err != nil {
		t.Fatal(err)
	}
	defer w.Close()
	bw := bufio.NewWriter(w)
	defer bw.Flush()
	bad := 0
	mism := func(c verifSecCase, row verifSecRow, what string, want, got any) {
		bad++
		if bad <= 200 {
			b, _ := json.Marshal(map[string]any{"p": c.P, "v": c.V, "r": c.R, "m": row.M, "what": what, "want": want, "got": got})
			bw.Write(b)
			bw.WriteByte('\n')
		}
	}
	known := map[model.CommandMode]bool{}
	maxMode := model.CommandMode(0)
	for _, m := range verifSecModes {
		known[m] = true
		if m > maxMode {
			maxMode = m
		}
	}
	keyLen := map[int]int{1: 40, 2: 128, 4: 128, 5: 256}
	cases, rows, denied := 0, 0, 0
	distinct := map[string]bool{}
	sc := bufio.NewScanner(f)
	sc.Buffer(make([]byte, 1<<20), 1<<26)
	for sc.Scan() {
		var c verifSecCase
		if err := json.Unmarshal(sc.Bytes(), &c); err != nil {
			t.Fatal(err)
		}
		cases++
		enc := func() *model.Enc { return &model.Enc{P: c.P, R: c.R, V: c.V, L: keyLen[c.V], Emd: true} }
		for _, row := range c.Rows {
			rows++
			mode, ok := verifSecModes[row.M]
			if !ok {
				t.Fatalf("command mode %s of the specification is unknown to the binding", row.M)
			}
			got := !hasNeededPermissions(mode, enc())
			if got != row.D {
				mism(c, row, "denied by hasNeededPermissions", row.D, got)
			}
			if got {
				denied++
			}
			if row.C {
				distinct[fmt.Sprintf("%s/%d/%d/%d", row.M, c.R, c.P&(row.X|row.Y), row.X|row.Y)] = true
			}
		}
		// command modes the specification does not list (added later) must not be refused anything
		for m := model.CommandMode(0); m <= maxMode+16; m++ {
			if !known[m] && !hasNeededPermissions(m, enc()) {
				mism(c, verifSecRow{M: fmt.Sprintf("mode#%d", m)}, "command mode missing from the specification is classified", false, true)
			}
		}
	}
	if err := sc.Err(); err != nil {
		t.Fatal(err)
	}
	s, _ := json.Marshal(map[string]any{"cases": cases, "rows": rows, "denied": denied, "mismatches": bad, "distinct": len(distinct)})
	fmt.Println("SUMMARY " + string(s))
}
