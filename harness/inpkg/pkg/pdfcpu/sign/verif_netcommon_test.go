package sign

// C30 shim machinery shared (as an identical copy, except for the package clause) by
// harness/inpkg/pkg/pdfcpu/sign and harness/inpkg/pkg/pdfcpu/primitives.  lib/props/c30.py refuses to run when
// the two copies differ.
//
// Nothing here touches the network:
//   - DNS: a net.Resolver{PreferGo, Dial} whose "name server" is an in-process goroutine behind a net.Pipe that
//     answers from the zone of the model's current hop (vnetZone);
//   - dialling: every dial attempt that a guard lets through is recorded and then aborted with vnetAbort before
//     connect(2) (net.Dialer.Control for *net.Dialer users, a dial function for injectable dialers);
//   - HTTP: vnetRT wraps the real *http.Transport; when the transport fails with vnetAbort (= the guard permitted at
//     least one connect attempt) it synthesises the response the model scripted for that hop (302 to the next URL
//     or 200), so that the real http.Client redirect logic and the real CheckRedirect policy run.

import (
	"bufio"
	"context"
	"encoding/binary"
	"encoding/json"
	"errors"
	"fmt"
	"io"
	"net"
	"net/http"
	"net/netip"
	"os"
	"os/exec"
	"reflect"
	"runtime"
	"sort"
	"strings"
	"sync"
	"syscall"
)

var errVnetAbort = errors.New("verif: connect attempt recorded and aborted")

type vnetHop struct {
	URL     string   `json:"url"`
	Host    string   `json:"host"`
	Scheme  string   `json:"scheme"`
	User    string   `json:"user"`
	Form    string   `json:"form"`
	Port    string   `json:"port"`
	Rel     string   `json:"rel"`
	Answers [][]int  `json:"answers"`
	Classes []string `json:"classes"`
	St      string   `json:"st"`
	Pred    [][]int  `json:"pred"`
	May     [][]int  `json:"may"`
}

type vnetCase struct {
	ID        int        `json:"id"`
	Kind      string     `json:"kind"`
	AllowForm string     `json:"allowform"`
	Allow     []string   `json:"allow"`
	Variant   int        `json:"variant"`
	Hops      []vnetHop  `json:"hops"`
	Prev      []vnetCase `json:"prev"` // history cases: the fetches the same process performs before this one
	Step      int        `json:"step"` // 0, or the position of this fetch in its history (1-based)
}

type vnetHopRec struct {
	N      int    `json:"n"`
	URL    string `json:"url"`
	Scheme string `json:"scheme"`
	User   bool   `json:"user"`
	Cred   bool   `json:"cred"`
	Auth   bool   `json:"auth"`
	Host   []int  `json:"host"`
}

type vnetConnRec struct {
	Hop      int    `json:"hop"`
	DialHost []int  `json:"dialhost"`
	IP       []int  `json:"ip"`
	Port     int    `json:"port"`
	Target   string `json:"target"`
}

type vnetClientRec struct {
	ProxyNil      bool `json:"proxy_nil"`
	CheckRedirect bool `json:"check_redirect"`
	DialGuard     bool `json:"dial_guard"`
}

type vnetFlowRec struct {
	T          string        `json:"t"`
	ID         int           `json:"id"`
	Step       int           `json:"step"`
	Mode       string        `json:"mode"`
	Kind       string        `json:"kind"`
	AllowForm  string        `json:"allowform"`
	Allow      [][]int       `json:"allow"`
	AllowStr   []string      `json:"allowstr"`
	Hops       []vnetHopRec  `json:"hops"`
	Conns      []vnetConnRec `json:"conns"`
	Client     vnetClientRec `json:"client"`
	Outcome    string        `json:"outcome"`
	ReplayViol []string      `json:"replay_viol"`
	Diverged   []string      `json:"diverged"`
	Lookups    int           `json:"lookups"`
}

type vnetProbeRec struct {
	T        string   `json:"t"`
	ID       int      `json:"id"`
	Kind     string   `json:"kind"`
	Allow    [][]int  `json:"allow"`
	AllowStr []string `json:"allowstr"`
	Host     []int    `json:"host"`
	HostStr  string   `json:"hoststr"`
	Resolved [][]int  `json:"resolved"`
	Permit   bool     `json:"permit"`
	Tried    int      `json:"tried"`
	Err      string   `json:"err"`
}

func vnetInts(s string) []int {
	out := make([]int, len(s))
	for i := 0; i < len(s); i++ {
		out[i] = int(s[i])
	}
	return out
}

func vnetIntsList(ss []string) [][]int {
	out := make([][]int, 0, len(ss))
	for _, s := range ss {
		out = append(out, vnetInts(s))
	}
	return out
}

func vnetIP(b []int) net.IP {
	ip := make(net.IP, len(b))
	for i, v := range b {
		ip[i] = byte(v)
	}
	return ip
}

func vnetAddrInts(a netip.Addr) []int {
	raw := a.WithZone("").AsSlice()
	out := make([]int, len(raw))
	for i, v := range raw {
		out[i] = int(v)
	}
	return out
}

// vnetEff is the address a connect would really reach, as a comparable key (mapped addresses unwrapped).
func vnetEff(b []int) string {
	raw := make([]byte, len(b))
	for i, v := range b {
		raw[i] = byte(v)
	}
	a, ok := netip.AddrFromSlice(raw)
	if !ok {
		return fmt.Sprint(b)
	}
	return a.Unmap().String()
}

func vnetNormName(s string) string {
	return strings.TrimSuffix(strings.ToLower(s), ".")
}

// ---------------------------------------------------------------------------------------------- fake DNS

var (
	vnetZoneMu  sync.Mutex
	vnetZone    = map[string][]net.IP{} // normalised name -> answers of the current hop
	vnetAsked   = map[string]int{}      // "name/qtype" -> number of queries since the zone was set
	vnetQueries int
	vnetRebinds int
)

// DNS rebinding: within one hop the model's answer is given once per (name, type).  A guard that validates one
// lookup and lets the dialer resolve the name again gets loopback addresses the second time.
var (
	vnetRebindA    = net.IP{127, 0, 0, 1}
	vnetRebindAAAA = net.IP{0, 0, 0, 0, 0, 0, 0, 0, 0, 0, 0, 0, 0, 0, 0, 1}
)

func vnetSetZone(z map[string][]net.IP) {
	vnetZoneMu.Lock()
	vnetZone = z
	vnetAsked = map[string]int{}
	vnetZoneMu.Unlock()
}

func vnetServeDNS(c net.Conn) {
	defer c.Close()
	for {
		var l [2]byte
		if _, err := io.ReadFull(c, l[:]); err != nil {
			return
		}
		q := make([]byte, binary.BigEndian.Uint16(l[:]))
		if _, err := io.ReadFull(c, q); err != nil || len(q) < 17 {
			return
		}
		i := 12
		var labels []string
		for i < len(q) && q[i] != 0 {
			n := int(q[i])
			if i+1+n > len(q) {
				return
			}
			labels = append(labels, string(q[i+1:i+1+n]))
			i += 1 + n
		}
		i++
		if i+4 > len(q) {
			return
		}
		qtype := binary.BigEndian.Uint16(q[i:])
		i += 4
		name := strings.ToLower(strings.Join(labels, "."))
		vnetZoneMu.Lock()
		ips, ok := vnetZone[name]
		vnetQueries++
		if ok {
			k := fmt.Sprint(name, "/", qtype)
			vnetAsked[k]++
			if vnetAsked[k] > 1 {
				vnetRebinds++
				ips = []net.IP{vnetRebindA, vnetRebindAAAA}
			}
		}
		vnetZoneMu.Unlock()
		resp := append([]byte{}, q[:i]...)
		resp[2], resp[3] = 0x81, 0x80
		if !ok {
			resp[3] = 0x83 // NXDOMAIN
		}
		for k := 6; k < 12; k++ {
			resp[k] = 0
		}
		n := 0
		for _, ip := range ips {
			if (qtype == 1 && len(ip) == 4) || (qtype == 28 && len(ip) == 16) {
				resp = append(resp, 0xc0, 0x0c, 0, byte(qtype), 0, 1, 0, 0, 0, 60, 0, byte(len(ip)))
				resp = append(resp, ip...)
				n++
			}
		}
		binary.BigEndian.PutUint16(resp[6:], uint16(n))
		binary.BigEndian.PutUint16(l[:], uint16(len(resp)))
		if _, err := c.Write(append(l[:], resp...)); err != nil {
			return
		}
	}
}

// vnetGoResolver is Go's own resolver (literal handling, name checks, RFC 6724 ordering) on top of the fake name server.
func vnetGoResolver() *net.Resolver {
	return &net.Resolver{PreferGo: true, Dial: func(ctx context.Context, network, address string) (net.Conn, error) {
		a, b := net.Pipe()
		go vnetServeDNS(b)
		return a, nil
	}}
}

func vnetInstallResolver() {
	net.DefaultResolver = vnetGoResolver()
	// a client that (wrongly) consulted the environment for a proxy would dial this host instead of the URL's
	for _, k := range []string{"HTTP_PROXY", "HTTPS_PROXY", "http_proxy", "https_proxy", "ALL_PROXY", "all_proxy"} {
		os.Setenv(k, "http://proxy.verif.test:3128")
	}
	os.Unsetenv("NO_PROXY")
	os.Unsetenv("no_proxy")
}

func vnetHopZone(hp vnetHop) map[string][]net.IP {
	z := map[string][]net.IP{}
	if hp.Form != "lit" && hp.Host != "" {
		ips := []net.IP{}
		for _, a := range hp.Answers {
			ips = append(ips, vnetIP(a))
		}
		z[vnetNormName(hp.Host)] = ips
	}
	return z
}

// ---------------------------------------------------------------------------------------------- one run

type vnetRun struct {
	mu       sync.Mutex
	c        vnetCase
	hop      int // request number of the current hop (1-based)
	dialHost string
	hops     []vnetHopRec
	conns    []vnetConnRec
	lookups  int
	notes    []string
	real     bool // the connect attempts were derived from the real client's own guard (realGuard)
}

func vnetNewRun(c vnetCase) *vnetRun { return &vnetRun{c: c} }

// LookupIPAddr: the ordered answer list of the model's current hop (an injectable resolver); everything the table
// does not know (literals, other names) is left to Go's resolver over the fake name server.
func (r *vnetRun) LookupIPAddr(ctx context.Context, host string) ([]net.IPAddr, error) {
	r.mu.Lock()
	r.lookups++
	var z map[string][]net.IP
	if r.hop >= 1 && r.hop <= len(r.c.Hops) {
		z = vnetHopZone(r.c.Hops[r.hop-1])
	}
	r.mu.Unlock()
	if ips, ok := z[vnetNormName(host)]; ok && len(ips) > 0 {
		out := make([]net.IPAddr, 0, len(ips))
		for _, ip := range ips {
			out = append(out, net.IPAddr{IP: ip})
		}
		return out, nil
	}
	return net.DefaultResolver.LookupIPAddr(ctx, host)
}

func (r *vnetRun) record(target string) {
	r.mu.Lock()
	defer r.mu.Unlock()
	rec := vnetConnRec{Hop: r.hop, DialHost: vnetInts(r.dialHost), Target: target, IP: []int{}}
	if ap, err := netip.ParseAddrPort(target); err == nil {
		rec.IP = vnetAddrInts(ap.Addr())
		rec.Port = int(ap.Port())
	} else {
		r.notes = append(r.notes, "unparsable dial target "+target)
	}
	r.conns = append(r.conns, rec)
}

// dial is an injectable dial function: record, then fail (so a guard that walks its list walks all of it).
func (r *vnetRun) dial(ctx context.Context, network, target string) (net.Conn, error) {
	r.record(target)
	return nil, &net.OpError{Op: "dial", Net: network, Err: errVnetAbort}
}

// control is a net.Dialer.Control hook: record, then abort before connect(2).
func (r *vnetRun) control(network, address string, _ syscall.RawConn) error {
	r.record(address)
	return errVnetAbort
}

type vnetDialFunc = func(context.Context, string, string) (net.Conn, error)

// wrapHost remembers the host the transport asked the guard to dial (no-proxy check).
func (r *vnetRun) wrapHost(guard vnetDialFunc) vnetDialFunc {
	return func(ctx context.Context, network, addr string) (net.Conn, error) {
		h, _, err := net.SplitHostPort(addr)
		if err != nil {
			h = addr
		}
		r.mu.Lock()
		r.dialHost = h
		r.mu.Unlock()
		return guard(ctx, network, addr)
	}
}

// realGuard drives the dial guard installed in the REAL client object (closure over whatever configuration that
// object really carries): the guard is called with a network name no dialer knows, so every dial attempt it lets
// through ends in net.UnknownNetworkError before a socket exists.  The guard resolves through net.DefaultResolver
// (= the fake name server); the attempts are the first `tried` addresses of that resolver's answer.
func (r *vnetRun) realGuard(guard vnetDialFunc) vnetDialFunc {
	r.real = true
	return func(ctx context.Context, network, addr string) (net.Conn, error) {
		host, port, err := net.SplitHostPort(addr)
		if err != nil {
			return nil, err
		}
		r.mu.Lock()
		var zone map[string][]net.IP
		if r.hop >= 1 && r.hop <= len(r.c.Hops) {
			zone = vnetHopZone(r.c.Hops[r.hop-1])
		}
		r.mu.Unlock()
		vnetSetZone(zone)
		ips, _ := net.DefaultResolver.LookupIPAddr(ctx, host)
		vnetSetZone(zone) // the guard's own lookup is the first one again
		conn, gerr := guard(ctx, "verifnet", addr)
		if gerr == nil {
			if conn != nil {
				conn.Close()
			}
			r.mu.Lock()
			r.notes = append(r.notes, "the real guard returned a connection: the harness leaked a connection")
			r.mu.Unlock()
			return nil, errors.New("verif: unexpected connection")
		}
		n := vnetCountUnknownNet(gerr)
		if n > len(ips) {
			r.mu.Lock()
			r.notes = append(r.notes, fmt.Sprintf("the real guard made %d dial attempts for %d resolved addresses", n, len(ips)))
			r.mu.Unlock()
		}
		for i := 0; i < n; i++ {
			if i < len(ips) {
				r.record(net.JoinHostPort(ips[i].IP.String(), port))
			} else {
				r.record("unknown:" + port)
			}
		}
		if n > 0 {
			return nil, &net.OpError{Op: "dial", Net: network, Err: errVnetAbort}
		}
		return nil, gerr
	}
}

type vnetRT struct {
	run  *vnetRun
	real *http.Transport
}

func (w *vnetRT) RoundTrip(req *http.Request) (*http.Response, error) {
	r := w.run
	r.mu.Lock()
	r.hop++
	n := r.hop
	hr := vnetHopRec{N: n, URL: req.URL.Redacted(), Scheme: req.URL.Scheme, User: req.URL.User != nil,
		Auth: req.Header.Get("Authorization") != "" || req.Header.Get("Proxy-Authorization") != "", Host: vnetInts(req.URL.Hostname())}
	if req.URL.User != nil {
		_, pw := req.URL.User.Password()
		hr.Cred = req.URL.User.Username() != "" || pw
	}
	// what would go on the wire for this request (net/http has already turned URL userinfo into a header here)
	if vnetWireHasAuth(req) {
		hr.Auth = true
	}
	r.hops = append(r.hops, hr)
	before := len(r.conns)
	var zone map[string][]net.IP
	if n <= len(r.c.Hops) {
		zone = vnetHopZone(r.c.Hops[n-1])
	}
	r.mu.Unlock()
	vnetSetZone(zone)
	resp, err := w.real.RoundTrip(req)
	vnetSetZone(nil)
	if err == nil {
		r.mu.Lock()
		r.notes = append(r.notes, "a real response arrived: the harness leaked a connection")
		r.mu.Unlock()
		return resp, nil
	}
	r.mu.Lock()
	attempted := len(r.conns) > before
	r.mu.Unlock()
	if !errors.Is(err, errVnetAbort) || !attempted {
		return nil, err
	}
	if req.Body != nil {
		req.Body.Close()
	}
	out := &http.Response{Proto: "HTTP/1.1", ProtoMajor: 1, ProtoMinor: 1, Header: http.Header{}, Request: req}
	if n < len(r.c.Hops) {
		out.StatusCode = http.StatusFound
		out.Header.Set("Location", r.c.Hops[n].URL)
		out.Body = http.NoBody
	} else {
		out.StatusCode = http.StatusOK
		out.Header.Set("Content-Type", "application/octet-stream")
		out.Body = io.NopCloser(strings.NewReader("verif"))
		out.ContentLength = 5
	}
	out.Status = fmt.Sprintf("%d %s", out.StatusCode, http.StatusText(out.StatusCode))
	return out, nil
}

// vnetWireHasAuth serialises the request head exactly as the transport would send it and looks for credentials.
func vnetWireHasAuth(req *http.Request) bool {
	r2 := req.Clone(req.Context())
	r2.Body, r2.GetBody, r2.ContentLength = nil, nil, 0
	var buf strings.Builder
	if err := r2.Write(&buf); err != nil {
		return false
	}
	for _, line := range strings.Split(buf.String(), "\r\n") {
		l := strings.ToLower(line)
		if strings.HasPrefix(l, "authorization:") || strings.HasPrefix(l, "proxy-authorization:") {
			return true
		}
	}
	return false
}

func vnetFuncPtr(f any) uintptr {
	v := reflect.ValueOf(f)
	if v.Kind() != reflect.Func || v.IsNil() {
		return 0
	}
	return v.Pointer()
}

// vnetInspect looks at the client object pdfcpu really uses.
func vnetInspect(c *http.Client, wantRedirect any) (vnetClientRec, *http.Transport) {
	var rec vnetClientRec
	tr, _ := c.Transport.(*http.Transport)
	if tr == nil {
		return rec, nil
	}
	rec.ProxyNil = tr.Proxy == nil
	rec.CheckRedirect = c.CheckRedirect != nil && vnetFuncPtr(c.CheckRedirect) == vnetFuncPtr(wantRedirect)
	// the guard must be the only way to a socket
	rec.DialGuard = tr.DialContext != nil && tr.Dial == nil && tr.DialTLS == nil && tr.DialTLSContext == nil
	return rec, tr
}

// finish compares what happened with the model's prediction for the case and builds the record.
func (r *vnetRun) finish(client vnetClientRec, outcome string) vnetFlowRec {
	r.mu.Lock()
	defer r.mu.Unlock()
	c := r.c
	mode := "rewired"
	if r.real {
		mode = "realguard"
	}
	rec := vnetFlowRec{T: "flow", ID: c.ID, Step: c.Step, Mode: mode, Kind: c.Kind, AllowForm: c.AllowForm, Allow: vnetIntsList(c.Allow), AllowStr: c.Allow,
		Hops: r.hops, Conns: r.conns, Client: client, Outcome: outcome, ReplayViol: []string{}, Diverged: append([]string{}, r.notes...), Lookups: r.lookups}
	if rec.Hops == nil {
		rec.Hops = []vnetHopRec{}
	}
	if rec.Conns == nil {
		rec.Conns = []vnetConnRec{}
	}
	if rec.AllowStr == nil {
		rec.AllowStr = []string{}
	}
	perHop := map[int][]string{}
	for _, cn := range r.conns {
		perHop[cn.Hop] = append(perHop[cn.Hop], vnetEff(cn.IP))
		ok := false
		if cn.Hop >= 1 && cn.Hop <= len(c.Hops) {
			for _, m := range c.Hops[cn.Hop-1].May {
				if vnetEff(m) == vnetEff(cn.IP) {
					ok = true
				}
			}
		}
		if !ok {
			rec.ReplayViol = append(rec.ReplayViol, fmt.Sprintf("request %d: connect attempt to %s (dial host %q) is not permitted by the model", cn.Hop, cn.Target, string(vnetBytes(cn.DialHost))))
		}
	}
	for i, hp := range c.Hops {
		got := perHop[i+1]
		var want []string
		for _, p := range hp.Pred {
			want = append(want, vnetEff(p))
		}
		same := len(got) == len(want)
		if same && c.Kind != "image" && r.real {
			// the real guard walks the answers in the resolver's own order
			g, w := append([]string{}, got...), append([]string{}, want...)
			sort.Strings(g)
			sort.Strings(w)
			got, want = g, w
		}
		if same && c.Kind != "image" {
			for k := range got {
				same = same && got[k] == want[k]
			}
		}
		if same && c.Kind == "image" && len(got) == 1 {
			// the image guard dials the first address in the resolver's own order: any of the answers
			same = false
			for _, a := range hp.Answers {
				if vnetEff(a) == got[0] {
					same = true
				}
			}
		}
		if !same {
			rec.Diverged = append(rec.Diverged, fmt.Sprintf("request %d: design model predicts connects %v, real code attempted %v", i+1, want, got))
		}
	}
	return rec
}

func vnetBytes(b []int) []byte {
	out := make([]byte, len(b))
	for i, v := range b {
		out[i] = byte(v)
	}
	return out
}

// vnetProbe asks the dial guard installed in the REAL client object for its decision, with a network name no dialer
// knows: a permitted attempt ends in net.UnknownNetworkError before a socket exists, a refusal in the guard's own error.
func vnetProbe(c vnetCase, hp vnetHop, guard vnetDialFunc) vnetProbeRec {
	rec := vnetProbeRec{T: "probe", ID: c.ID, Kind: c.Kind, Allow: vnetIntsList(c.Allow), AllowStr: c.Allow, Host: vnetInts(hp.Host), HostStr: hp.Host, Resolved: [][]int{}}
	if rec.AllowStr == nil {
		rec.AllowStr = []string{}
	}
	vnetSetZone(vnetHopZone(hp))
	defer vnetSetZone(nil)
	ctx := context.Background()
	if ips, err := net.DefaultResolver.LookupIPAddr(ctx, hp.Host); err == nil {
		for _, ip := range ips {
			if a, ok := netip.AddrFromSlice(ip.IP); ok {
				rec.Resolved = append(rec.Resolved, vnetAddrInts(a))
			}
		}
	}
	vnetSetZone(vnetHopZone(hp)) // the guard's lookup is the first one again
	_, err := guard(ctx, "verifnet", net.JoinHostPort(hp.Host, "80"))
	if err == nil {
		rec.Err = "no error: a connection was made"
		rec.Permit = true
		rec.Tried = len(rec.Resolved)
		return rec
	}
	rec.Err = err.Error()
	rec.Tried = vnetCountUnknownNet(err)
	rec.Permit = rec.Tried > 0
	return rec
}

func vnetCountUnknownNet(err error) int {
	if err == nil {
		return 0
	}
	if _, ok := err.(net.UnknownNetworkError); ok {
		return 1
	}
	switch e := err.(type) {
	case interface{ Unwrap() []error }:
		n := 0
		for _, x := range e.Unwrap() {
			n += vnetCountUnknownNet(x)
		}
		return n
	case interface{ Unwrap() error }:
		return vnetCountUnknownNet(e.Unwrap())
	}
	return 0
}

// ---------------------------------------------------------------------------------------------- histories

// vnetFetches is the history of a case: the earlier fetches of the process, then the case itself.
func vnetFetches(c vnetCase) []vnetCase {
	out := []vnetCase{}
	for i, p := range c.Prev {
		p.ID, p.Step = c.ID, i+1
		out = append(out, p)
	}
	c.Step = len(c.Prev) + 1
	c.Prev = nil
	return append(out, c)
}

// vnetHistParent replays the histories in fresh processes (this test binary, re-executed): whatever the code under
// test keeps between fetches starts empty.  Starting a process costs about half a CPU second (package initialisation),
// so the histories that begin with the same fetch a share one process, which runs them back to back:
// a b1 .. | a b2 .. | a b3 ..  Every model history is a contiguous segment of what that process really did, its first
// fetch is the first fetch the process ever made, and every record is judged on its own configuration only.
func vnetHistParent(testName string, cases []vnetCase, fw *vnetWriter, dir string) (int, error) {
	groups := map[string][]vnetCase{}
	var order []string
	for _, c := range cases {
		first := c
		if len(c.Prev) > 0 {
			first = c.Prev[0]
		}
		first.ID, first.Prev = 0, nil
		kb, _ := json.Marshal(first)
		k := string(kb)
		if _, ok := groups[k]; !ok {
			order = append(order, k)
		}
		groups[k] = append(groups[k], c)
	}
	workers := runtime.NumCPU() / 2
	if workers < 2 {
		workers = 2
	}
	if workers > 8 {
		workers = 8
	}
	type result struct {
		lines []string
		err   error
	}
	results := make([]result, len(order))
	var wg sync.WaitGroup
	next := make(chan int)
	for w := 0; w < workers; w++ {
		wg.Add(1)
		go func() {
			defer wg.Done()
			for i := range next {
				g := groups[order[i]]
				path := fmt.Sprintf("%s/hist-%s-%d.ndjson", dir, testName, i)
				gw, err := vnetCreate(path)
				if err != nil {
					results[i] = result{err: err}
					continue
				}
				want := 0
				for _, c := range g {
					gw.put(c)
					want += len(c.Prev) + 1
				}
				gw.close()
				cmd := exec.Command(os.Args[0], "-test.run=^"+testName+"$", "-test.timeout=600s")
				cmd.Env = append(os.Environ(), "VERIF_NET_ONE="+path)
				out, err := cmd.CombinedOutput()
				os.Remove(path)
				var lines []string
				for _, l := range strings.Split(string(out), "\n") {
					if strings.HasPrefix(l, "REC ") {
						lines = append(lines, l[4:])
					}
				}
				if err != nil || len(lines) != want {
					if len(out) > 3000 {
						out = out[len(out)-3000:]
					}
					results[i] = result{err: fmt.Errorf("history process %d: child failed (%v), %d of %d records:\n%s", i, err, len(lines), want, out)}
					continue
				}
				results[i] = result{lines: lines}
			}
		}()
	}
	for i := range order {
		next <- i
	}
	close(next)
	wg.Wait()
	for _, r := range results {
		if r.err != nil {
			return 0, r.err
		}
		for _, l := range r.lines {
			fw.w.WriteString(l)
			fw.w.WriteByte('\n')
			fw.n++
		}
	}
	return len(order), nil
}

// vnetHistChild: the histories of one process, in order.
func vnetHistChild(path string) ([]vnetCase, error) {
	return vnetLoad(path, map[string]bool{"crl": true, "ocsp": true, "image": true})
}

func vnetPrintRec(v any) {
	b, err := json.Marshal(v)
	if err != nil {
		panic(err)
	}
	fmt.Println("REC " + string(b))
}

// ---------------------------------------------------------------------------------------------- files

func vnetLoad(path string, kinds map[string]bool) ([]vnetCase, error) {
	f, err := os.Open(path)
	if err != nil {
		return nil, err
	}
	defer f.Close()
	sc := bufio.NewScanner(f)
	sc.Buffer(make([]byte, 1<<20), 1<<26)
	var out []vnetCase
	for sc.Scan() {
		if len(sc.Bytes()) == 0 {
			continue
		}
		var c vnetCase
		if err := json.Unmarshal(sc.Bytes(), &c); err != nil {
			return nil, err
		}
		if kinds[c.Kind] {
			out = append(out, c)
		}
	}
	return out, sc.Err()
}

type vnetWriter struct {
	f *os.File
	w *bufio.Writer
	n int
}

func vnetCreate(path string) (*vnetWriter, error) {
	f, err := os.Create(path)
	if err != nil {
		return nil, err
	}
	return &vnetWriter{f: f, w: bufio.NewWriterSize(f, 1<<20)}, nil
}

func (w *vnetWriter) put(v any) {
	b, err := json.Marshal(v)
	if err != nil {
		panic(err)
	}
	w.w.Write(b)
	w.w.WriteByte('\n')
	w.n++
}

func (w *vnetWriter) close() { w.w.Flush(); w.f.Close() }
