package sign

// C30 shim for the revocation fetches (CRL: GET, OCSP: POST).  See verif_netcommon_test.go for the machinery.
//
// Per case (VERIF_NET_CASES) it
//  1. builds the REAL client with revocationHTTPClient(timeout, allow) and inspects it (Proxy, CheckRedirect, dial paths);
//  2. runs the REAL fetch path (processCurrentCRLs / processCurrentOCSPResponse) with a copy of that client whose
//     transport is a clone of the real transport with DialContext = the REAL revocationDialContext wired exactly as
//     revocationHTTPClient wires it, except that resolver and dial function are the recording fakes;
//  3. probes the dial guard installed in the REAL client (net.DefaultResolver = fake name server, unknown network name).
//
// History cases (VERIF_NET_MODE=hist: a case carries the earlier fetches of its process in "prev") run in a process of
// their own each; every fetch of the history asks revocationHTTPClient(timeout, allow of THAT fetch) for its client, as
// checkCertViaCRL / checkCertViaOCSP do, and runs the real fetch path through the guard that client really carries
// (realGuard), so that anything the package keeps between fetches shows in the recorded connect attempts.
//
// Records go to VERIF_NET_FLOWS and VERIF_NET_PROBES; TLC (spec/NetTrace.tla) judges them.

import (
	"crypto/x509"
	"fmt"
	"net/http"
	"os"
	"path/filepath"
	"testing"
	"time"
)

const vnetRevTimeout = 5 * time.Second

// vnetRevFetch performs one revocation fetch.  realGuard = false: the guard is the real constructor re-wired with
// the recording fakes; true: the guard instance inside the client revocationHTTPClient returned.
func vnetRevFetch(t *testing.T, c vnetCase, realGuard bool) (vnetFlowRec, *http.Transport) {
	real := revocationHTTPClient(vnetRevTimeout, c.Allow)
	info, realTr := vnetInspect(real, revocationRedirect)
	if realTr == nil {
		t.Fatalf("revocationHTTPClient does not use an *http.Transport: the shim has to be adapted")
	}
	run := vnetNewRun(c)
	tr := realTr.Clone()
	if realGuard {
		tr.DialContext = run.wrapHost(run.realGuard(realTr.DialContext))
	} else {
		tr.DialContext = run.wrapHost(revocationDialContext(run, run.dial, allowedRevocationHostSet(c.Allow)))
	}
	client := *real
	client.Transport = &vnetRT{run: run, real: tr}

	cert, issuer := &x509.Certificate{}, &x509.Certificate{}
	first := c.Hops[0].URL
	outcome := ""
	switch c.Kind {
	case "crl":
		cert.CRLDistributionPoints = []string{first}
		_, err := processCurrentCRLs(cert, issuer, &client)
		outcome = fmt.Sprint(err)
	case "ocsp":
		_, err := processCurrentOCSPResponse(cert, issuer, &client, []byte{0x30, 0x03, 0x0a, 0x01, 0x00}, first, time.Now())
		outcome = fmt.Sprint(err)
	}
	tr.CloseIdleConnections()
	return run.finish(info, outcome), realTr
}

func TestVerifNetRevocation(t *testing.T) {
	if one := os.Getenv("VERIF_NET_ONE"); one != "" { // child: the histories of this fresh process
		cases, err := vnetHistChild(one)
		if err != nil {
			t.Fatal(err)
		}
		vnetInstallResolver()
		for _, c := range cases {
			for _, f := range vnetFetches(c) {
				rec, _ := vnetRevFetch(t, f, true)
				vnetPrintRec(rec)
			}
		}
		return
	}
	in, flowsOut, probesOut := os.Getenv("VERIF_NET_CASES"), os.Getenv("VERIF_NET_FLOWS"), os.Getenv("VERIF_NET_PROBES")
	if in == "" || flowsOut == "" || probesOut == "" {
		t.Skip("VERIF_NET_CASES / VERIF_NET_FLOWS / VERIF_NET_PROBES not set")
	}
	cases, err := vnetLoad(in, map[string]bool{"crl": true, "ocsp": true})
	if err != nil {
		t.Fatalf("load cases: %v", err)
	}
	fw, err := vnetCreate(flowsOut)
	if err != nil {
		t.Fatal(err)
	}
	pw, err := vnetCreate(probesOut)
	if err != nil {
		t.Fatal(err)
	}
	if os.Getenv("VERIF_NET_MODE") == "hist" {
		nproc, err := vnetHistParent("TestVerifNetRevocation", cases, fw, filepath.Dir(flowsOut))
		if err != nil {
			t.Fatal(err)
		}
		fw.close()
		pw.close()
		fmt.Printf("SUMMARY {\"flows\":%d,\"probes\":0,\"dns_queries\":0,\"dns_rebinds\":0,\"processes\":%d}\n", fw.n, nproc)
		return
	}
	vnetInstallResolver()
	probed := map[string]bool{}
	for _, c := range cases {
		rec, realTr := vnetRevFetch(t, c, false)
		fw.put(rec)

		// the guard of the real client object
		for _, hp := range c.Hops {
			if hp.Host == "" {
				continue
			}
			key := fmt.Sprint(c.Allow, "|", hp.Host, "|", hp.Answers)
			if probed[key] {
				continue
			}
			probed[key] = true
			pw.put(vnetProbe(c, hp, vnetDialFunc(realTr.DialContext)))
		}
		realTr.CloseIdleConnections()
	}
	fw.close()
	pw.close()
	fmt.Printf("SUMMARY {\"flows\":%d,\"probes\":%d,\"dns_queries\":%d,\"dns_rebinds\":%d}\n", fw.n, pw.n, vnetQueries, vnetRebinds)
}
