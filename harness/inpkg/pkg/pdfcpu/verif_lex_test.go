package pdfcpu

// C11 binding (added to package pdfcpu by build overlay, see vlib.inpkg_test): needs the unexported
// object writer appendPDFObject.  Abstract objects (spec/Lex.tla, section "7.3 objects") are JSON values
//   {"k":"null"} {"k":"bool","b":..} {"k":"int","s":"<decimal>"} {"k":"real","m":..,"e":..} {"k":"bigreal","t":"<token>"}
//   {"k":"name"|"str"|"hex","v":[bytes]} {"k":"ref","n":..,"g":..} {"k":"arr","v":[..]}
//   {"k":"dict","v":[{"key":[bytes],"val":..},..]} (sorted by key)
// Modes (env VERIF_LEX_MODE):
//   replay: VERIF_LEX_IN has TLC cases {"o":obj,"norm":expected}; every object is built as the real types.Object,
//           written by PDFString() and by appendPDFObject, parsed back by model.ParseObjectContext and the abstract
//           value of the result is compared with norm; mismatches go to VERIF_LEX_OUT.
//   random: VERIF_LEX_N seeded random deeper trees; records {"orig","p1","e1","p2","e2"} go to VERIF_LEX_OUT and
//           are judged by TLC (spec/LexObjTrace.tla).

import (
	"bufio"
	"bytes"
	"context"
	"encoding/json"
	"fmt"
	"math"
	"math/rand"
	"os"
	"sort"
	"strconv"
	"strings"
	"testing"

	"github.com/pdfcpu/pdfcpu/pkg/pdfcpu/model"
	"github.com/pdfcpu/pdfcpu/pkg/pdfcpu/types"
)

type verifLexObj = map[string]any

func verifLexBytes(v any) []byte {
	a, _ := v.([]any)
	b := make([]byte, len(a))
	for i, x := range a {
		b[i] = byte(int(x.(float64)))
	}
	return b
}

func verifLexInts(b []byte) []any {
	r := make([]any, len(b))
	for i, c := range b {
		r[i] = float64(c)
	}
	return r
}

// verifLexBuild: abstract value -> real types.Object (strings are escaped the way pdfcpu stores them).
func verifLexBuild(o verifLexObj) (types.Object, error) {
	switch o["k"] {
	case "null":
		return nil, nil
	case "bool":
		return types.Boolean(o["b"].(bool)), nil
	case "int":
		i, err := strconv.ParseInt(o["s"].(string), 10, 64)
		if err != nil {
			return nil, err
		}
		return types.Integer(int(i)), nil
	case "real":
		f, err := strconv.ParseFloat(fmt.Sprintf("%de%d", int64(o["m"].(float64)), int64(o["e"].(float64))), 64)
		if err != nil {
			return nil, err
		}
		return types.Float(f), nil
	case "bigreal":
		f, err := strconv.ParseFloat(o["t"].(string), 64)
		if err != nil {
			return nil, err
		}
		return types.Float(f), nil
	case "name":
		return types.Name(string(verifLexBytes(o["v"]))), nil
	case "str":
		e, err := types.Escape(string(verifLexBytes(o["v"])))
		if err != nil {
			return nil, err
		}
		return types.StringLiteral(*e), nil
	case "hex":
		return types.NewHexLiteral(verifLexBytes(o["v"])), nil
	case "ref":
		return *types.NewIndirectRef(int(o["n"].(float64)), int(o["g"].(float64))), nil
	case "arr":
		a := types.Array{}
		for _, x := range o["v"].([]any) {
			c, err := verifLexBuild(x.(verifLexObj))
			if err != nil {
				return nil, err
			}
			a = append(a, c)
		}
		return a, nil
	case "dict":
		d := types.NewDict()
		for _, x := range o["v"].([]any) {
			en := x.(verifLexObj)
			c, err := verifLexBuild(en["val"].(verifLexObj))
			if err != nil {
				return nil, err
			}
			d[string(verifLexBytes(en["key"]))] = c
		}
		return d, nil
	}
	return nil, fmt.Errorf("unknown abstract kind %v", o["k"])
}

// verifLexReal: a float64 as abstract real: the decimal with 12 fractional digits without trailing zeros as
// m*10^e; magnitudes from 1e15 (every such float64 is an integer) as shortest-repr token.
func verifLexReal(f float64) verifLexObj {
	if math.IsNaN(f) || math.IsInf(f, 0) || math.Abs(f) >= 1e15 {
		return verifLexObj{"k": "bigreal", "t": strconv.FormatFloat(f, 'g', -1, 64)}
	}
	s := strconv.FormatFloat(f, 'f', 12, 64)
	neg := strings.HasPrefix(s, "-")
	s = strings.TrimPrefix(s, "-")
	dot := strings.IndexByte(s, '.')
	digits := s[:dot] + s[dot+1:]
	e := -(len(s) - dot - 1)
	for len(digits) > 1 && digits[len(digits)-1] == '0' {
		digits = digits[:len(digits)-1]
		e++
	}
	m, err := strconv.ParseInt(digits, 10, 64)
	if err != nil || m > math.MaxInt32 {
		return verifLexObj{"k": "bigreal", "t": strconv.FormatFloat(f, 'f', 12, 64)}
	}
	if m == 0 {
		return verifLexObj{"k": "real", "m": float64(0), "e": float64(0)}
	}
	if neg {
		m = -m
	}
	return verifLexObj{"k": "real", "m": float64(m), "e": float64(e)}
}

// verifLexAbs: parsed real object -> abstract value.
func verifLexAbs(o types.Object) (verifLexObj, error) {
	switch o := o.(type) {
	case nil:
		return verifLexObj{"k": "null"}, nil
	case types.Boolean:
		return verifLexObj{"k": "bool", "b": bool(o)}, nil
	case types.Integer:
		return verifLexObj{"k": "int", "s": strconv.FormatInt(int64(o), 10)}, nil
	case types.Float:
		return verifLexReal(o.Value()), nil
	case types.Name:
		return verifLexObj{"k": "name", "v": verifLexInts([]byte(string(o)))}, nil
	case types.StringLiteral:
		b, err := types.Unescape(o.Value())
		if err != nil {
			return nil, fmt.Errorf("unescape parsed literal: %v", err)
		}
		return verifLexObj{"k": "str", "v": verifLexInts(b)}, nil
	case types.HexLiteral:
		b, err := o.Bytes()
		if err != nil {
			return nil, fmt.Errorf("parsed hex literal: %v", err)
		}
		return verifLexObj{"k": "hex", "v": verifLexInts(b)}, nil
	case types.IndirectRef:
		return verifLexObj{"k": "ref", "n": float64(o.ObjectNumber), "g": float64(o.GenerationNumber)}, nil
	case types.Array:
		v := []any{}
		for _, x := range o {
			c, err := verifLexAbs(x)
			if err != nil {
				return nil, err
			}
			v = append(v, c)
		}
		return verifLexObj{"k": "arr", "v": v}, nil
	case types.Dict:
		keys := make([]string, 0, len(o))
		for k := range o {
			keys = append(keys, k)
		}
		sort.Strings(keys)
		v := []any{}
		for _, k := range keys {
			c, err := verifLexAbs(o[k])
			if err != nil {
				return nil, err
			}
			v = append(v, verifLexObj{"key": verifLexInts([]byte(k)), "val": c})
		}
		return verifLexObj{"k": "dict", "v": v}, nil
	}
	return nil, fmt.Errorf("parsed object of unexpected type %T", o)
}

// verifLexWrite: the two serialisations of obj ("" + error text when a path fails or panics).
func verifLexWrite(obj types.Object) (texts [2]string, errs [2]string) {
	func() {
		defer func() {
			if r := recover(); r != nil {
				errs[0] = fmt.Sprintf("panic: %v", r)
			}
		}()
		if obj == nil {
			texts[0] = "null" // a nil Object has no PDFString method; Dict/Array.PDFString print it like this
			return
		}
		texts[0] = obj.PDFString()
	}()
	func() {
		defer func() {
			if r := recover(); r != nil {
				errs[1] = fmt.Sprintf("panic: %v", r)
			}
		}()
		b, err := appendPDFObject(nil, obj)
		if err != nil {
			errs[1] = err.Error()
			return
		}
		texts[1] = string(b)
	}()
	return
}

// verifLexParse: the real parser on text; the whole text must be consumed.
func verifLexParse(text string) (abs verifLexObj, errText string) {
	defer func() {
		if r := recover(); r != nil {
			abs, errText = nil, fmt.Sprintf("panic: %v", r)
		}
	}()
	s := text
	o, err := model.ParseObjectContext(context.Background(), &s, 0)
	if err != nil {
		return nil, "parse: " + err.Error()
	}
	if strings.TrimSpace(s) != "" {
		return nil, fmt.Sprintf("parse stopped early, %d bytes left", len(s))
	}
	a, err := verifLexAbs(o)
	if err != nil {
		return nil, err.Error()
	}
	return a, ""
}

// verifLexDiff descends into want/got while they have the same shape and returns the first differing pair.
func verifLexDiff(want, got verifLexObj) (verifLexObj, verifLexObj) {
	if want["k"] != got["k"] {
		return want, got
	}
	switch want["k"] {
	case "arr", "dict":
		wv, gv := want["v"].([]any), got["v"].([]any)
		if len(wv) != len(gv) {
			return want, got
		}
		for i := range wv {
			w, g := wv[i].(verifLexObj), gv[i].(verifLexObj)
			if want["k"] == "dict" {
				if verifLexCanon(w["key"]) != verifLexCanon(g["key"]) {
					return want, got
				}
				w, g = w["val"].(verifLexObj), g["val"].(verifLexObj)
			}
			if verifLexCanon(w) != verifLexCanon(g) {
				return verifLexDiff(w, g)
			}
		}
	}
	return want, got
}

func verifLexCanon(v any) string {
	b, _ := json.Marshal(v)
	return string(b)
}

func verifLexKinds(o verifLexObj, into map[string]bool) {
	k, _ := o["k"].(string)
	into[k] = true
	switch k {
	case "arr":
		for _, x := range o["v"].([]any) {
			verifLexKinds(x.(verifLexObj), into)
		}
	case "dict":
		for _, x := range o["v"].([]any) {
			verifLexKinds(x.(verifLexObj)["val"].(verifLexObj), into)
		}
	}
}

func verifLexReplay(t *testing.T, in, out string) {
	f, err := os.Open(in)
	if err != nil {
		t.Fatal(err)
	}
	defer f.Close()
	of, err := os.Create(out)
	if err != nil {
		t.Fatal(err)
	}
	defer of.Close()
	w := bufio.NewWriter(of)
	defer w.Flush()
	sc := bufio.NewScanner(f)
	sc.Buffer(make([]byte, 1<<20), 1<<26)
	n, bad, composite, differ := 0, 0, 0, 0
	perClass := map[string]int{}
	paths := [2]string{"PDFString", "appendPDFObject"}
	for sc.Scan() {
		if len(sc.Bytes()) == 0 {
			continue
		}
		var c struct {
			O    verifLexObj `json:"o"`
			Norm verifLexObj `json:"norm"`
		}
		if err := json.Unmarshal(sc.Bytes(), &c); err != nil {
			t.Fatal(err)
		}
		n++
		if k := c.O["k"]; k == "arr" || k == "dict" {
			composite++
		}
		obj, err := verifLexBuild(c.O)
		if err != nil {
			t.Fatalf("cannot build case %s: %v", sc.Bytes(), err)
		}
		want := verifLexCanon(c.Norm)
		texts, errs := verifLexWrite(obj)
		if texts[0] != texts[1] {
			differ++
		}
		for p := 0; p < 2; p++ {
			what, got, class := "", any(nil), ""
			if errs[p] != "" {
				what, class = "write failed: "+errs[p], "write-error"
			} else if abs, e := verifLexParse(texts[p]); e != "" {
				what, class = e, "parse-error:"+strings.SplitN(e, ",", 2)[0]
			} else if verifLexCanon(abs) != want {
				what, got = "read back a different object", abs
				dw, dg := verifLexDiff(c.Norm, abs)
				class = fmt.Sprintf("%v->%v", dw["k"], dg["k"])
			}
			if what != "" {
				bad++
				perClass[class]++
				if perClass[class] <= 40 {
					b, _ := json.Marshal(map[string]any{"path": paths[p], "what": what, "class": class, "o": c.O, "norm": c.Norm, "got": got, "text": verifLexInts([]byte(texts[p]))})
					w.Write(b)
					w.WriteByte('\n')
				}
			}
		}
	}
	if err := sc.Err(); err != nil {
		t.Fatal(err)
	}
	s, _ := json.Marshal(map[string]any{"cases": n, "bad": bad, "composite": composite, "paths_differ": differ, "classes": perClass})
	fmt.Println("SUMMARY-REPLAY " + string(s))
}

// ---- random deeper trees (code -> TLC)

var verifLexNasty = []byte{'(', ')', '\\', '<', '>', '[', ']', '{', '}', '/', '%', '#', ' ', '\t', '\r', '\n', '\f', 0, 0x7f, 0x80, 0xff, '0', '7', '8', 'n', 'R', 'a'}

func verifLexRandBytes(r *rand.Rand, max int, nul bool) []any {
	n := r.Intn(max + 1)
	b := make([]byte, 0, n)
	for i := 0; i < n; i++ {
		var c byte
		if r.Intn(3) == 0 {
			c = byte(r.Intn(256))
		} else {
			c = verifLexNasty[r.Intn(len(verifLexNasty))]
		}
		if c == 0 && !nul {
			c = '#'
		}
		b = append(b, c)
	}
	return verifLexInts(b)
}

// verifLexRandReal: m*10^e whose nearest float64 has the same 12-digit rounding as the decimal itself, and is
// no tie of that rounding (spec/Lex.tla NormReal rounds half away from zero).
func verifLexRandReal(r *rand.Rand) verifLexObj {
	for {
		m := int64(r.Intn(2_000_001) - 1_000_000)
		e := int64(r.Intn(24) - 17) // -17..6
		if e < 0 {
			// |value| < 100 so that the decimal has at most 14 significant digits down to 1e-12
			if math.Abs(float64(m))*math.Pow(10, float64(e)) >= 100 {
				continue
			}
			if e < -12 {
				p := int64(math.Pow(10, float64(-12-e)))
				rem := m % p
				if rem < 0 {
					rem = -rem
				}
				if 2*rem == p {
					continue // exact tie
				}
			}
		}
		return verifLexObj{"k": "real", "m": float64(m), "e": float64(e)}
	}
}

func verifLexRandTree(r *rand.Rand, depth int) verifLexObj {
	k := r.Intn(12)
	if depth == 0 && k >= 10 {
		k = r.Intn(10)
	}
	switch k {
	case 0:
		return verifLexObj{"k": "null"}
	case 1:
		return verifLexObj{"k": "bool", "b": r.Intn(2) == 0}
	case 2:
		var i int64
		switch r.Intn(4) {
		case 0:
			i = int64(r.Intn(21) - 10)
		case 1:
			i = r.Int63()
		case 2:
			i = -r.Int63() - 1
		default:
			i = int64(r.Intn(1<<31)) - 1<<30
		}
		return verifLexObj{"k": "int", "s": strconv.FormatInt(i, 10)}
	case 3, 4:
		if r.Intn(8) == 0 {
			// mostly 2^50..2^63 (written with up to 19 integer digits), sometimes far beyond
			ex := 50 + r.Intn(13)
			if r.Intn(8) == 0 {
				ex = 63 + r.Intn(900)
			}
			f := math.Ldexp(1+r.Float64(), ex)
			if r.Intn(2) == 0 {
				f = -f
			}
			return verifLexObj{"k": "bigreal", "t": strconv.FormatFloat(f, 'g', -1, 64)}
		}
		return verifLexRandReal(r)
	case 5, 6:
		return verifLexObj{"k": "name", "v": verifLexRandBytes(r, 5, false)}
	case 7:
		return verifLexObj{"k": "str", "v": verifLexRandBytes(r, 8, true)}
	case 8:
		return verifLexObj{"k": "hex", "v": verifLexRandBytes(r, 4, true)}
	case 9:
		return verifLexObj{"k": "ref", "n": float64(r.Intn(1 << 20)), "g": float64(r.Intn(3) * r.Intn(65536))}
	case 10:
		v := []any{}
		for i, n := 0, r.Intn(5); i < n; i++ {
			v = append(v, verifLexRandTree(r, depth-1))
		}
		return verifLexObj{"k": "arr", "v": v}
	default:
		m := map[string]verifLexObj{}
		for i, n := 0, r.Intn(4); i < n; i++ {
			key := string(verifLexBytes(verifLexRandBytes(r, 4, false)))
			m[key] = verifLexRandTree(r, depth-1)
		}
		keys := make([]string, 0, len(m))
		for k := range m {
			keys = append(keys, k)
		}
		sort.Strings(keys)
		v := []any{}
		for _, k := range keys {
			v = append(v, verifLexObj{"key": verifLexInts([]byte(k)), "val": m[k]})
		}
		return verifLexObj{"k": "dict", "v": v}
	}
}

func verifLexRandom(t *testing.T, out string, n int, seed int64) {
	of, err := os.Create(out)
	if err != nil {
		t.Fatal(err)
	}
	defer of.Close()
	w := bufio.NewWriter(of)
	defer w.Flush()
	r := rand.New(rand.NewSource(seed))
	distinct := map[string]bool{}
	kinds := map[string]bool{}
	deep := 0
	for i := 0; i < n; i++ {
		var o verifLexObj
		for {
			o = verifLexRandTree(r, 4)
			if k := o["k"]; k == "arr" || k == "dict" || r.Intn(4) == 0 {
				break
			}
		}
		obj, err := verifLexBuild(o)
		if err != nil {
			t.Fatalf("cannot build %v: %v", o, err)
		}
		rec := map[string]any{"orig": o}
		texts, errs := verifLexWrite(obj)
		for p := 0; p < 2; p++ {
			abs, e := verifLexObj(nil), errs[p]
			if e == "" {
				abs, e = verifLexParse(texts[p])
			}
			if abs == nil {
				abs = verifLexObj{"k": "null"}
			}
			rec[fmt.Sprintf("p%d", p+1)] = abs
			rec[fmt.Sprintf("e%d", p+1)] = e != ""
			rec[fmt.Sprintf("m%d", p+1)] = e
		}
		rec["text"] = verifLexInts([]byte(texts[0]))
		b, _ := json.Marshal(rec)
		w.Write(b)
		w.WriteByte('\n')
		c := verifLexCanon(o)
		if !distinct[c] {
			distinct[c] = true
			if bytes.Count([]byte(c), []byte(`"k":"arr"`))+bytes.Count([]byte(c), []byte(`"k":"dict"`)) >= 2 {
				deep++
			}
		}
		verifLexKinds(o, kinds)
	}
	s, _ := json.Marshal(map[string]any{"cases": n, "distinct": len(distinct), "nested": deep, "kinds": len(kinds)})
	fmt.Println("SUMMARY-RANDOM " + string(s))
}

func TestVerifLexObj(t *testing.T) {
	mode := os.Getenv("VERIF_LEX_MODE")
	switch mode {
	case "replay":
		verifLexReplay(t, os.Getenv("VERIF_LEX_IN"), os.Getenv("VERIF_LEX_OUT"))
	case "random":
		n, _ := strconv.Atoi(os.Getenv("VERIF_LEX_N"))
		seed, _ := strconv.ParseInt(os.Getenv("VERIF_LEX_SEED"), 10, 64)
		verifLexRandom(t, os.Getenv("VERIF_LEX_OUT"), n, seed)
	case "both":
		verifLexReplay(t, os.Getenv("VERIF_LEX_IN"), os.Getenv("VERIF_LEX_OUT"))
		n, _ := strconv.Atoi(os.Getenv("VERIF_LEX_N"))
		seed, _ := strconv.ParseInt(os.Getenv("VERIF_LEX_SEED"), 10, 64)
		verifLexRandom(t, os.Getenv("VERIF_LEX_OUT2"), n, seed)
	default:
		t.Skip("VERIF_LEX_MODE not set")
	}
}
