package primitives

// C30 shim for the remote image of an image box.  See verif_netcommon_test.go for the machinery.
//
// Per case (VERIF_NET_CASES) it
//  1. builds the REAL client with (*PDF).imageBoxHTTPClient() and inspects it (Proxy, CheckRedirect, dial paths);
//  2. runs the REAL fetch path (*ImageBox).resource() with pdf.httpClient = a copy of that client whose transport is
//     a clone of the real transport with DialContext = the REAL imageBoxDialContext around a *net.Dialer whose
//     Control hook records the address and aborts before connect(2); names resolve through net.DefaultResolver,
//     which is Go's resolver over the in-process fake name server;
//  3. probes the dial guard installed in the REAL client (unknown network name, no socket).
//
// History cases (VERIF_NET_MODE=hist) run in a process of their own each: every fetch of the history gets a fresh PDF
// (as every create / form-fill run does), asks it for its client and runs the real fetch path through the guard that
// client really carries (realGuard).
//
// Records go to VERIF_NET_FLOWS and VERIF_NET_PROBES; TLC (spec/NetTrace.tla) judges them.

import (
	"fmt"
	"net"
	"net/http"
	"os"
	"path/filepath"
	"testing"
	"time"
)

func vnetImageFetch(t *testing.T, c vnetCase, realGuard bool) (vnetFlowRec, *http.Transport) {
	realPDF := &PDF{Timeout: 5}
	real := realPDF.imageBoxHTTPClient()
	info, realTr := vnetInspect(real, imageBoxRedirect)
	if realTr == nil {
		t.Fatalf("imageBoxHTTPClient does not use an *http.Transport: the shim has to be adapted")
	}
	run := vnetNewRun(c)
	tr := realTr.Clone()
	if realGuard {
		tr.DialContext = run.wrapHost(run.realGuard(realTr.DialContext))
	} else {
		dialer := &net.Dialer{Timeout: 5 * time.Second, Control: run.control}
		tr.DialContext = run.wrapHost(imageBoxDialContext(dialer))
	}
	client := *real
	client.Transport = &vnetRT{run: run, real: tr}

	pdf := &PDF{Timeout: 5, httpClient: &client}
	ib := &ImageBox{pdf: pdf, Src: c.Hops[0].URL}
	rc, err := ib.resource()
	if rc != nil {
		rc.Close()
	}
	tr.CloseIdleConnections()
	return run.finish(info, fmt.Sprint(err)), realTr
}

func TestVerifNetImageBox(t *testing.T) {
	if one := os.Getenv("VERIF_NET_ONE"); one != "" { // child: the histories of this fresh process
		cases, err := vnetHistChild(one)
		if err != nil {
			t.Fatal(err)
		}
		vnetInstallResolver()
		for _, c := range cases {
			for _, f := range vnetFetches(c) {
				rec, _ := vnetImageFetch(t, f, true)
				vnetPrintRec(rec)
			}
		}
		return
	}
	in, flowsOut, probesOut := os.Getenv("VERIF_NET_CASES"), os.Getenv("VERIF_NET_FLOWS"), os.Getenv("VERIF_NET_PROBES")
	if in == "" || flowsOut == "" || probesOut == "" {
		t.Skip("VERIF_NET_CASES / VERIF_NET_FLOWS / VERIF_NET_PROBES not set")
	}
	cases, err := vnetLoad(in, map[string]bool{"image": true})
	if err != nil {
		t.Fatalf("load cases: %v", err)
	}
	fw, err := vnetCreate(flowsOut)
	if err != nil {
		t.Fatal(err)
	}
	pw, err := vnetCreate(probesOut)
	if err != nil {
		t.Fatal(err)
	}
	if os.Getenv("VERIF_NET_MODE") == "hist" {
		nproc, err := vnetHistParent("TestVerifNetImageBox", cases, fw, filepath.Dir(flowsOut))
		if err != nil {
			t.Fatal(err)
		}
		fw.close()
		pw.close()
		fmt.Printf("SUMMARY {\"flows\":%d,\"probes\":0,\"dns_queries\":0,\"dns_rebinds\":0,\"processes\":%d}\n", fw.n, nproc)
		return
	}
	vnetInstallResolver()
	probed := map[string]bool{}
	for _, c := range cases {
		rec, realTr := vnetImageFetch(t, c, false)
		fw.put(rec)

		for _, hp := range c.Hops {
			if hp.Host == "" {
				continue
			}
			key := fmt.Sprint(hp.Host, "|", hp.Answers)
			if probed[key] {
				continue
			}
			probed[key] = true
			pw.put(vnetProbe(c, hp, vnetDialFunc(realTr.DialContext)))
		}
		realTr.CloseIdleConnections()
	}
	fw.close()
	pw.close()
	fmt.Printf("SUMMARY {\"flows\":%d,\"probes\":%d,\"dns_queries\":%d,\"dns_rebinds\":%d}\n", fw.n, pw.n, vnetQueries, vnetRebinds)
}
