package pdfcpu

// In-package shim for C34: runs the real booklet parser (PDFBookletConfig) and the real unexported getBookletOrdering
// on the configurations enumerated by TLC (spec/ImposeGen.tla) and records the slot lists (judged by spec/ImposeTrace.tla).

import (
	"bufio"
	"encoding/json"
	"fmt"
	"os"
	"testing"

	"github.com/pdfcpu/pdfcpu/pkg/pdfcpu/types"
)

type verifC34Case struct {
	Kind    string `json:"kind"`
	K       int    `json:"k"`
	N       int    `json:"n"`
	BType   string `json:"btype"`
	Binding string `json:"binding"`
	Orient  string `json:"orient"`
	MF      bool   `json:"mf"`
	Folio   int    `json:"folio"`
	First   int    `json:"first"`
	Step    int    `json:"step"`
}

type verifC34Rec struct {
	ID       int    `json:"id"`
	Kind     string `json:"kind"`
	K        int    `json:"k"`
	N        int    `json:"n"`
	MF       bool   `json:"mf"`
	Folio    int    `json:"folio"`
	Sel      []int  `json:"sel"`
	Accepted bool   `json:"accepted"`
	Panic    bool   `json:"panic"`
	Err      string `json:"err"`
	Slots    []int  `json:"slots"`
	Pages    [][]int `json:"pages"`
	Desc     string `json:"desc"`
}

func verifC34Ordering(sel types.IntSet, n int, desc string) (rec verifC34Rec) {
	rec.Slots = []int{}
	rec.Pages = [][]int{}
	nup, err := PDFBookletConfig(n, desc, nil)
	if err != nil {
		rec.Err = err.Error()
		return rec
	}
	// the remaining acceptance rule of the API (pkg/api/booklet.go validateBookletLayout)
	if nup.MultiFolio && nup.FolioSize <= 0 {
		rec.Err = "folio size must be positive"
		return rec
	}
	rec.Accepted = true
	defer func() {
		if e := recover(); e != nil {
			rec.Panic = true
			rec.Err = fmt.Sprintf("panic: %v", e)
			rec.Slots = []int{}
		}
	}()
	for _, bp := range getBookletOrdering(sel, nup) {
		rec.Slots = append(rec.Slots, bp.Number)
	}
	return rec
}

func TestVerifC34(t *testing.T) {
	in, out := os.Getenv("VERIF_C34_IN"), os.Getenv("VERIF_C34_OUT")
	if in == "" || out == "" {
		t.Skip("VERIF_C34_IN / VERIF_C34_OUT not set")
	}
	fi, err := os.Open(in)
	if err != nil {
		t.Fatal(err)
	}
	defer fi.Close()
	fo, err := os.Create(out)
	if err != nil {
		t.Fatal(err)
	}
	defer fo.Close()
	w := bufio.NewWriterSize(fo, 1<<20)
	defer w.Flush()
	sc := bufio.NewScanner(fi)
	sc.Buffer(make([]byte, 1<<20), 1<<26)
	id, n, acc, pan := 0, 0, 0, 0
	for sc.Scan() {
		id++
		var c verifC34Case
		if err := json.Unmarshal(sc.Bytes(), &c); err != nil {
			t.Fatal(err)
		}
		if c.Kind != "booklet" {
			continue
		}
		desc := fmt.Sprintf("papersize:A4%s, btype:%s, binding:%s", c.Orient, c.BType, c.Binding)
		if c.MF {
			desc += fmt.Sprintf(", multifolio:on, foliosize:%d", c.Folio)
		}
		sel := types.IntSet{}
		pages := make([]int, c.K)
		for i := 0; i < c.K; i++ {
			pages[i] = c.First + c.Step*i
			sel[pages[i]] = true
		}
		// entries with value false are not selected
		sel[c.First+c.Step*c.K] = false
		rec := verifC34Ordering(sel, c.N, desc)
		rec.ID, rec.Kind, rec.K, rec.N, rec.MF, rec.Folio, rec.Sel, rec.Desc = id, "booklet", c.K, c.N, c.MF, c.Folio, pages, desc
		b, _ := json.Marshal(rec)
		w.Write(b)
		w.WriteByte('\n')
		n++
		if rec.Accepted {
			acc++
		}
		if rec.Panic {
			pan++
		}
	}
	if err := sc.Err(); err != nil {
		t.Fatal(err)
	}
	fmt.Printf("SUMMARY {\"booklet_cases\":%d,\"accepted\":%d,\"panics\":%d}\n", n, acc, pan)
}
