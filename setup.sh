#!/bin/sh
# Offline setup: generate the os overlay, warm the Go build cache with one harness binary, parse every spec module.
set -e
cd "$(dirname "$0")"
export GOFLAGS=-mod=mod GOPROXY=off GOSUMDB=off GOTOOLCHAIN=local
python3 tools/osovl/gen.py build/osovl
python3 - <<'PY'
import sys, os, glob
sys.path.insert(0, "lib")
import vlib
vlib.build_bin("c31")
for f in sorted(glob.glob("spec/*.tla")):
    vlib.sany(os.path.basename(f)[:-4])
print("setup ok")
PY
