#!/bin/sh
# Offline setup: generate the os overlay, warm the Go build cache with the harness binaries, parse the spec modules.
set -e
cd "$(dirname "$0")"
export GOFLAGS=-mod=mod GOPROXY=off GOSUMDB=off GOTOOLCHAIN=local
python3 tools/osovl/gen.py build/osovl
python3 - <<'PY'
import sys, os, glob, json
sys.path.insert(0, "lib")
import vlib
failed = []
for d in sorted(os.listdir("harness/cmd")):
    if d == "probe":
        continue
    try:
        vlib.build_bin(d)
    except Exception as e:           # a broken command only affects its own check
        failed.append(d)
        print("setup: WARNING build of harness/cmd/%s failed: %s" % (d, str(e)[-300:]))
try:
    vlib.build_cli()
except Exception as e:
    print("setup: WARNING CLI build failed: %s" % str(e)[-300:])
bad = []
for f in sorted(glob.glob("spec/*.tla")):
    m = os.path.basename(f)[:-4]
    try:
        vlib.sany(m)
    except Exception as e:
        bad.append(m)
print("setup: modules not parsed stand-alone (need generated or proof-system modules): %s" % bad)
if "c31" in failed or "fsops" in failed:
    sys.exit("setup: core harness commands do not build")
print("setup ok")
PY
