SPECIFICATION Spec
CONSTANTS
  Kinds = {"pkcs7", "cades", "sha1", "x509", "dts"}
  Sizes = {"small", "large"}
  MaxLen = 3
INVARIANTS HistoryFree Emit
