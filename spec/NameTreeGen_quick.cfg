SPECIFICATION Spec
CONSTANTS
  NB = 5
  OpKinds = {"addu", "rem"}
  MaxLen = 5
  MaxLevel = 6
  Inits = {"empty"}
  Patterns = {"rand"}
  Keeps = {FALSE}
  Emit = "state"
INVARIANTS EmitCase
