SPECIFICATION Spec
CONSTANTS
  RAlgs = {"rc4_40", "rc4_128", "aes_128", "aes_256", "aes_256_r6"}
  UClasses = {"empty", "ascii", "space", "blank", "unicode", "saslprep", "long40", "long130"}
  OClasses = {"ascii", "space", "blank", "unicode", "saslprep", "long40", "long130", "same"}
  Star = FALSE
  FewPerms = {{}, {3, 12}, {5, 10}, {3, 4, 5, 6, 9, 10, 11, 12}}
  ManyPerms <- AllPermSets
  Corpus = {"rich_objstm", "testWithText.pdf", "annotTest.pdf", "Acroforms2.pdf", "Hybrid-PDF.pdf", "zineTest.pdf", "T6.pdf", "bookletTestA6.pdf", "OptimizeTest.pdf", "test.pdf"}
  Emit = TRUE
INVARIANTS RoundTrip EmitCase
