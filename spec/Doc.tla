-------------------------------- MODULE Doc --------------------------------
(* The abstract document machine: what the pdfcpu API operations mean for a document.       *)
(*                                                                                          *)
(* State                                                                                    *)
(*   pages    sequence of pages [mark, bid, rot, media, crop, trim, bleed, art] plus the     *)
(*            bookkeeping fields cinh, pcrop, omedia                                        *)
(*            (inheritance through the page tree is resolved: every page carries its        *)
(*            effective rotation and boxes; NoBox = the box is absent and defaults)         *)
(*   nblank   number of blank pages created so far (blank pages get bid = 1, 2, ...)        *)
(*   keywords set of keyword texts                                                          *)
(*   props    partial function  property name -> text                                       *)
(*   layout, mode   option values ("" = not set)                                            *)
(*   vprefs   partial function  viewer preference name -> value                             *)
(*   attach   partial function  attachment name -> [data, desc]                             *)
(*   res      outcome of the last action: "ok" (must succeed with exactly the new state) or *)
(*            "refuse" (the request cannot be honoured: the implementation must either       *)
(*            return an error or leave the document as it was)                              *)
(*   ext      what the last AttExtract delivered (set of [name, data])                      *)
(*                                                                                          *)
(* Page selections are evaluated with the C31 reference model (Sel.tla via SelOps).         *)
(* Pure operators (suffix P) work on page lists so that split / merge (several documents)   *)
(* can use them too; the actions below lift them to the state.                              *)
EXTENDS Integers, Sequences, FiniteSets, TLC, SequencesExt, SelOps

VARIABLES pages, nblank, keywords, props, layout, mode, vprefs, attach, res, ext
pagevars == <<pages, nblank>>
metavars == <<keywords, props, layout, mode, vprefs, attach, ext>>
docvars  == <<pages, nblank, keywords, props, layout, mode, vprefs, attach, res, ext>>

Min2(a, b) == IF a < b THEN a ELSE b
Max2(a, b) == IF a > b THEN a ELSE b
EmptyFn    == [x \in {} |-> 0]
Overlay(f, g) == [x \in DOMAIN f \cup DOMAIN g |-> IF x \in DOMAIN g THEN g[x] ELSE f[x]]
FnKeep(f, S) == [x \in S |-> f[x]]

---------------------------------------------------------------------------
(* Boxes and pages *)
NoBox == <<>>
IsBox(b) == b # NoBox
Inset(b, m) == <<b[1] + m, b[2] + m, b[3] - m, b[4] - m>>

(* cinh / pcrop / omedia are bookkeeping about where boxes live in the file (cinh: the page's crop box comes  *)
(* from an ancestor; pcrop: some ancestor Pages node defines a crop box; omedia: the page defines its own     *)
(* media box); they never influence a value, they only delimit the documents the model talks about (Ambig).   *)
Page(mark, rot, media, crop, cinh, pcrop, omedia) ==
  [mark |-> mark, bid |-> 0, rot |-> rot % 360, media |-> media, crop |-> crop,
   trim |-> NoBox, bleed |-> NoBox, art |-> NoBox, cinh |-> cinh, pcrop |-> pcrop, omedia |-> omedia]
(* A blank page: no content; its MediaBox is the effective MediaBox of the page it was inserted for.     *)
(* Its rotation at birth is not specified by the operation (rot counts the rotation applied afterwards). *)
Blank(bid, media, pcrop) ==
  [mark |-> "", bid |-> bid, rot |-> 0, media |-> media, crop |-> NoBox,
   trim |-> NoBox, bleed |-> NoBox, art |-> NoBox, cinh |-> FALSE, pcrop |-> pcrop, omedia |-> TRUE]

(* effective boxes: crop defaults to media; trim, bleed, art default to crop *)
EffCrop(p)  == IF IsBox(p.crop) THEN p.crop ELSE p.media
EffTrim(p)  == IF IsBox(p.trim) THEN p.trim ELSE EffCrop(p)
EffBleed(p) == IF IsBox(p.bleed) THEN p.bleed ELSE EffCrop(p)
EffArt(p)   == IF IsBox(p.art) THEN p.art ELSE EffCrop(p)

(* A document tree as it is written to the file: root Pages node [media, rot, groups]; a group is either *)
(* an intermediate Pages node (node = TRUE) with optional inheritable rot/media/crop, or a run of pages   *)
(* directly below the root; pages have optional own rot/media/crop.  rot = -1: no /Rotate entry.          *)
TreePages(t) ==
  LET eff(g, p) ==
        LET rot   == IF p.rot >= 0 THEN p.rot ELSE IF g.node /\ g.rot >= 0 THEN g.rot ELSE IF t.rot >= 0 THEN t.rot ELSE 0
            media == IF IsBox(p.media) THEN p.media ELSE IF g.node /\ IsBox(g.media) THEN g.media ELSE t.media
            crop  == IF IsBox(p.crop) THEN p.crop ELSE IF g.node /\ IsBox(g.crop) THEN g.crop ELSE NoBox
        IN Page(p.mark, rot, media, crop, ~IsBox(p.crop) /\ IsBox(crop), g.node /\ IsBox(g.crop), IsBox(p.media))
  IN FlattenSeq([i \in 1..Len(t.groups) |->
                  [j \in 1..Len(t.groups[i].pages) |-> eff(t.groups[i], t.groups[i].pages[j])]])
(* Documents the model talks about: no page that defines its own MediaBox, has no CropBox of its own and   *)
(* sits below a Pages node with a CropBox.  (ISO 32000 lets it inherit that CropBox clipped to its MediaBox; *)
(* pdfcpu's XRefTable.PageBoundaries treats the CropBox as reset by the MediaBox while PageDict's inherited   *)
(* attributes keep it - the effective box of such a page is not well defined inside pdfcpu.)                  *)
Ambig(p) == p.omedia /\ p.pcrop /\ (~IsBox(p.crop) \/ p.cinh)
Unambiguous(ps) == \A i \in 1..Len(ps) : ~Ambig(ps[i])

---------------------------------------------------------------------------
(* Page operations on a page list ps; S is a set of page numbers, lst a list of page numbers. *)
InsertBlankP(ps, S, before, nb) ==
  LET piece(i) == IF i \in S
                    THEN LET b == Blank(nb + Cardinality({j \in S : j <= i}), ps[i].media, ps[i].pcrop)
                         IN IF before THEN <<b, ps[i]>> ELSE <<ps[i], b>>
                    ELSE <<ps[i]>>
  IN FlattenSeq([i \in 1..Len(ps) |-> piece(i)])

(* pages that went through an extraction carry their attributes themselves afterwards *)
Own(p)          == [p EXCEPT !.cinh = FALSE, !.pcrop = FALSE, !.omedia = TRUE]
KeepP(ps, S)    == LET a == SelAsc(S \cap (1..Len(ps))) IN [i \in 1..Len(a) |-> Own(ps[a[i]])]
CollectP(ps, l) == [i \in 1..Len(l) |-> Own(ps[l[i]])]
RotateP(ps, S, r) == [i \in 1..Len(ps) |-> IF i \in S THEN [ps[i] EXCEPT !.rot = (@ + r) % 360] ELSE ps[i]]

(* Box specifications of "boxes add": for each of media, crop, trim, bleed, art one of                         *)
(*   none                   the box is not mentioned                                                            *)
(*   rect r                 an absolute rectangle                                                               *)
(*   marg <<t, r, b, l>>    margins (points) to the parent box: the media box is the parent of the crop box,    *)
(*                          the (effective) crop box is the parent of trim, bleed and art box                   *)
(*   ref name               trim/bleed/art only: the position of another box ("media", "crop", "trim", ...),    *)
(*                          taken after the definitions of this request, an absent box standing for its default *)
SpecNone        == [k |-> "none", r |-> NoBox, m |-> <<0, 0, 0, 0>>, ref |-> ""]
SpecRect(r)     == [k |-> "rect", r |-> r, m |-> <<0, 0, 0, 0>>, ref |-> ""]
SpecMarg(t, r, b, l) == [k |-> "marg", r |-> NoBox, m |-> <<t, r, b, l>>, ref |-> ""]
SpecRef(name)   == [k |-> "ref", r |-> NoBox, m |-> <<0, 0, 0, 0>>, ref |-> name]
Given(sp)       == sp.k # "none"
ApplySpec(sp, parent) == IF sp.k = "rect" THEN sp.r
                         ELSE <<parent[1] + sp.m[4], parent[2] + sp.m[3], parent[3] - sp.m[2], parent[4] - sp.m[1]>>
BoxByName(p, name) == CASE name = "media" -> p.media [] name = "crop" -> EffCrop(p) [] name = "trim" -> EffTrim(p)
                        [] name = "bleed" -> EffBleed(p) [] name = "art" -> EffArt(p)
AddBoxesPage(p, pb) ==
  LET p1 == [p EXCEPT !.media  = IF Given(pb.media) THEN ApplySpec(pb.media, p.media) ELSE @,
                      !.omedia = IF Given(pb.media) THEN TRUE ELSE @,
                      !.crop   = IF Given(pb.crop) THEN ApplySpec(pb.crop, p.media) ELSE @,
                      !.cinh   = IF Given(pb.crop) THEN FALSE ELSE @]
      par == EffCrop(p1)
      def(sp, cur) == IF sp.k \in {"rect", "marg"} THEN ApplySpec(sp, par) ELSE cur
      p2 == [p1 EXCEPT !.trim = def(pb.trim, @), !.bleed = def(pb.bleed, @), !.art = def(pb.art, @)]
      p3 == [p2 EXCEPT !.trim  = IF pb.trim.k  = "ref" THEN BoxByName(p2, pb.trim.ref)  ELSE @]
      p4 == [p3 EXCEPT !.bleed = IF pb.bleed.k = "ref" THEN BoxByName(p3, pb.bleed.ref) ELSE @]
  IN    [p4 EXCEPT !.art   = IF pb.art.k   = "ref" THEN BoxByName(p4, pb.art.ref)   ELSE @]
AddBoxesP(ps, S, pb) == [i \in 1..Len(ps) |-> IF i \in S THEN AddBoxesPage(ps[i], pb) ELSE ps[i]]
(* kinds \subseteq {"crop","trim","bleed","art"}: a removed crop box defaults to the media box, *)
(* removed trim/bleed/art boxes default to the crop box                                         *)
RemoveBoxesP(ps, S, kinds) ==
  [i \in 1..Len(ps) |-> IF i \notin S THEN ps[i] ELSE
     [ps[i] EXCEPT !.crop  = IF "crop"  \in kinds THEN NoBox ELSE @,
                   !.cinh  = IF "crop"  \in kinds THEN FALSE ELSE @,
                   !.trim  = IF "trim"  \in kinds THEN NoBox ELSE @,
                   !.bleed = IF "bleed" \in kinds THEN NoBox ELSE @,
                   !.art   = IF "art"   \in kinds THEN NoBox ELSE @]]
(* arg = [kind |-> "rect", r |-> box, m |-> 0] or [kind |-> "margin", r |-> NoBox, m |-> points] *)
CropP(ps, S, arg) ==
  [i \in 1..Len(ps) |-> IF i \notin S THEN ps[i] ELSE
     [ps[i] EXCEPT !.crop = IF arg.kind = "rect" THEN arg.r ELSE Inset(ps[i].media, arg.m), !.cinh = FALSE]]

(* which pages an action acts on: an absent selection means all pages where the API says so *)
SelOrAll(n, ts)  == IF ts = <<>> THEN 1..n ELSE SelSelected(n, ts)
SelOrNone(n, ts) == IF ts = <<>> THEN {} ELSE SelSelected(n, ts)

InsertBlank(ts, before) ==
  LET S == SelOrAll(Len(pages), ts) IN
  /\ pages' = InsertBlankP(pages, S, before, nblank) /\ nblank' = nblank + Cardinality(S)
  /\ res' = "ok" /\ UNCHANGED metavars
RemovePages(ts) ==
  LET R == (1..Len(pages)) \ SelOrNone(Len(pages), ts) IN
  /\ IF R = {} THEN res' = "refuse" /\ UNCHANGED pages ELSE res' = "ok" /\ pages' = KeepP(pages, R)
  /\ UNCHANGED <<nblank, metavars>>
Trim(ts) ==
  LET S == SelOrNone(Len(pages), ts) IN
  /\ IF S = {} THEN res' = "refuse" /\ UNCHANGED pages ELSE res' = "ok" /\ pages' = KeepP(pages, S)
  /\ UNCHANGED <<nblank, metavars>>
Collect(ts) ==
  LET l == SelCollected(Len(pages), ts) IN
  /\ IF l = <<>> THEN res' = "refuse" /\ UNCHANGED pages ELSE res' = "ok" /\ pages' = CollectP(pages, l)
  /\ UNCHANGED <<nblank, metavars>>
Rotate(ts, r)   == pages' = RotateP(pages, SelOrAll(Len(pages), ts), r) /\ res' = "ok" /\ UNCHANGED <<nblank, metavars>>
AddBoxes(ts, pb) == pages' = AddBoxesP(pages, SelOrAll(Len(pages), ts), pb) /\ res' = "ok" /\ UNCHANGED <<nblank, metavars>>
RemoveBoxes(ts, kinds) == pages' = RemoveBoxesP(pages, SelOrAll(Len(pages), ts), kinds) /\ res' = "ok" /\ UNCHANGED <<nblank, metavars>>
Crop(ts, arg)   == pages' = CropP(pages, SelOrAll(Len(pages), ts), arg) /\ res' = "ok" /\ UNCHANGED <<nblank, metavars>>

---------------------------------------------------------------------------
(* Split and merge on page lists *)
CeilDiv(a, b) == (a + b - 1) \div b
(* split every span pages: parts as <<from, thru>> in output order *)
SplitSpans(n, span) == [k \in 1..CeilDiv(n, span) |-> <<(k - 1) * span + 1, Min2(k * span, n)>>]
(* split before the given page numbers: strictly increasing, the first one within 2..n; numbers beyond n do not cut *)
SplitNrsOK(n, nrs) == /\ Len(nrs) >= 1 /\ nrs[1] >= 2 /\ nrs[1] <= n
                      /\ \A i \in 2..Len(nrs) : nrs[i] > nrs[i - 1]
SplitAtSpans(n, nrs) ==
  LET starts == <<1>> \o SelectSeq(nrs, LAMBDA x : x <= n)
  IN [k \in 1..Len(starts) |-> <<starts[k], IF k < Len(starts) THEN starts[k + 1] - 1 ELSE n>>]
PartOf(ps, sp)  == SubSeq(ps, sp[1], sp[2])
ConcatParts(ps, spans) == FlattenSeq([k \in 1..Len(spans) |-> PartOf(ps, spans[k])])
(* merge: concatenation, a divider page dv between two documents only if requested *)
MergeP(docs, divider, dv) ==
  docs[1] \o FlattenSeq([i \in 1..(Len(docs) - 1) |-> (IF divider THEN <<dv>> ELSE <<>>) \o docs[i + 1]])
(* zip: 1A 1B 2A 2B ... then the rest of the longer one *)
ZipP(a, b) ==
  LET m == Min2(Len(a), Len(b))
  IN FlattenSeq([i \in 1..m |-> <<a[i], b[i]>>]) \o SubSeq(a, m + 1, Len(a)) \o SubSeq(b, m + 1, Len(b))

---------------------------------------------------------------------------
(* Metadata as a key/value store.                                                                          *)
(* A keyword token is [text, parts, key]: text is what the caller passes; the stored form of the keyword   *)
(* list is ONE separator-joined string, so adding text yields the keywords parts (text split at , and ;    *)
(* and trimmed), and removal matches the trimmed text key against single keywords.                          *)
KwAdd(toks) == keywords' = keywords \cup UNION {t.parts : t \in toks} /\ res' = "ok"
               /\ UNCHANGED <<pagevars, props, layout, mode, vprefs, attach, ext>>
KwRemove(toks) ==
  LET hit == keywords \cap {t.key : t \in toks} IN
  /\ IF hit = {} THEN res' = "refuse" /\ UNCHANGED keywords ELSE res' = "ok" /\ keywords' = keywords \ hit
  /\ UNCHANGED <<pagevars, props, layout, mode, vprefs, attach, ext>>
KwRemoveAll == /\ keywords' = {} /\ res' = (IF keywords = {} THEN "refuse" ELSE "ok")
               /\ UNCHANGED <<pagevars, props, layout, mode, vprefs, attach, ext>>

PropAdd(m) == props' = Overlay(props, m) /\ res' = "ok"
              /\ UNCHANGED <<pagevars, keywords, layout, mode, vprefs, attach, ext>>
PropRemove(ks) ==
  LET hit == ks \cap DOMAIN props IN
  /\ IF hit = {} THEN res' = "refuse" /\ UNCHANGED props ELSE res' = "ok" /\ props' = FnKeep(props, DOMAIN props \ hit)
  /\ UNCHANGED <<pagevars, keywords, layout, mode, vprefs, attach, ext>>
PropRemoveAll == /\ props' = EmptyFn /\ res' = (IF DOMAIN props = {} THEN "refuse" ELSE "ok")
                 /\ UNCHANGED <<pagevars, keywords, layout, mode, vprefs, attach, ext>>

SetLayout(v) == layout' = v  /\ res' = "ok" /\ UNCHANGED <<pagevars, keywords, props, mode, vprefs, attach, ext>>
ResetLayout  == layout' = "" /\ res' = "ok" /\ UNCHANGED <<pagevars, keywords, props, mode, vprefs, attach, ext>>
SetMode(v)   == mode' = v    /\ res' = "ok" /\ UNCHANGED <<pagevars, keywords, props, layout, vprefs, attach, ext>>
ResetMode    == mode' = ""   /\ res' = "ok" /\ UNCHANGED <<pagevars, keywords, props, layout, vprefs, attach, ext>>
(* setting viewer preferences overlays the given ones on the existing ones *)
SetVP(m)     == vprefs' = Overlay(vprefs, m) /\ res' = "ok" /\ UNCHANGED <<pagevars, keywords, props, layout, mode, attach, ext>>
ResetVP      == vprefs' = EmptyFn /\ res' = "ok" /\ UNCHANGED <<pagevars, keywords, props, layout, mode, attach, ext>>

(* m : name -> [data, desc]; names that are already attached are outside the model (see Doc35) *)
AttAdd(m) == /\ DOMAIN m \cap DOMAIN attach = {} /\ DOMAIN m # {}
             /\ attach' = Overlay(attach, m) /\ res' = "ok"
             /\ UNCHANGED <<pagevars, keywords, props, layout, mode, vprefs, ext>>
AttRemove(ns) ==
  /\ IF ns \subseteq DOMAIN attach /\ ns # {} THEN res' = "ok" /\ attach' = FnKeep(attach, DOMAIN attach \ ns)
                                               ELSE res' = "refuse" /\ UNCHANGED attach
  /\ UNCHANGED <<pagevars, keywords, props, layout, mode, vprefs, ext>>
AttRemoveAll == /\ attach' = EmptyFn /\ res' = (IF DOMAIN attach = {} THEN "refuse" ELSE "ok")
                /\ UNCHANGED <<pagevars, keywords, props, layout, mode, vprefs, ext>>
(* extraction delivers exactly the bytes that were added, for the requested names that exist ({} = all) *)
AttExtract(ns) ==
  LET want == IF ns = {} THEN DOMAIN attach ELSE ns \cap DOMAIN attach IN
  /\ ext' = {[name |-> n, data |-> attach[n].data] : n \in want}
  /\ res' = (IF DOMAIN attach = {} THEN "refuse" ELSE "ok")
  /\ UNCHANGED <<pagevars, keywords, props, layout, mode, vprefs, attach>>

(* Configuration switches of the implementation (optimisation passes, writer layout): they never change the *)
(* abstract state - every action means the same under every configuration.                                *)
Conf(opt, optbw, resdicts, dupcs, objstm, xrefstm) ==
  [optimize |-> opt, optbw |-> optbw, resdicts |-> resdicts, dupcs |-> dupcs, objstm |-> objstm, xrefstm |-> xrefstm]
Confs == <<Conf(TRUE, TRUE, TRUE, FALSE, TRUE, TRUE),      \* the defaults
           Conf(TRUE, TRUE, TRUE, TRUE, TRUE, TRUE),       \* + duplicate content stream optimisation
           Conf(FALSE, FALSE, FALSE, FALSE, FALSE, FALSE), \* no optimisation, classic xref table, no object streams
           Conf(TRUE, FALSE, FALSE, TRUE, FALSE, TRUE)>>   \* optimise after reading only, xref stream without object streams

DocInit(ps) == /\ pages = ps /\ nblank = 0 /\ keywords = {} /\ props = EmptyFn /\ layout = "" /\ mode = ""
               /\ vprefs = EmptyFn /\ attach = EmptyFn /\ res = "ok" /\ ext = {}

(* what listing the document must return, in a form that serialises uniformly *)
FnList(f) == SetToSeq({[k |-> x, v |-> f[x]] : x \in DOMAIN f})
Listing == [kw |-> SetToSeq(keywords), props |-> FnList(props), layout |-> layout, mode |-> mode, vp |-> FnList(vprefs),
            att |-> SetToSeq({[name |-> n, desc |-> attach[n].desc, data |-> attach[n].data] : n \in DOMAIN attach}),
            ext |-> SetToSeq(ext)]
=============================================================================
