SPECIFICATION Spec
CONSTANTS
  Mode = "bfs"
  Ns = {4}
  Shapes = {3,4,5}
  MaxLen = 3
  MaxPages = 40
  Alpha = "small"
  Emit = TRUE
INVARIANTS TreesOK PagesOK StepSane EmitCase
