SPECIFICATION Spec
CONSTANTS
  MaxK = 40
  KStride = 1
  Ns = {2, 4, 6, 8}
  BTypes = {"booklet", "bookletadvanced", "perfectbound"}
  Bindings = {"long", "short"}
  Orients = {"P", "L"}
  Folios = {1, 2, 3, 5, 8, 12}
  NUpNs = {2, 3, 4, 8, 9, 12, 16}
  GridMax = 5
  NUpKs = {1, 2, 3, 5, 8, 9, 13, 16, 17, 25, 33, 40}
  FileKs = {1, 3, 5, 8, 9, 17}
  FileFolios = {2}
  Emit = TRUE
INVARIANT EmitCase
