SPECIFICATION Spec
CONSTANTS
  NPs = {2}
  MaxFields = 3
  Later = {"tx", "sigK", "grp"}
  IndDims = {"perms", "fields"}
INVARIANTS KeepDisjoint NoSigNoPerms FlagsDoNotSign Emit
