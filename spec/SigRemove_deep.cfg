SPECIFICATION Spec
CONSTANTS
  NPs = {2}
  MaxFields = 3
  Later = {"tx"}
  IndDims = {}
INVARIANTS KeepDisjoint NoSigNoPerms FlagsDoNotSign Emit
