SPECIFICATION Spec
CONSTANTS
  NPs = {2}
  MaxFields = 3
  Later = {"tx"}
  IndDims = {}
  OthCfgs = {"dirL", "mix"}
INVARIANTS KeepDisjoint NoSigNoPerms FlagsDoNotSign Emit
