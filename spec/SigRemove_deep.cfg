SPECIFICATION Spec
CONSTANTS
  NPs = {2}
  MaxFields = 3
  Later = {"tx", "sigK", "grp"}
INVARIANTS KeepDisjoint NoSigNoPerms Emit
