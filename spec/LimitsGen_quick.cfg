SPECIFICATION Spec
CONSTANTS
  MaxStages = 3
  Stage3Mod = 7
  Seed = 1
  DecodeLimits = {4096, 65536}
  FlOnlyLimits = {1048576}
  X100Max1 = 1048576
  X100Skip = {65536}
  X100MaxN = 4096
  StreamLimits = {4096, 65536}
  IndexLimits = {1000, 100000}
  IndexParts = {2, 200}
  CountLimits = {50, 1000}
  Containers = {"content", "objstm", "xref", "image"}
  Emit = TRUE
INVARIANTS TargetBeyondIffClass EmitCase
