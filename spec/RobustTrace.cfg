SPECIFICATION Spec
INVARIANT RecordOK
POSTCONDITION TraceAccepted
CHECK_DEADLOCK FALSE
