SPECIFICATION Spec
CONSTANTS
  Loaders = {l1, l2}
  LoadsEach = 2
  Mutation = "import"
INVARIANTS Coherent MutexOK
