----------------------------- MODULE LexDateTrace -----------------------------
(* C14: judges records of the real DateString / strict DateTime.                     *)
(* r = input fields y mo d h mi s off(minutes), str = bytes written, ok = accepted   *)
(* by strict parsing, py..ps pns poff(seconds) = the parsed time in its own zone.    *)
(* zn = zone name of the input time's location; hid/pos = history (one process) and  *)
(* position of the call in it ("" / 0 for calls made in the common process).         *)
(* kind "e2e": the time was stored as modification date of an attachment in a real   *)
(* PDF; ok = the attachment was listed with a date, py.. = that date.                *)
EXTENDS Lex, TLC, Json
Trace == ndJsonDeserialize("records.ndjson")
VARIABLE l
Init == l = 1
Next == l <= Len(Trace) /\ l' = l + 1
Spec == Init /\ [][Next]_l

In(r) == [y |-> r.y, mo |-> r.mo, d |-> r.d, h |-> r.h, mi |-> r.mi, s |-> r.s, off |-> r.off]
Parsed(r) == [y |-> r.py, mo |-> r.pmo, d |-> r.pd, h |-> r.ph, mi |-> r.pmi, s |-> r.ps]
Same(r) == (IF r.pmo \notin 1..12 \/ r.pns # 0 \/ InstantS(Parsed(r), r.poff) # Instant(In(r)) THEN {"instant"} ELSE {}) \cup
           (IF r.poff # r.off * 60 THEN {"offset"} ELSE {})
FailsUnit(r) ==
  (IF ~ValidISODate(r.str) THEN {"invalid-string"}
   ELSE IF Len(r.str) < 22 \/ DateFields(r.str) # In(r) THEN {"string-denotes-other-time"} ELSE {}) \cup
  (IF ~r.ok THEN {"rejected"} ELSE Same(r))
FailsE2E(r) == IF ~r.ok THEN {"e2e-lost"} ELSE Same(r)
Fails(r) == IF r.kind = "e2e" THEN FailsE2E(r) ELSE FailsUnit(r)

Judge == l <= Len(Trace) =>
  LET r == Trace[l] f == Fails(r) IN
  f # {} => PrintT(<<"BAD", ToJson([why |-> f, rec |-> r])>>)
TraceAccepted == TLCGet("stats").diameter = Len(Trace) + 1
=============================================================================
