----------------------------- MODULE RobustOps -----------------------------
(* Outcome contract of "malformed input never crashes, overflows the stack or hangs" (C08),      *)
(* shared by the shape model (Robust.tla) and the judge of recorded executions (RobustTrace.tla). *)
(* An operation on any input ends with a result or an error; everything else is a violation:     *)
(*   panic            a panic escaped the API (fault.Catch converts only fault.Panic values)      *)
(*   stack-overflow   the goroutine stack (lowered with debug.SetMaxStack) was exhausted          *)
(*   timeout          no return within the wall clock bound proportional to the input size        *)
(*   oom / crash      the process died otherwise                                                  *)
EXTENDS Integers, Sequences, FiniteSets

Good == {"ok", "error"}
(* "notrun": after two operations ran out of their time budget on one input the remaining operations on   *)
(* that input are not executed; they are not judged (the input is already a reported violation).          *)
NotJudged == {"notrun"}
Outcomes == Good \cup NotJudged \cup {"panic", "stack-overflow", "timeout", "oom", "crash"}
BrokenOps(outs) == {i \in 1..Len(outs) : outs[i] \notin Good \cup NotJudged}
=============================================================================
