SPECIFICATION Spec
CONSTANT Prop = "C16"
INVARIANT RecordOK
POSTCONDITION TraceAccepted
CHECK_DEADLOCK FALSE
