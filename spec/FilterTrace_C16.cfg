SPECIFICATION Spec
CONSTANTS
  Prop = "C16"
  Chunk = 250
INVARIANT RecordOK
POSTCONDITION TraceAccepted
CHECK_DEADLOCK FALSE
