------------------------------ MODULE SafeMath ------------------------------
(* Transcription of pkg/pdfcpu/safemath/int.go (AddInt, MultiplyInt, MultiplyInt64), parametric in   *)
(* the largest representable value M (M = 2^(w-1)-1 for a w-bit Go integer).                          *)
(*   Add/Mul   : the guards evaluated with unbounded integers.                                        *)
(*   MAdd/MMul : the guards and results evaluated with Go machine arithmetic: every +, -, *, / result *)
(*               is wrapped into the two's complement word -M-1..M (Wrap), / truncates (TDiv).        *)
(*   ExactAdd/ExactMul : the property - exact result iff both operands are non-negative and the       *)
(*               result fits, overflow otherwise.                                                     *)
(* SafeMath_proofs.tla proves Add = ExactAdd, Mul = ExactMul on all integers and MAdd = ExactAdd,     *)
(* MMul = ExactMul on all words, for every M >= 1 (TLAPS).  SafeMathMC.tla checks the same with TLC   *)
(* for small M and enumerates the case classes; SafeMathTrace.tla judges 64-bit records of the real   *)
(* functions.                                                                                         *)
EXTENDS Integers

Ovf    == [ok |-> FALSE, v |-> 0]
Val(x) == [ok |-> TRUE, v |-> x]

(* func AddInt(a, b int):  if a < 0 || b < 0 || a > math.MaxInt-b { return 0, err }; return a + b, nil *)
Add(M, a, b) == IF a < 0 \/ b < 0 \/ a > M - b THEN Ovf ELSE Val(a + b)
(* func MultiplyInt(a, b): if a < 0 || b < 0 || a != 0 && b > math.MaxInt/a { return 0, err }; return a * b, nil *)
Mul(M, a, b) == IF a < 0 \/ b < 0 \/ (a # 0 /\ b > M \div a) THEN Ovf ELSE Val(a * b)

ExactAdd(M, a, b) == IF a >= 0 /\ b >= 0 /\ a + b <= M THEN Val(a + b) ELSE Ovf
ExactMul(M, a, b) == IF a >= 0 /\ b >= 0 /\ a * b <= M THEN Val(a * b) ELSE Ovf

(* Go machine arithmetic *)
Word(M)    == (-M - 1)..M
Wrap(M, x) == ((x + M + 1) % (2 * M + 2)) - (M + 1)
TDiv(x, y) == IF x >= 0 /\ y > 0 THEN x \div y
              ELSE IF x < 0 /\ y > 0 THEN -((-x) \div y)
              ELSE IF x >= 0 /\ y < 0 THEN -(x \div (-y))
              ELSE (-x) \div (-y)
MAdd(M, a, b) == IF a < 0 \/ b < 0 \/ a > Wrap(M, M - b) THEN Ovf ELSE Val(Wrap(M, a + b))
MMul(M, a, b) == IF a < 0 \/ b < 0 \/ (a # 0 /\ b > Wrap(M, TDiv(M, a))) THEN Ovf ELSE Val(Wrap(M, a * b))

(* Case classes (independent of the width): <<kind, sign a, sign b, result vs M, b vs M \div a, wrapped sign bit>> *)
SignC(M, x) == IF x = -M - 1 THEN "min" ELSE IF x < 0 THEN "neg" ELSE IF x = 0 THEN "zero"
               ELSE IF x = M THEN "max" ELSE "pos"
AddClass(M, a, b) ==
  <<"add", SignC(M, a), SignC(M, b),
    IF a >= 0 /\ b >= 0
      THEN (IF a + b < M THEN "lt" ELSE IF a + b = M THEN "eq" ELSE IF a + b = M + 1 THEN "eq1" ELSE "gt")
      ELSE "na",
    "na", "na">>
MulClass(M, a, b) ==
  LET both == a > 0 /\ b > 0
      q    == M \div a
  IN <<"mul", SignC(M, a), SignC(M, b),
       IF both THEN (IF a * b < M THEN "lt" ELSE IF a * b = M THEN "eq" ELSE "gt") ELSE "na",
       IF both THEN (IF b < q THEN "lt" ELSE IF b = q THEN "eq" ELSE IF b = q + 1 THEN "eq1" ELSE "gt") ELSE "na",
       IF both /\ a * b > M THEN (IF ((a * b) \div (M + 1)) % 2 = 0 THEN "0" ELSE "1") ELSE "na">>
=============================================================================
