------------------------------ MODULE SafeName ------------------------------
(* What it means for a file name (sequence of UTF-8 byte codes) to be safe to   *)
(* create directly inside an output directory (C05).                            *)
EXTENDS Integers, Sequences

Upper(c) == IF c \in 97..122 THEN c - 32 ELSE c
UpperSeq(s) == [i \in 1..Len(s) |-> Upper(s[i])]
RECURSIVE StemLen(_, _)
StemLen(s, i) == IF i > Len(s) \/ s[i] = 46 THEN i - 1 ELSE StemLen(s, i + 1)
Stem(s) == SubSeq(s, 1, StemLen(s, 1))

Str(a) == a   \* names below are given as code sequences
CON == <<67,79,78>>  PRN == <<80,82,78>>  AUX == <<65,85,88>>  NUL3 == <<78,85,76>>
COMn(n) == <<67,79,77,48+n>>   LPTn(n) == <<76,80,84,48+n>>
Reserved == {CON, PRN, AUX, NUL3} \cup {COMn(n) : n \in 1..9} \cup {LPTn(n) : n \in 1..9}

NoSeparator(s) == \A i \in 1..Len(s) : s[i] \notin {0, 47, 92}
NoControl(s)   == \A i \in 1..Len(s) : s[i] >= 32 /\ s[i] # 127
NotDots(s)     == s # <<46>> /\ s # <<46, 46>>
NoDrive(s)     == ~(Len(s) >= 2 /\ s[2] = 58)
NotReserved(s) == UpperSeq(Stem(s)) \notin Reserved

SafeName(s) == /\ s # <<>>
               /\ NoSeparator(s) /\ NoControl(s) /\ NotDots(s) /\ NoDrive(s) /\ NotReserved(s)
=============================================================================
