SPECIFICATION Spec
CONSTANTS
  Modes = {"sim"}
  FreeMax = 0
  NCFree = 0
  NCRot = 0
  MaxNodes = 0
  MaxDepth = 5
  MaxSibs = 6
  NPages = 9
  Targets = {6, 9, 12, 16, 20, 26}
  Emit = TRUE
INVARIANTS TreeSize CleanIdem CleanOrdered RoundTrip EmitCase
