SPECIFICATION Spec
CONSTANTS
  Readers = {r1, r2}
  Reloaders = {w1, w2}
  OpsR = 1
  OpsW = 1
  MaxGen = 1
  Discipline = TRUE
  Break = "none"
INVARIANTS CompleteGen ReloadAtomic PublishesDir Fresh NoRace LockSanity
