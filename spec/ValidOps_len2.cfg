SPECIFICATION Spec
CONSTANTS
  Inputs = {"simple3"}
  MaxLen = 2
  Emit = TRUE
INVARIANTS TypeOK EmitCase
PROPERTY ValidPreserved
