SPECIFICATION Spec
CONSTANTS
  Batches <- BatchesOne
  MaxLen = 2
  Emit = TRUE
INVARIANTS TypeOK EmitCase
PROPERTY ValidPreserved
