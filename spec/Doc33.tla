------------------------------- MODULE Doc33 -------------------------------
(* C33: split and merge preserve the page sequence.                                              *)
(* Every state reached in one step is one case: a document (or several) given as trees (DocTrees) with unique   *)
(* page markers, an operation, and what Doc.tla says must come out:                                 *)
(*   split span / split before page numbers: the parts in output order with the names the API gives *)
(*   them (from-thru) and their marker sequences - their concatenation is the original sequence;    *)
(*   merge create / append / zip: the marker sequence of the result ("" = blank divider page).      *)
(* Every operation is explored in its file variant (api = "file") and, where the API offers one, in its   *)
(* stream variant (api = "raw": SplitRaw, MergeRaw, ExtractPages with a digest function - the harness       *)
(* reads the returned readers only after the call has returned), split along bookmarks included, and        *)
(* under the configuration switches Doc!Confs (which never change what must come out).                      *)
(* TLC checks the design properties of the model (PartsOK, MergeOK) and prints every case as JSON;  *)
(* harness/cmd/pageops c33 replays them with the real API.                                          *)
EXTENDS DocTrees, Json, Randomization

CONSTANTS SplitNs,     \* page counts for split by span (x Spans)
          Spans,
          NrNs,        \* page counts for which ALL strictly increasing page number lists are enumerated
          NrSampleNs,  \* page counts for which NrSamples random lists are drawn
          NrSamples,
          MergeSizes,  \* sizes of the merged documents
          MergeMax,    \* 1..MergeMax documents are merged
          AppendMax,   \* append mode: 1..AppendMax documents are appended to an existing one
          ZipSizes,
          RawNs,       \* page counts for SplitRaw (x RawSpans) and for the split along bookmarks
          RawSpans,
          BmNs,        \* page counts for which all bookmark lists of <= 3 bookmarks are enumerated
          SmallMax,    \* merges of <= SmallMax documents are repeated under the other configurations and as MergeRaw
          ExtractNs,
          Emit
(* c: the case; part: which slice of the case space this behaviour enumerates (the slices are enumerated by TLC's workers in parallel) *)
VARIABLES c, part
vars == <<docvars, c, part>>
P == 16

Marks(t)      == LET ps == TreePages(t) IN [i \in 1..Len(ps) |-> ps[i].mark]
DocTree(d, n) == Shape(n, ((d + n) % NShapes) + 1, "d" \o ToString(d) \o "p")
Blank0        == ""

Base == [kind |-> "", api |-> "file", conf |-> Confs[1], trees |-> <<>>, span |-> 0, nrs |-> <<>>, sel |-> <<>>, mode |-> "",
         divider |-> FALSE, res |-> "ok", parts |-> <<>>, exp |-> <<>>]
PartRecs(ms, spans) == [k \in 1..Len(spans) |-> [from |-> spans[k][1], thru |-> spans[k][2], marks |-> PartOf(ms, spans[k])]]
CF(i) == Confs[((i - 1) % Len(Confs)) + 1]

SplitCase(n, span, api, ci) ==
  LET t == Shape(n, ((n + span) % NShapes) + 1, "p") IN
  [Base EXCEPT !.kind = "split", !.api = api, !.conf = CF(ci), !.trees = <<t>>, !.span = span,
               !.parts = PartRecs(Marks(t), SplitSpans(n, span))]
SplitNrCase(n, nrs) ==
  LET t == Shape(n, ((n + Len(nrs)) % NShapes) + 1, "p") IN
  IF SplitNrsOK(n, nrs)
    THEN [Base EXCEPT !.kind = "splitnr", !.conf = CF(n + Len(nrs)), !.trees = <<t>>, !.nrs = nrs,
                      !.parts = PartRecs(Marks(t), SplitAtSpans(n, nrs))]
    ELSE [Base EXCEPT !.kind = "splitnr", !.conf = CF(n + Len(nrs)), !.trees = <<t>>, !.nrs = nrs, !.res = "refuse"]
(* split along the top-level bookmarks pointing at the pages bms (strictly increasing): one part per bookmark, from its *)
(* page up to the page before the next bookmark's, the last one up to the end; pages before the first bookmark are in   *)
(* no part.  The document carries an outline with these bookmarks (titles bm1, bm2, ...).                               *)
BmSpans(n, bms) == [k \in 1..Len(bms) |-> <<bms[k], IF k < Len(bms) THEN bms[k + 1] - 1 ELSE n>>]
SplitBmCase(n, bms, api) ==
  LET t == Shape(n, ((n + Len(bms)) % NShapes) + 1, "p") IN
  [Base EXCEPT !.kind = "splitbm", !.api = api, !.conf = CF(n + bms[1]), !.trees = <<t>>, !.nrs = bms,
               !.parts = PartRecs(Marks(t), BmSpans(n, bms))]
(* every selected page as a document of its own, in ascending page order *)
ExtractCase(n, ts, ci) ==
  LET t == Shape(n, ((n + Len(ts)) % NShapes) + 1, "p")
      S == SelAsc(SelOrAll(n, ts)) IN
  [Base EXCEPT !.kind = "extract", !.api = "raw", !.conf = CF(ci), !.trees = <<t>>, !.sel = SelRender(ts),
               !.parts = [k \in 1..Len(S) |-> [from |-> S[k], thru |-> S[k], marks |-> <<Marks(t)[S[k]]>>]]]
(* create: the documents are merged into a new file; append: documents 2.. are appended to the existing document 1; *)
(* appendnew: append to a file that does not exist yet = create                                                      *)
MergeCase(md, sizes, divider, api, ci) ==
  LET ts == [d \in 1..Len(sizes) |-> DocTree(d, sizes[d])] IN
  [Base EXCEPT !.kind = "merge", !.api = api, !.conf = CF(ci), !.mode = md, !.trees = ts, !.divider = divider,
               !.exp = MergeP([d \in 1..Len(ts) |-> Marks(ts[d])], divider, Blank0)]
ZipCase(a, b) ==
  LET ts == <<DocTree(1, a), DocTree(2, b)>> IN
  [Base EXCEPT !.kind = "merge", !.conf = CF(a + b), !.mode = "zip", !.trees = ts, !.exp = ZipP(Marks(ts[1]), Marks(ts[2]))]

IncLists(n)  == {SelAsc(S) : S \in (SUBSET (2..(n + 1))) \ {{}}}            \* all strictly increasing lists over 2..n+1
BadLists(n)  == {<<1>>, <<1, 3>>, <<n + 1>>, <<n + 2, n + 3>>, <<2, 2>>, <<3, 2>>}
SampleLists(n) == {SelAsc(S) : S \in RandomSetOfSubsets(NrSamples, 3, 2..(n + 1)) \ {{}}}
SizeTuples(k) == UNION {[1..j -> MergeSizes] : j \in 1..k}

BmLists(n) == {SelAsc(S) : S \in {T \in SUBSET (1..n) : T # {} /\ Cardinality(T) <= 3}}
ExtractSels == {<<>>, <<SelTerm("n", 1, 0, "")>>, <<SelTerm("rng", 2, 3, "")>>, <<SelTerm("even", 0, 0, "")>>,
                <<SelTerm("suf", 3, 0, ""), SelTerm("l", 0, 0, "!")>>, <<SelTerm("n", 9, 0, "")>>}
SumSeq(t) == FoldLeft(LAMBDA x, y : x + y, 0, t)

In(pt, x) == x % P = pt
B2N(b)    == IF b THEN 1 ELSE 0
Cases(pt) ==
       {SplitCase(n, sp, "file", ci) : <<n, sp, ci>> \in {t \in SplitNs \X Spans \X {1, 2} : In(pt, t[1] + t[2] + t[3])}}
  \cup {SplitCase(n, sp, "raw", ci) : <<n, sp, ci>> \in {t \in RawNs \X RawSpans \X {1, 2} : In(pt, t[1] + t[2] + t[3])}}
  \cup UNION {{SplitNrCase(n, l) : l \in {x \in IncLists(n) \cup BadLists(n) : In(pt, n + SumSeq(x))}} : n \in NrNs}
  \cup UNION {{SplitNrCase(n, l) : l \in SampleLists(n)} : n \in {m \in NrSampleNs : In(pt, m)}}
  \cup UNION {{SplitBmCase(n, l, api) : l \in {x \in BmLists(n) : In(pt, n + SumSeq(x))}, api \in {"file", "raw"}} : n \in BmNs}
  \cup {ExtractCase(n, ts, ci) : n \in ExtractNs, ts \in {x \in ExtractSels : In(pt, Len(x))}, ci \in {1, 2}}
  \cup {MergeCase("create", sz, dv, "file", 1) : sz \in {t \in SizeTuples(MergeMax) : In(pt, SumSeq(t))}, dv \in BOOLEAN}
  \cup {MergeCase("create", sz, dv, "file", ci) : sz \in {t \in SizeTuples(SmallMax) : In(pt, SumSeq(t))}, dv \in BOOLEAN, ci \in {2, 3, 4}}
  \cup {MergeCase("create", sz, dv, "raw", ci) : sz \in {t \in SizeTuples(SmallMax) : In(pt, SumSeq(t))}, dv \in BOOLEAN, ci \in {1, 2}}
  \cup {MergeCase("append", sz, dv, "file", SumSeq(sz)) : sz \in {t \in SizeTuples(AppendMax + 1) : Len(t) >= 2 /\ In(pt, SumSeq(t))}, dv \in BOOLEAN}
  \cup {MergeCase("appendnew", sz, dv, "file", SumSeq(sz)) : sz \in {t \in SizeTuples(2) : In(pt, SumSeq(t))}, dv \in BOOLEAN}
  \cup {ZipCase(x, y) : <<x, y>> \in {t \in ZipSizes \X ZipSizes : In(pt, t[1] + t[2])}}

Init == part \in 0..(P - 1) /\ c = Base /\ DocInit(<<>>)
Next == c.kind = "" /\ c' \in Cases(part) /\ UNCHANGED <<docvars, part>>     \* one step: pick a case of the slice
Spec == Init /\ [][Next]_vars

---------------------------------------------------------------------------
(* design properties: the parts of a split, concatenated, are the original page sequence; a merge contains every *)
(* page of every input exactly once, in order, and blank pages only as requested dividers                          *)
DocMarks == [d \in 1..Len(c.trees) |-> Marks(c.trees[d])]
PartsOK ==
  c.kind # "" =>
  LET all == FlattenSeq(DocMarks)
      cat == FlattenSeq([k \in 1..Len(c.parts) |-> c.parts[k].marks])
  IN /\ (c.kind \in {"split", "splitnr"} /\ c.res = "ok" =>
          /\ cat = all
          /\ c.parts[1].from = 1 /\ \A k \in 2..Len(c.parts) : c.parts[k].from = c.parts[k - 1].thru + 1)
     /\ (c.kind = "splitbm" => cat = SubSeq(all, c.parts[1].from, Len(all)))
     /\ \A k \in 1..Len(c.parts) : /\ c.parts[k].from <= c.parts[k].thru
                                    /\ c.parts[k].marks = SubSeq(all, c.parts[k].from, c.parts[k].thru)
MergeOK ==
  c.kind = "merge" =>
    LET dm  == DocMarks
        all == FlattenSeq(dm)
        m1  == ToSet(dm[1])
    IN /\ (c.mode # "zip" => SelectSeq(c.exp, LAMBDA m : m # Blank0) = all)
       /\ Len(SelectSeq(c.exp, LAMBDA m : m = Blank0)) = (IF c.divider THEN Len(c.trees) - 1 ELSE 0)
       /\ (c.mode = "zip" => /\ Len(c.exp) = Len(all) /\ ToSet(c.exp) = ToSet(all)
                             /\ SelectSeq(c.exp, LAMBDA m : m \in m1) = dm[1]
                             /\ SelectSeq(c.exp, LAMBDA m : m \notin m1) = dm[2]
                             /\ \A i \in 1..Min2(Len(dm[1]), Len(dm[2])) : c.exp[2 * i - 1] = dm[1][i] /\ c.exp[2 * i] = dm[2][i])
TreesClear == c.kind # "" => \A d \in 1..Len(c.trees) : Unambiguous(TreePages(c.trees[d]))

EmitCase == Emit /\ c.kind # "" => PrintT(<<"CASE", ToJson(c)>>)
=============================================================================
