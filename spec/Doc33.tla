------------------------------- MODULE Doc33 -------------------------------
(* C33: split and merge preserve the page sequence.                                              *)
(* Every initial state is one case: a document (or several) given as trees (DocTrees) with unique   *)
(* page markers, an operation, and what Doc.tla says must come out:                                 *)
(*   split span / split before page numbers: the parts in output order with the names the API gives *)
(*   them (from-thru) and their marker sequences - their concatenation is the original sequence;    *)
(*   merge create / append / zip: the marker sequence of the result ("" = blank divider page).      *)
(* Every operation is explored in its file variant (api = "file") and, where the API offers one, in its   *)
(* stream variant (api = "raw": SplitRaw, MergeRaw, ExtractPages with a digest function - the harness       *)
(* reads the returned readers only after the call has returned), split along bookmarks included, and        *)
(* under the configuration switches Doc!Confs (which never change what must come out).                      *)
(* TLC checks the design properties of the model (PartsOK, MergeOK) and prints every case as JSON;  *)
(* harness/cmd/pageops c33 replays them with the real API.                                          *)
EXTENDS DocTrees, Json, Randomization

CONSTANTS SplitNs,     \* page counts for split by span (x Spans)
          Spans,
          NrNs,        \* page counts for which ALL strictly increasing page number lists are enumerated
          NrSampleNs,  \* page counts for which NrSamples random lists are drawn
          NrSamples,
          MergeSizes,  \* sizes of the merged documents
          MergeMax,    \* 1..MergeMax documents are merged
          AppendMax,   \* append mode: 1..AppendMax documents are appended to an existing one
          ZipSizes,
          RawNs,       \* page counts for SplitRaw (x RawSpans) and for the split along bookmarks
          RawSpans,
          BmNs,        \* page counts for which all bookmark lists of <= 3 bookmarks are enumerated
          SmallMax,    \* merges of <= SmallMax documents are repeated under the other configurations and as MergeRaw
          ExtractNs,
          Emit
VARIABLE c
vars == <<docvars, c>>

Marks(t)      == LET ps == TreePages(t) IN [i \in 1..Len(ps) |-> ps[i].mark]
DocTree(d, n) == Shape(n, ((d + n) % NShapes) + 1, "d" \o ToString(d) \o "p")
Blank0        == ""

Base == [kind |-> "", api |-> "file", conf |-> Confs[1], trees |-> <<>>, span |-> 0, nrs |-> <<>>, sel |-> <<>>, mode |-> "",
         divider |-> FALSE, res |-> "ok", parts |-> <<>>, exp |-> <<>>]
PartRecs(ms, spans) == [k \in 1..Len(spans) |-> [from |-> spans[k][1], thru |-> spans[k][2], marks |-> PartOf(ms, spans[k])]]
CF(i) == Confs[((i - 1) % Len(Confs)) + 1]

SplitCase(n, span, api, ci) ==
  LET t == Shape(n, ((n + span) % NShapes) + 1, "p") IN
  [Base EXCEPT !.kind = "split", !.api = api, !.conf = CF(ci), !.trees = <<t>>, !.span = span,
               !.parts = PartRecs(Marks(t), SplitSpans(n, span))]
SplitNrCase(n, nrs) ==
  LET t == Shape(n, ((n + Len(nrs)) % NShapes) + 1, "p") IN
  IF SplitNrsOK(n, nrs)
    THEN [Base EXCEPT !.kind = "splitnr", !.conf = CF(n + Len(nrs)), !.trees = <<t>>, !.nrs = nrs,
                      !.parts = PartRecs(Marks(t), SplitAtSpans(n, nrs))]
    ELSE [Base EXCEPT !.kind = "splitnr", !.conf = CF(n + Len(nrs)), !.trees = <<t>>, !.nrs = nrs, !.res = "refuse"]
(* split along the top-level bookmarks pointing at the pages bms (strictly increasing): one part per bookmark, from its *)
(* page up to the page before the next bookmark's, the last one up to the end; pages before the first bookmark are in   *)
(* no part.  The document carries an outline with these bookmarks (titles bm1, bm2, ...).                               *)
BmSpans(n, bms) == [k \in 1..Len(bms) |-> <<bms[k], IF k < Len(bms) THEN bms[k + 1] - 1 ELSE n>>]
SplitBmCase(n, bms, api) ==
  LET t == Shape(n, ((n + Len(bms)) % NShapes) + 1, "p") IN
  [Base EXCEPT !.kind = "splitbm", !.api = api, !.conf = CF(n + bms[1]), !.trees = <<t>>, !.nrs = bms,
               !.parts = PartRecs(Marks(t), BmSpans(n, bms))]
(* every selected page as a document of its own, in ascending page order *)
ExtractCase(n, ts, ci) ==
  LET t == Shape(n, ((n + Len(ts)) % NShapes) + 1, "p")
      S == SelAsc(SelOrAll(n, ts)) IN
  [Base EXCEPT !.kind = "extract", !.api = "raw", !.conf = CF(ci), !.trees = <<t>>, !.sel = SelRender(ts),
               !.parts = [k \in 1..Len(S) |-> [from |-> S[k], thru |-> S[k], marks |-> <<Marks(t)[S[k]]>>]]]
(* create: the documents are merged into a new file; append: documents 2.. are appended to the existing document 1; *)
(* appendnew: append to a file that does not exist yet = create                                                      *)
MergeCase(md, sizes, divider, api, ci) ==
  LET ts == [d \in 1..Len(sizes) |-> DocTree(d, sizes[d])] IN
  [Base EXCEPT !.kind = "merge", !.api = api, !.conf = CF(ci), !.mode = md, !.trees = ts, !.divider = divider,
               !.exp = MergeP([d \in 1..Len(ts) |-> Marks(ts[d])], divider, Blank0)]
ZipCase(a, b) ==
  LET ts == <<DocTree(1, a), DocTree(2, b)>> IN
  [Base EXCEPT !.kind = "merge", !.conf = CF(a + b), !.mode = "zip", !.trees = ts, !.exp = ZipP(Marks(ts[1]), Marks(ts[2]))]

IncLists(n)  == {SelAsc(S) : S \in (SUBSET (2..(n + 1))) \ {{}}}            \* all strictly increasing lists over 2..n+1
BadLists(n)  == {<<1>>, <<1, 3>>, <<n + 1>>, <<n + 2, n + 3>>, <<2, 2>>, <<3, 2>>}
SampleLists(n) == {SelAsc(S) : S \in RandomSetOfSubsets(NrSamples, 3, 2..(n + 1)) \ {{}}}
SizeTuples(k) == UNION {[1..j -> MergeSizes] : j \in 1..k}

BmLists(n) == {SelAsc(S) : S \in {T \in SUBSET (1..n) : T # {} /\ Cardinality(T) <= 3}}
ExtractSels == {<<>>, <<SelTerm("n", 1, 0, "")>>, <<SelTerm("rng", 2, 3, "")>>, <<SelTerm("even", 0, 0, "")>>,
                <<SelTerm("suf", 3, 0, ""), SelTerm("l", 0, 0, "!")>>, <<SelTerm("n", 9, 0, "")>>}
SumSeq(t) == FoldLeft(LAMBDA x, y : x + y, 0, t)

Cases ==
       {SplitCase(n, s, "file", ci) : n \in SplitNs, s \in Spans, ci \in {1, 2}}
  \cup {SplitCase(n, s, "raw", ci) : n \in RawNs, s \in RawSpans, ci \in {1, 2}}
  \cup UNION {{SplitNrCase(n, l) : l \in IncLists(n) \cup BadLists(n)} : n \in NrNs}
  \cup UNION {{SplitNrCase(n, l) : l \in SampleLists(n)} : n \in NrSampleNs}
  \cup UNION {{SplitBmCase(n, l, api) : l \in BmLists(n), api \in {"file", "raw"}} : n \in BmNs}
  \cup {ExtractCase(n, ts, ci) : n \in ExtractNs, ts \in ExtractSels, ci \in {1, 2}}
  \cup {MergeCase("create", sz, dv, "file", 1) : sz \in SizeTuples(MergeMax), dv \in BOOLEAN}
  \cup {MergeCase("create", sz, dv, "file", ci) : sz \in SizeTuples(SmallMax), dv \in BOOLEAN, ci \in {2, 3, 4}}
  \cup {MergeCase("create", sz, dv, "raw", ci) : sz \in SizeTuples(SmallMax), dv \in BOOLEAN, ci \in {1, 2}}
  \cup {MergeCase("append", sz, dv, "file", SumSeq(sz)) : sz \in {t \in SizeTuples(AppendMax + 1) : Len(t) >= 2}, dv \in BOOLEAN}
  \cup {MergeCase("appendnew", sz, dv, "file", SumSeq(sz)) : sz \in SizeTuples(2), dv \in BOOLEAN}
  \cup {ZipCase(a, b) : a \in ZipSizes, b \in ZipSizes}

Init == c \in Cases /\ DocInit(<<>>)
Next == FALSE /\ UNCHANGED vars      \* every case is an initial state; nothing moves
Spec == Init /\ [][Next]_vars

---------------------------------------------------------------------------
(* design properties: the parts of a split, concatenated, are the original page sequence; a merge contains every *)
(* page of every input exactly once, in order, and blank pages only as requested dividers                          *)
AllMarks == FlattenSeq([d \in 1..Len(c.trees) |-> Marks(c.trees[d])])
PartsOK == /\ (c.kind \in {"split", "splitnr"} /\ c.res = "ok" =>
                /\ FlattenSeq([k \in 1..Len(c.parts) |-> c.parts[k].marks]) = AllMarks
                /\ c.parts[1].from = 1 /\ \A k \in 2..Len(c.parts) : c.parts[k].from = c.parts[k - 1].thru + 1)
           /\ (c.kind = "splitbm" => \E i \in 1..(Len(AllMarks) + 1) :
                                       FlattenSeq([k \in 1..Len(c.parts) |-> c.parts[k].marks]) = SubSeq(AllMarks, i, Len(AllMarks)))
           /\ \A k \in 1..Len(c.parts) : /\ c.parts[k].from <= c.parts[k].thru
                                          /\ c.parts[k].marks = SubSeq(AllMarks, c.parts[k].from, c.parts[k].thru)
MergeOK == c.kind = "merge" =>
             /\ (c.mode # "zip" => SelectSeq(c.exp, LAMBDA m : m # Blank0) = AllMarks)
             /\ Len(SelectSeq(c.exp, LAMBDA m : m = Blank0)) = (IF c.divider THEN Len(c.trees) - 1 ELSE 0)
             /\ (c.mode = "zip" => /\ ToSet(c.exp) = ToSet(AllMarks) /\ Len(c.exp) = Len(AllMarks)
                                   /\ \A d \in 1..2 : SelectSeq(c.exp, LAMBDA m : m \in ToSet(Marks(c.trees[d]))) = Marks(c.trees[d])
                                   /\ \A i \in 1..Min2(Len(Marks(c.trees[1])), Len(Marks(c.trees[2]))) :
                                        c.exp[2 * i - 1] = Marks(c.trees[1])[i] /\ c.exp[2 * i] = Marks(c.trees[2])[i])
TreesClear == \A d \in 1..Len(c.trees) : Unambiguous(TreePages(c.trees[d]))

EmitCase == Emit => PrintT(<<"CASE", ToJson(c)>>)
=============================================================================
