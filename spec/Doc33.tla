------------------------------- MODULE Doc33 -------------------------------
(* C33: split and merge preserve the page sequence.                                              *)
(* Every initial state is one case: a document (or several) given as trees (DocTrees) with unique   *)
(* page markers, an operation, and what Doc.tla says must come out:                                 *)
(*   split span / split before page numbers: the parts in output order with the names the API gives *)
(*   them (from-thru) and their marker sequences - their concatenation is the original sequence;    *)
(*   merge create / append / zip: the marker sequence of the result ("" = blank divider page).      *)
(* TLC checks the design properties of the model (PartsOK, MergeOK) and prints every case as JSON;  *)
(* harness/cmd/pageops c33 replays them with the real API.                                          *)
EXTENDS DocTrees, Json, Randomization

CONSTANTS SplitNs,     \* page counts for split by span (x Spans)
          Spans,
          NrNs,        \* page counts for which ALL strictly increasing page number lists are enumerated
          NrSampleNs,  \* page counts for which NrSamples random lists are drawn
          NrSamples,
          MergeSizes,  \* sizes of the merged documents
          MergeMax,    \* 1..MergeMax documents are merged
          AppendMax,   \* append mode: 1..AppendMax documents are appended to an existing one
          ZipSizes,
          Emit
VARIABLE c
vars == <<docvars, c>>

Marks(t)      == LET ps == TreePages(t) IN [i \in 1..Len(ps) |-> ps[i].mark]
DocTree(d, n) == Shape(n, ((d + n) % NShapes) + 1, "d" \o ToString(d) \o "p")
Blank0        == ""

Base == [kind |-> "", trees |-> <<>>, span |-> 0, nrs |-> <<>>, mode |-> "", divider |-> FALSE, res |-> "ok",
         parts |-> <<>>, exp |-> <<>>]
PartRecs(ms, spans) == [k \in 1..Len(spans) |-> [from |-> spans[k][1], thru |-> spans[k][2], marks |-> PartOf(ms, spans[k])]]

SplitCase(n, span) ==
  LET t == Shape(n, ((n + span) % NShapes) + 1, "p") IN
  [Base EXCEPT !.kind = "split", !.trees = <<t>>, !.span = span, !.parts = PartRecs(Marks(t), SplitSpans(n, span))]
SplitNrCase(n, nrs) ==
  LET t == Shape(n, ((n + Len(nrs)) % NShapes) + 1, "p") IN
  IF SplitNrsOK(n, nrs)
    THEN [Base EXCEPT !.kind = "splitnr", !.trees = <<t>>, !.nrs = nrs, !.parts = PartRecs(Marks(t), SplitAtSpans(n, nrs))]
    ELSE [Base EXCEPT !.kind = "splitnr", !.trees = <<t>>, !.nrs = nrs, !.res = "refuse"]
(* create: the documents are merged into a new file; append: documents 2.. are appended to the existing document 1; *)
(* appendnew: append to a file that does not exist yet = create                                                      *)
MergeCase(md, sizes, divider) ==
  LET ts == [d \in 1..Len(sizes) |-> DocTree(d, sizes[d])] IN
  [Base EXCEPT !.kind = "merge", !.mode = md, !.trees = ts, !.divider = divider,
               !.exp = MergeP([d \in 1..Len(ts) |-> Marks(ts[d])], divider, Blank0)]
ZipCase(a, b) ==
  LET ts == <<DocTree(1, a), DocTree(2, b)>> IN
  [Base EXCEPT !.kind = "merge", !.mode = "zip", !.trees = ts, !.exp = ZipP(Marks(ts[1]), Marks(ts[2]))]

IncLists(n)  == {SelAsc(S) : S \in (SUBSET (2..(n + 1))) \ {{}}}            \* all strictly increasing lists over 2..n+1
BadLists(n)  == {<<1>>, <<1, 3>>, <<n + 1>>, <<n + 2, n + 3>>, <<2, 2>>, <<3, 2>>}
SampleLists(n) == {SelAsc(S) : S \in RandomSetOfSubsets(NrSamples, 3, 2..(n + 1)) \ {{}}}
SizeTuples(k) == UNION {[1..j -> MergeSizes] : j \in 1..k}

Cases ==
       {SplitCase(n, s) : n \in SplitNs, s \in Spans}
  \cup UNION {{SplitNrCase(n, l) : l \in IncLists(n) \cup BadLists(n)} : n \in NrNs}
  \cup UNION {{SplitNrCase(n, l) : l \in SampleLists(n)} : n \in NrSampleNs}
  \cup {MergeCase("create", sz, dv) : sz \in SizeTuples(MergeMax), dv \in BOOLEAN}
  \cup {MergeCase("append", sz, dv) : sz \in {t \in SizeTuples(AppendMax + 1) : Len(t) >= 2}, dv \in BOOLEAN}
  \cup {MergeCase("appendnew", sz, dv) : sz \in SizeTuples(2), dv \in BOOLEAN}
  \cup {ZipCase(a, b) : a \in ZipSizes, b \in ZipSizes}

Init == c \in Cases /\ DocInit(<<>>)
Next == FALSE /\ UNCHANGED vars      \* every case is an initial state; nothing moves
Spec == Init /\ [][Next]_vars

---------------------------------------------------------------------------
(* design properties: the parts of a split, concatenated, are the original page sequence; a merge contains every *)
(* page of every input exactly once, in order, and blank pages only as requested dividers                          *)
AllMarks == FlattenSeq([d \in 1..Len(c.trees) |-> Marks(c.trees[d])])
PartsOK == c.kind \in {"split", "splitnr"} /\ c.res = "ok" =>
             /\ FlattenSeq([k \in 1..Len(c.parts) |-> c.parts[k].marks]) = AllMarks
             /\ \A k \in 1..Len(c.parts) : c.parts[k].from <= c.parts[k].thru /\ Len(c.parts[k].marks) = c.parts[k].thru - c.parts[k].from + 1
             /\ c.parts[1].from = 1 /\ \A k \in 2..Len(c.parts) : c.parts[k].from = c.parts[k - 1].thru + 1
MergeOK == c.kind = "merge" =>
             /\ (c.mode # "zip" => SelectSeq(c.exp, LAMBDA m : m # Blank0) = AllMarks)
             /\ Len(SelectSeq(c.exp, LAMBDA m : m = Blank0)) = (IF c.divider THEN Len(c.trees) - 1 ELSE 0)
             /\ (c.mode = "zip" => /\ ToSet(c.exp) = ToSet(AllMarks) /\ Len(c.exp) = Len(AllMarks)
                                   /\ \A d \in 1..2 : SelectSeq(c.exp, LAMBDA m : m \in ToSet(Marks(c.trees[d]))) = Marks(c.trees[d])
                                   /\ \A i \in 1..Min2(Len(Marks(c.trees[1])), Len(Marks(c.trees[2]))) :
                                        c.exp[2 * i - 1] = Marks(c.trees[1])[i] /\ c.exp[2 * i] = Marks(c.trees[2])[i])
TreesClear == \A d \in 1..Len(c.trees) : Unambiguous(TreePages(c.trees[d]))

EmitCase == Emit => PrintT(<<"CASE", ToJson(c)>>)
=============================================================================
