------------------------------- MODULE FSTrace -------------------------------
(* Permissive monitor: an abstract POSIX file system driven by the recorded      *)
(* os-call trace of REAL pdfcpu executions (instrumented package os).            *)
(* No protocol assumptions: every call is applied with POSIX semantics, the      *)
(* logged result must be the one those semantics predict (binding), and the      *)
(* file-system properties are evaluated on the model state:                      *)
(*   CleanFailure  (C01)  failed / panicked operation => state = initial state   *)
(*   Atomic        (C02)  a replaced path only ever shows old or final content   *)
(*   HiddenOnly    (C02)  every extra entry is a hidden file next to a dest      *)
(*   Publishes     (C03)  success => dest complete, mode kept, inputs untouched  *)
(*   NoEscape      (C05)  every creation happens directly inside the out dir     *)
(*   NeverTorn     (C07)  whatever a power loss can leave at a font name is fully *)
(*                        fsynced data; DurableOnOk: success => data and entry    *)
(*                        flushed                                                 *)
(* Many traces are concatenated; a "begin" line resets the model.                *)
EXTENDS Integers, Sequences, FiniteSets, TLC, Json

Trace == ndJsonDeserialize("trace.ndjson")

VARIABLES l,       \* next trace line
          ns,      \* [path -> inode id]           files and symlinks
          dirs,    \* set of directory paths
          par,     \* [path -> parent directory path]
          ino,     \* [inode id -> [k, o, n, m, tg]]  k: "f"|"l"; content = <<o, n>>; m mode (-1 unknown); tg symlink target
          fds,     \* [handle -> inode id | 0 (directory handle)]
          nino,    \* next free inode id
          ns0, dirs0, ino0,  \* state at "begin"
          hdr,     \* the begin line of the current trace
          hist,    \* [protected path -> set of observations ("ABSENT" | "PARTIAL" | <<o, n>>)]
          created, \* set of paths created during the trace (for NoEscape / HiddenOnly)
          visible, \* created paths whose base name does not start with "."
          bad,     \* "" or a description of a failed binding check (model vs real result)
          dfd,     \* [handle -> directory path]  open directory handles (SyncDirectory = open dir, fsync, close)
          pend     \* [path -> set of inode ids (0 = absent)] values the path had since its directory was last fsynced
                   \* (durability layer, C07: after a power loss the path may hold any of them, or its current value)
vars == <<l, ns, dirs, par, ino, fds, nino, ns0, dirs0, ino0, hdr, hist, created, visible, bad, dfd, pend>>

Dom(f) == DOMAIN f
Put(f, k, v) == [x \in Dom(f) \cup {k} |-> IF x = k THEN v ELSE f[x]]
Del(f, k) == [x \in Dom(f) \ {k} |-> f[x]]
SeqToSet(s) == {s[i] : i \in 1..Len(s)}

Exists(p) == p \in Dom(ns) \/ p \in dirs
(* one level of symlink resolution (what open/stat without O_EXCL/lstat do) *)
Resolve(p) == IF p \in Dom(ns) /\ ino[ns[p]].k = "l" THEN ino[ns[p]].tg ELSE p

RECURSIVE Under(_, _)
Under(p, d) == IF p = d THEN TRUE ELSE IF p \notin Dom(par) THEN FALSE ELSE IF par[p] = p THEN FALSE ELSE Under(par[p], d)

Content(i) == <<ino[i].o, ino[i].hd, ino[i].n>>
Val(nsx, p) == IF p \in Dom(nsx) THEN nsx[p] ELSE 0
Prot == IF hdr = <<>> THEN {} ELSE SeqToSet(hdr.prot)
Obs(nsx, inox, p) == IF p \notin Dom(nsx) THEN <<"ABSENT", 0, 0>> ELSE <<inox[nsx[p]].o, inox[nsx[p]].hd, inox[nsx[p]].n>>
Observe(nsx, inox, h) == [p \in Dom(h) |-> h[p] \cup {Obs(nsx, inox, p)}]

----------------------------------------------------------------------------
(* begin: load the initial state *)
InitNs(ents) == LET files == {i \in 1..Len(ents) : ents[i].k # "d"} IN
                [p \in {ents[i].p : i \in files} |-> ents[CHOOSE i \in files : ents[i].p = p].i]
InitIno(ents) == LET files == {i \in 1..Len(ents) : ents[i].k # "d"}
                     ids == {ents[i].i : i \in files} IN
                 [id \in ids |-> LET i == CHOOSE j \in files : ents[j].i = id IN
                                 [k |-> ents[i].k, o |-> ents[i].c, hd |-> 0, n |-> 0, sn |-> 0, m |-> ents[i].m, tg |-> ents[i].tg]]
InitDirs(ents) == {ents[i].p : i \in {j \in 1..Len(ents) : ents[j].k = "d"}}
InitPar(ents) == [p \in {ents[i].p : i \in 1..Len(ents)} |-> ents[CHOOSE i \in 1..Len(ents) : ents[i].p = p].par]

DoBegin(e) ==
  /\ ns' = InitNs(e.init) /\ ino' = InitIno(e.init) /\ dirs' = InitDirs(e.init) \cup {"."}
  /\ par' = InitPar(e.init)
  /\ ns0' = ns' /\ ino0' = ino' /\ dirs0' = dirs'
  /\ fds' = <<>> /\ nino' = 1000 /\ hdr' = e /\ created' = {} /\ visible' = {} /\ bad' = "" /\ dfd' = <<>> /\ pend' = <<>>
  /\ hist' = [p \in SeqToSet(e.prot) |-> {Obs(ns', ino', p)}]

----------------------------------------------------------------------------
(* POSIX prediction of the result of a call, "" = no prediction *)
Expect(e) ==
  CASE e.op = "openfile" ->
         IF e.creat /\ e.excl THEN (IF Exists(e.a) THEN "EEXIST" ELSE IF e.ad \in dirs THEN "ok" ELSE "ENOENT")
         ELSE IF e.creat THEN (IF e.ad \in dirs \/ Exists(Resolve(e.a)) THEN "ok" ELSE "ENOENT")
         ELSE (IF Exists(Resolve(e.a)) THEN "ok" ELSE "ENOENT")
    [] e.op \in {"stat"} -> IF Exists(Resolve(e.a)) THEN "ok" ELSE "ENOENT"
    [] e.op \in {"lstat"} -> IF Exists(e.a) THEN "ok" ELSE "ENOENT"
    [] e.op = "rename" -> IF Exists(e.a) THEN (IF e.bd \in dirs THEN "ok" ELSE "ENOENT") ELSE "ENOENT"
    [] e.op = "remove" -> IF e.a \in Dom(ns) THEN "ok"
                          ELSE IF e.a \in dirs THEN (IF \E q \in Dom(par) : q # e.a /\ par[q] = e.a /\ Exists(q) THEN "ENOTEMPTY" ELSE "ok")
                          ELSE "ENOENT"
    [] e.op = "removeall" -> "ok"
    [] e.op = "mkdir" -> IF Exists(e.a) THEN "EEXIST" ELSE IF e.ad \in dirs THEN "ok" ELSE "ENOENT"
    [] e.op = "link" -> IF ~Exists(e.a) THEN "ENOENT" ELSE IF Exists(e.b) THEN "EEXIST" ELSE "ok"
    [] OTHER -> ""

Injected(e) == e.inj # ""
ResultOK(e) == Injected(e) \/ Expect(e) = "" \/ Expect(e) = e.r

(* state update of a successful call *)
Apply(e) ==
  CASE e.op = "openfile" ->
         LET p == IF e.excl THEN e.a ELSE Resolve(e.a) IN
         IF p \in dirs THEN
            /\ fds' = Put(fds, e.h, 0) /\ UNCHANGED <<ns, ino, nino, dirs, par, created>>
         ELSE IF p \in Dom(ns) THEN
            /\ fds' = Put(fds, e.h, ns[p])
            /\ ino' = IF e.trunc THEN [ino EXCEPT ![ns[p]].o = "h", ![ns[p]].hd = e.h, ![ns[p]].n = 0, ![ns[p]].sn = 0] ELSE ino
            /\ UNCHANGED <<ns, nino, dirs, par, created>>
         ELSE
            /\ ns' = Put(ns, p, nino) /\ par' = Put(par, p, e.ad)
            /\ ino' = Put(ino, nino, [k |-> "f", o |-> "h", hd |-> e.h, n |-> 0, sn |-> 0, m |-> -1, tg |-> ""])
            /\ fds' = Put(fds, e.h, nino) /\ nino' = nino + 1 /\ created' = created \cup {p}
            /\ UNCHANGED dirs
    [] e.op \in {"write", "writeat", "readfrom"} ->
         /\ IF e.h \in Dom(fds) /\ fds[e.h] # 0 /\ e.w > 0
              THEN ino' = [ino EXCEPT ![fds[e.h]].n = @ + e.w, ![fds[e.h]].o = IF @ = "h" THEN "h" ELSE "mod"]
              ELSE UNCHANGED ino
         /\ UNCHANGED <<ns, fds, nino, dirs, par, created>>
    [] e.op \in {"ftruncate"} ->
         /\ IF e.h \in Dom(fds) /\ fds[e.h] # 0 THEN ino' = [ino EXCEPT ![fds[e.h]].o = "mod"] ELSE UNCHANGED ino
         /\ UNCHANGED <<ns, fds, nino, dirs, par, created>>
    [] e.op = "truncate" ->
         /\ IF Resolve(e.a) \in Dom(ns) THEN ino' = [ino EXCEPT ![ns[Resolve(e.a)]].o = "mod"] ELSE UNCHANGED ino
         /\ UNCHANGED <<ns, fds, nino, dirs, par, created>>
    [] e.op = "fsync" -> /\ IF e.h \in Dom(fds) /\ fds[e.h] # 0 THEN ino' = [ino EXCEPT ![fds[e.h]].sn = ino[fds[e.h]].n] ELSE UNCHANGED ino
                         /\ UNCHANGED <<ns, fds, nino, dirs, par, created>>
    [] e.op = "close" -> /\ fds' = IF e.h \in Dom(fds) THEN Del(fds, e.h) ELSE fds
                         /\ UNCHANGED <<ns, ino, nino, dirs, par, created>>
    [] e.op = "fchmod" -> /\ IF e.h \in Dom(fds) /\ fds[e.h] # 0 THEN ino' = [ino EXCEPT ![fds[e.h]].m = e.n] ELSE UNCHANGED ino
                          /\ UNCHANGED <<ns, fds, nino, dirs, par, created>>
    [] e.op = "chmod" -> /\ IF Resolve(e.a) \in Dom(ns) THEN ino' = [ino EXCEPT ![ns[Resolve(e.a)]].m = e.n] ELSE UNCHANGED ino
                         /\ UNCHANGED <<ns, fds, nino, dirs, par, created>>
    [] e.op = "rename" ->
         IF e.a \in Dom(ns) THEN
            /\ ns' = Put(Del(ns, e.a), e.b, ns[e.a]) /\ par' = Put(par, e.b, e.bd)
            /\ created' = (created \ {e.a}) \cup (IF e.b \in Dom(ns0) THEN {} ELSE {e.b})
            /\ UNCHANGED <<ino, fds, nino, dirs>>
         ELSE  \* directory rename: the harness lists the moved entries in e.mv as <<old, new, newparent>>
            /\ dirs' = (dirs \ ({e.a} \cup {e.mv[i][1] : i \in 1..Len(e.mv)})) \cup {e.b}
                         \cup {e.mv[i][2] : i \in {j \in 1..Len(e.mv) : e.mv[j][1] \in dirs}}
            /\ ns' = LET moved == {i \in 1..Len(e.mv) : e.mv[i][1] \in Dom(ns)}
                         keep == Dom(ns) \ {e.mv[i][1] : i \in moved} IN
                     [p \in keep \cup {e.mv[i][2] : i \in moved} |->
                        IF p \in keep THEN ns[p] ELSE ns[e.mv[CHOOSE i \in moved : e.mv[i][2] = p][1]]]
            /\ par' = [p \in Dom(par) \cup {e.b} \cup {e.mv[i][2] : i \in 1..Len(e.mv)} |->
                        IF p = e.b THEN e.bd
                        ELSE IF \E i \in 1..Len(e.mv) : e.mv[i][2] = p THEN e.mv[CHOOSE i \in 1..Len(e.mv) : e.mv[i][2] = p][3]
                        ELSE par[p]]
            /\ created' = created \cup {e.b}
            /\ UNCHANGED <<ino, fds, nino>>
    [] e.op = "remove" ->
         /\ IF e.a \in Dom(ns) THEN ns' = Del(ns, e.a) /\ UNCHANGED dirs
            ELSE ns' = ns /\ dirs' = dirs \ {e.a}
         /\ created' = created \ {e.a}
         /\ UNCHANGED <<ino, fds, nino, par>>
    [] e.op = "removeall" ->
         /\ ns' = [p \in {q \in Dom(ns) : ~Under(q, e.a)} |-> ns[p]]
         /\ dirs' = {d \in dirs : ~Under(d, e.a)}
         /\ created' = {q \in created : ~Under(q, e.a)}
         /\ UNCHANGED <<ino, fds, nino, par>>
    [] e.op = "mkdir" -> /\ dirs' = dirs \cup {e.a} /\ par' = Put(par, e.a, e.ad) /\ created' = created \cup {e.a}
                         /\ UNCHANGED <<ns, ino, fds, nino>>
    [] e.op = "link" -> /\ ns' = Put(ns, e.b, ns[e.a]) /\ par' = Put(par, e.b, e.bd) /\ created' = created \cup {e.b}
                        /\ UNCHANGED <<ino, fds, nino, dirs>>
    [] OTHER -> UNCHANGED <<ns, ino, fds, nino, dirs, par, created>>

(* a write into an inode that is currently visible at a protected path is a torn state *)
TornWrite(e) == /\ e.op \in {"write", "writeat", "readfrom", "ftruncate"} /\ e.h \in Dom(fds) /\ fds[e.h] # 0
                /\ \E p \in Prot : p \in Dom(ns) /\ ns[p] = fds[e.h]

DoCall(e) ==
  /\ bad' = IF bad = "" /\ ~ResultOK(e) THEN "result" ELSE bad
  /\ IF e.r = "ok" \/ (e.op \in {"write", "writeat", "readfrom"} /\ e.w > 0) \/ (e.op = "close")
       THEN Apply(e) ELSE UNCHANGED <<ns, ino, fds, nino, dirs, par, created>>
  /\ visible' = LET v1 == (visible \cap created') IN
                IF e.r # "ok" THEN v1
                ELSE IF e.op \in {"openfile", "mkdir"} /\ e.a \in created' /\ e.a \notin created /\ ~e.hid THEN v1 \cup {e.a}
                ELSE IF e.op \in {"rename", "link"} /\ e.b \in created' /\ ~e.bhid THEN v1 \cup {e.b}
                ELSE v1
  /\ hist' = LET h1 == Observe(ns', ino', hist) IN
             IF TornWrite(e) THEN [p \in Dom(h1) |-> IF p \in Dom(ns) /\ ns[p] = fds[e.h] THEN h1[p] \cup {<<"PARTIAL", 0, 0>>} ELSE h1[p]] ELSE h1
  /\ dfd' = IF e.op = "openfile" /\ e.r = "ok" /\ (IF e.excl THEN e.a ELSE Resolve(e.a)) \in dirs THEN Put(dfd, e.h, e.a)
             ELSE IF e.op = "close" /\ e.h \in Dom(dfd) THEN Del(dfd, e.h) ELSE dfd
  /\ pend' = LET changed == {p \in Dom(ns) \cup Dom(ns') : Val(ns, p) # Val(ns', p)}
                  p1 == [p \in Dom(pend) \cup changed |-> (IF p \in Dom(pend) THEN pend[p] ELSE {}) \cup (IF p \in changed THEN {Val(ns, p)} ELSE {})]
              IN IF e.op = "fsync" /\ e.r = "ok" /\ e.h \in Dom(dfd)
                   THEN [p \in {q \in Dom(p1) : ~(q \in Dom(par') /\ par'[q] = dfd[e.h])} |-> p1[p]]
                   ELSE p1
  /\ UNCHANGED <<ns0, dirs0, ino0, hdr>>

Step ==
  /\ l <= Len(Trace)
  /\ l' = l + 1
  /\ LET e == Trace[l] IN
     CASE e.ev = "begin" -> DoBegin(e)
       [] e.ev = "call"  -> DoCall(e)
       [] OTHER          -> UNCHANGED <<ns, dirs, par, ino, fds, nino, ns0, dirs0, ino0, hdr, hist, created, visible, bad, dfd, pend>>

Init == /\ l = 1 /\ ns = <<>> /\ dirs = {} /\ par = <<>> /\ ino = <<>> /\ fds = <<>> /\ nino = 1000
        /\ ns0 = <<>> /\ dirs0 = {} /\ ino0 = <<>> /\ hdr = <<>> /\ hist = <<>> /\ created = {} /\ visible = {} /\ bad = "" /\ dfd = <<>> /\ pend = <<>>
Spec == Init /\ [][Step]_vars

----------------------------------------------------------------------------
(* Properties, evaluated when the line just consumed was the "end" line of a trace. *)
AtEnd == l > 1 /\ l - 1 <= Len(Trace) /\ Trace[l - 1].ev = "end"
End == Trace[l - 1]
Judge(j) == AtEnd /\ hdr # <<>> /\ \E i \in 1..Len(hdr.judge) : hdr.judge[i] = j

Same(p) == p \in Dom(ns) /\ p \in Dom(ns0) /\ ns[p] = ns0[p] /\ ino[ns[p]] = ino0[ns0[p]]

(* binding: every logged result was the POSIX-predicted one *)
BindingOK == AtEnd => bad = ""

(* binding: the model's final directory equals the real final snapshot (abstract form) *)
FinalAgrees ==
  AtEnd =>
    LET fin == End.final
        fpaths == {fin[i].p : i \in 1..Len(fin)}
        ent(p) == fin[CHOOSE i \in 1..Len(fin) : fin[i].p = p] IN
    /\ fpaths = (Dom(ns) \cup dirs) \ {"."}
    /\ \A p \in fpaths :
         /\ (ent(p).k = "d") = (p \in dirs)
         /\ p \in Dom(ns) =>
              /\ (ino[ns[p]].n = 0 /\ ino[ns[p]].o \notin {"h", "mod"}) => ent(p).cid = ino[ns[p]].o
              /\ ino[ns[p]].m # -1 => ent(p).m = ino[ns[p]].m

(* C01 *)
(* an entry whose own removal was made to fail (second injected fault) necessarily remains: it is not held against the operation *)
Excuse == IF hdr = <<>> THEN {} ELSE SeqToSet(hdr.excuse)
CleanFailure ==
  Judge("c01") /\ End.outcome # "ok" =>
    /\ Dom(ns0) \subseteq Dom(ns) /\ (Dom(ns) \ Dom(ns0)) \subseteq Excuse /\ dirs = dirs0
    /\ \A p \in Dom(ns0) : Same(p)

(* C01 for multi-output operations: inputs and pre-existing files untouched, extra entries allowed only as listed complete outputs *)
CleanFailureInputs ==
  Judge("c01m") /\ End.outcome # "ok" => \A p \in Dom(ns0) : Same(p)

(* C02: a protected destination never showed anything but its old content or the final content, and was never absent *)
Atomic ==
  Judge("c02") =>
    \A p \in Dom(hist) :
      LET final == Obs(ns, ino, p)
          old == Obs(ns0, ino0, p) IN
      hist[p] \subseteq {old, final}

(* C02: at every point (= every crash point) whatever exists besides the initial entries and the named
   outputs is a hidden entry inside a directory that holds a destination *)
HiddenOnlyNow ==
  hdr # <<>> /\ (\E i \in 1..Len(hdr.judge) : hdr.judge[i] = "c02") =>
    /\ \A p \in visible : p \in SeqToSet(hdr.outs)
    /\ \A p \in created : p \in SeqToSet(hdr.outs) \/ par[p] \in SeqToSet(hdr.destdirs) \/ (\E d \in created : d # p /\ Under(p, d))

(* C03 *)
Outs == IF hdr = <<>> THEN {} ELSE SeqToSet(hdr.outs)
AliasesOut0(p) == \E q \in Outs : q \in Dom(ns0) /\
                     (ns0[q] = ns0[p] \/ (ino0[ns0[q]].k = "l" /\ ino0[ns0[q]].tg \in Dom(ns0) /\ ns0[ino0[ns0[q]].tg] = ns0[p]))
FinalEnt(p) == End.final[CHOOSE i \in 1..Len(End.final) : End.final[i].p = p]
Publishes ==
  Judge("c03") /\ End.outcome = "ok" =>
    /\ \A p \in Outs :
         /\ p \in Dom(ns)
         /\ ino[ns[p]].k = "f"
         /\ \A h \in Dom(fds) : fds[h] # ns[p]                        \* nobody still holds it open
         /\ (\E i \in 1..Len(End.final) : End.final[i].p = p) /\ FinalEnt(p).okpdf
         /\ (p \in Dom(ns0) /\ ino0[ns0[p]].k = "f") => (ino[ns[p]].m = ino0[ns0[p]].m)
    /\ \A p \in Dom(ns0) \ Outs : Same(p) \/ (AliasesOut0(p) /\ \E q \in Outs : ns[p] = ns[q])
    /\ Dom(ns) \ Dom(ns0) \subseteq Outs
    /\ dirs = dirs0

(* C05: every entry created during the operation sits directly inside one of the allowed directories *)
NoEscape ==
  hdr # <<>> /\ (\E i \in 1..Len(hdr.judge) : hdr.judge[i] = "c05") =>
    \A p \in created : par[p] \in SeqToSet(hdr.destdirs)

(* C07: durability. A regular, non-hidden name directly inside a destination directory is a "font name". *)
JudgeNow(j) == hdr # <<>> /\ \E i \in 1..Len(hdr.judge) : hdr.judge[i] = j
Synced(i) == ino[i].sn = ino[i].n
FontNames == {p \in (visible \cup Dom(ns0)) : p \in Dom(par) /\ par[p] \in SeqToSet(hdr.destdirs)}
MayBeAt(p) == (IF p \in Dom(pend) THEN pend[p] ELSE {}) \cup {Val(ns, p)}
NeverTorn ==
  JudgeNow("c07") => \A p \in FontNames : \A i \in MayBeAt(p) \ {0} : Synced(i)
DurableOnOk ==
  Judge("c07") /\ End.outcome = "ok" =>
    \A p \in Outs : /\ p \in Dom(ns) /\ Synced(ns[p])
                     /\ (p \notin Dom(pend) \/ pend[p] = {})

TraceAccepted == TLCGet("stats").diameter = Len(Trace) + 1
=============================================================================
