SPECIFICATION Spec
CONSTANTS
  Focus = {1, 2, 3, 4, 5, 6, 7, 8, 9, 10}
  MaxSteps = 3
  Kinds2 = {"set", "subset", "refill", "same"}
  MaxV = 10
  MaxInit = 6
  FreeAll = TRUE
  Emit = TRUE
INVARIANTS InitValid OpsValid ApplyAllowed RefillIsIdentity EmitCase
