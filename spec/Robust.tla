------------------------------- MODULE Robust -------------------------------
(* Shape model for C08.  It is not a parser model: for every relation that pdfcpu traverses in a  *)
(* document it enumerates the *shapes* of that relation - all directed graphs on few nodes with   *)
(* cycles, self-loops, shared children, dangling and wrong-typed targets - plus nesting depths    *)
(* around the recursion limit and mutation classes of valid inputs.  Every initial state is one   *)
(* shape.  The behaviour from it is the model's own traversal of the shape with a visited set /   *)
(* depth guard; TLC checks as design properties that the guarded traversal stops within a bound   *)
(* on every shape and never expands a node twice.  Every finished traversal is printed as a case; *)
(* the Go harness turns it into a real input and runs every entry point on it.                    *)
(*                                                                                                *)
(* Families:                                                                                      *)
(*  graph    relation with child sets (page tree Kids, field Kids, structure tree K, name/number  *)
(*           tree Kids, form XObject resources): adj[i] = set of children of node i; node 1 is    *)
(*           attached to the document; decor adds a dangling, wrong-typed (by reference or direct) or null child to node 1 *)
(*  fun      relation with one successor (action Next, bead N/V, xref Prev, XRefStm, Extends,     *)
(*           indirect Length, reference chains, Parent chains, colour spaces, functions, SMask,   *)
(*           IRT): succ[i] in 0..n+2: 0 none, n+1 dangling reference, n+2 wrong-typed target      *)
(*  outline  First/Next/Prev per item (targets 0 = none, 1..n, n+1 = the outlines root), Last     *)
(*  depth    a chain (or syntactic nesting) of the given depth for a relation / syntax kind       *)
(*  mut      truncation / length field mutation class k of a valid non-PDF input                  *)
(*  pdfmut   value class for the k-th occurrence of a structural field of a valid PDF             *)
(*  trunc    truncation of a valid PDF at the k-th structural boundary                            *)
EXTENDS RobustOps, TLC, Json

CONSTANTS GraphRels, FunRels, MaxN,
          SymN,        \* graphs on exactly SymN nodes are reduced by the symmetry of nodes 2 and 3 (0: never)
          GraphMod,    \* graphs on MaxN nodes are sampled: kept iff (code + Seed) % GraphMod = 0
          Decors, DecorMod,
          FunMod,      \* functional graphs on MaxN nodes are sampled the same way
          OutlineNs, OutlineMod, Outline1Mod, OutTrees, OutTreeMod,
          DepthRels, SynKinds, Limit, BigDepth, HugeDepth,
          MutTargets, MutOps, MutK,
          PdfBases, PdfK, PdfMod, TruncK,
          Seed, Emit

VARIABLES shape, ne, todo, visited, level, steps, revisit, status     \* ne: number of edges of the shape (constant per behaviour)
vars == <<shape, ne, todo, visited, level, steps, revisit, status>>

(* ------------------------------------------------------------------ shapes *)
(* Graphs are enumerated by an integer code (one bit per possible edge / one digit per pointer) so that sampling   *)
(* by "code + Seed" needs no enumeration of the whole space.  A sampling modulus must be coprime to the digit base *)
(* (2 for edges, n+2 / n+3 for pointers): otherwise the seed fixes the low digits - e.g. whether the root has a    *)
(* self loop - for the whole sample.                                                                              *)
BitVal == <<1, 2, 4, 8, 16, 32, 64, 128, 256, 512, 1024, 2048, 4096, 8192, 16384, 32768, 65536>>
RECURSIVE SumSet(_)
SumSet(S) == IF S = {} THEN 0 ELSE LET x == CHOOSE y \in S : TRUE IN x + SumSet(S \ {x})
RECURSIVE Pw(_, _)
Pw(b, k) == IF k = 0 THEN 1 ELSE b * Pw(b, k - 1)
Bit(c, k) == (c \div BitVal[k + 1]) % 2
Digit(c, b, k) == (c \div Pw(b, k)) % b

AdjOf(n, c) == [i \in 1..n |-> {j \in 1..n : Bit(c, (i - 1) * n + (j - 1)) = 1}]
AdjCode(n, a) == SumSet({BitVal[(q[1] - 1) * n + q[2]] : q \in {r \in (1..n) \X (1..n) : r[2] \in a[r[1]]}})
Swap23(n, a) == LET p(i) == IF i = 2 THEN 3 ELSE IF i = 3 THEN 2 ELSE i
                IN [i \in 1..n |-> {p(j) : j \in a[p(i)]}]
DecorIdx(d) == CASE d = "dangling" -> 1 [] d = "wrong" -> 2 [] d = "null" -> 3 [] d = "direct" -> 4 [] OTHER -> 0
(* graphs on n nodes: all below MaxN (up to the symmetry of nodes 2 and 3 when n = SymN), a sample on MaxN nodes;   *)
(* decorated graphs: all on up to 2 nodes, a sample (a different one per decoration) on more nodes                  *)
GraphCodeKept(n, c, d) ==
  /\ (n = MaxN /\ GraphMod > 1 => (c + Seed) % GraphMod = 0)
  /\ (d = "none" \/ n <= 2 \/ (c \div (IF n = MaxN THEN GraphMod ELSE 1) + Seed + DecorIdx(d)) % DecorMod = 0)
  /\ (n = SymN => c <= AdjCode(n, Swap23(n, AdjOf(n, c))))
GraphShapesKept ==
  UNION {{[fam |-> "graph", rel |-> t[1], n |-> n, adj |-> AdjOf(n, t[2]), decor |-> t[3]] :
            t \in {u \in GraphRels \X (0..(BitVal[n * n + 1] - 1)) \X Decors : GraphCodeKept(n, u[2], u[3])}} : n \in 1..MaxN}

FunOf(n, c) == [i \in 1..n |-> Digit(c, n + 3, i - 1)]
FunShapes ==
  UNION {{[fam |-> "fun", rel |-> t[1], n |-> n, succ |-> FunOf(n, t[2])] :
            t \in {u \in FunRels \X (0..(Pw(n + 3, n) - 1)) : n < MaxN \/ FunMod = 1 \/ (u[2] + Seed) % FunMod = 0}} : n \in 1..MaxN}

(* outline: targets 0 = none, 1..n = items, n+1 = the outlines root.  rfirst/last are the root's First/Last,       *)
(* first/ilast/next/prev the items' pointers.  One item: every pointer is free; more items: an item's Last equals  *)
(* its First, the root's First is item 1, and the graphs (one base n+2 digit per pointer) are sampled.  rt: the    *)
(* root dictionary also carries a title and a destination, so that it reads like an item when reached as one.     *)
OutT(n) == 0..(n + 1)
Outline1 ==
  {s \in [fam : {"outline"}, n : {1}, rt : BOOLEAN, rfirst : {1, 2}, last : OutT(1), first : [1..1 -> OutT(1)],
          ilast : [1..1 -> OutT(1)], next : [1..1 -> OutT(1)], prev : [1..1 -> OutT(1)]] :
     \/ Outline1Mod = 1
     \/ (s.first[1] * 27 + s.ilast[1] * 9 + s.next[1] * 3 + s.prev[1] + s.last * 81 + Seed) % Outline1Mod = 0
     \/ (s.rt /\ s.rfirst = 2 /\ s.prev[1] = 1)}     \* a root that reads like an item and a /Prev self loop
OutlineN(n) ==
  {[fam |-> "outline", n |-> n, rt |-> FALSE, rfirst |-> 1, last |-> Digit(c, n + 2, 3 * n),
    first |-> [i \in 1..n |-> Digit(c, n + 2, i - 1)], ilast |-> [i \in 1..n |-> Digit(c, n + 2, i - 1)],
    next |-> [i \in 1..n |-> Digit(c, n + 2, n + i - 1)], prev |-> [i \in 1..n |-> Digit(c, n + 2, 2 * n + i - 1)]] :
     c \in {x \in 0..(Pw(n + 2, 3 * n + 1) - 1) : OutlineMod = 1 \/ (x + Seed) % OutlineMod = 0}}
(* Outline trees with broken links: t top level items 1..t, the first of which has the c children t+1..n, all   *)
(* pointers well formed except the /Next and /Prev of the children, which are free (0 = none or any item: a      *)
(* sibling, the parent, another top level item - an item shared between two lists).  These are the shapes on     *)
(* which a reader that repairs duplicate items and broken sibling chains works hardest.  tc = 10 * t + c; one    *)
(* base n+1 digit per free pointer; sampled by code + Seed.                                                       *)
OutTree(tc, code) ==
  LET t == tc \div 10
      c == tc % 10
      n == t + c
  IN [fam |-> "outline", n |-> n, rt |-> FALSE, rfirst |-> 1, last |-> t,
      parent |-> [i \in 1..n |-> IF i <= t THEN n + 1 ELSE 1],
      first |-> [i \in 1..n |-> IF i = 1 THEN t + 1 ELSE 0],
      ilast |-> [i \in 1..n |-> IF i = 1 THEN n ELSE 0],
      next |-> [i \in 1..n |-> IF i <= t THEN (IF i < t THEN i + 1 ELSE 0) ELSE Digit(code, n + 1, i - t - 1)],
      prev |-> [i \in 1..n |-> IF i <= t THEN i - 1 ELSE Digit(code, n + 1, c + i - t - 1)]]
OutTreeShapes ==
  UNION {{OutTree(tc, code) : code \in {x \in 0..(Pw((tc \div 10) + (tc % 10) + 1, 2 * (tc % 10)) - 1) : (x + Seed) % OutTreeMod = 0}} : tc \in OutTrees}
OutlineShapes == UNION {IF n = 1 THEN Outline1 ELSE OutlineN(n) : n \in OutlineNs} \cup OutTreeShapes

DepthsOf(k) == {Limit - 1, Limit, Limit + 1, 10 * Limit, BigDepth} \cup (IF k \in SynKinds THEN {HugeDepth} ELSE {})
DepthShapes == UNION {{[fam |-> "depth", rel |-> k, depth |-> d] : d \in DepthsOf(k)} : k \in DepthRels \cup SynKinds}

MutShapes == [fam : {"mut"}, target : MutTargets, mop : MutOps, k : 0..(MutK - 1)]
(* structural fields of a PDF and the value classes written over their k-th occurrence *)
PdfFields == <<"Length", "Size", "W", "Index", "N", "First", "Count", "Prev", "startxref", "Root", "V", "R", "P", "O", "U",
               "ByteRange", "Contents", "Filter", "DecodeParms", "Predictor", "Columns", "Width", "Height", "BitsPerComponent",
               "Kids", "MediaBox", "Parent", "Type", "Subtype", "FT", "Fields", "Annots", "Resources", "Font", "Encrypt", "ID",
               "Widths", "FirstChar", "Rotate", "Extends", "XRefStm", "Info", "Pages", "AcroForm", "DA", "Rect", "AP", "Names">>
PdfVals == <<"0", "neg", "one", "huge", "huger", "real", "name", "null", "refself", "refdangling", "emptyarray", "string",
             "dict", "deeparray", "longname", "boolean">>
PdfKept(i, j, k) == PdfMod = 1 \/ (i * 5 + j * 3 + k + Seed) % PdfMod = 0     \* PdfMod: a prime other than 3 and 5
PdfMutShapes == {[fam |-> "pdfmut", base |-> t[1], field |-> PdfFields[t[2]], val |-> PdfVals[t[3]], k |-> t[4]] :
                   t \in {u \in PdfBases \X (1..Len(PdfFields)) \X (1..Len(PdfVals)) \X (0..(PdfK - 1)) : PdfKept(u[2], u[3], u[4])}}
TruncShapes == [fam : {"trunc"}, base : PdfBases, k : 0..(TruncK - 1)]

(* ------------------------------------------------------ the guarded traversal *)
GraphLike(s) == s.fam \in {"graph", "fun", "outline"}
Succs(s, i) == CASE s.fam = "graph"   -> s.adj[i]
                 [] s.fam = "fun"     -> IF s.succ[i] \in 1..s.n THEN {s.succ[i]} ELSE {}
                 [] s.fam = "outline" -> {s.first[i], s.ilast[i], s.next[i], s.prev[i]} \cap (1..s.n)
                 [] OTHER             -> {}
Edges(s) == IF GraphLike(s) THEN {<<i, j>> \in (1..s.n) \X (1..s.n) : j \in Succs(s, i)} ELSE {}
SetSeq(S) == LET RECURSIVE f(_)
                 f(T) == IF T = {} THEN <<>> ELSE LET x == CHOOSE y \in T : \A z \in T : y <= z IN <<x>> \o f(T \ {x})
             IN f(S)

InitOf(s) == /\ shape = s
             /\ ne = Cardinality(Edges(s))
             /\ todo = IF GraphLike(s) THEN <<1>> ELSE <<>>
             /\ visited = {} /\ level = 0 /\ steps = 0 /\ revisit = FALSE
             /\ status = IF s.fam \in {"mut", "pdfmut", "trunc"} THEN "ok" ELSE "run"
Init == \E s \in GraphShapesKept \cup FunShapes \cup OutlineShapes \cup DepthShapes \cup MutShapes \cup PdfMutShapes \cup TruncShapes : InitOf(s)

Visit == /\ status = "run" /\ GraphLike(shape)
         /\ steps' = steps + 1
         /\ IF todo = <<>> THEN status' = "ok" /\ UNCHANGED <<todo, visited, revisit>>
            ELSE LET v == Head(todo) IN
                 IF v \in visited
                   THEN todo' = Tail(todo) /\ revisit' = TRUE /\ UNCHANGED <<visited, status>>
                   ELSE /\ visited' = visited \cup {v}
                        /\ todo' = SetSeq(Succs(shape, v)) \o Tail(todo)
                        /\ UNCHANGED <<revisit, status>>
         /\ UNCHANGED <<shape, ne, level>>

Descend == /\ status = "run" /\ shape.fam = "depth"
           /\ steps' = steps + 1
           /\ IF level = shape.depth THEN status' = "ok" /\ UNCHANGED level
              ELSE IF level > Limit THEN status' = "depth" /\ UNCHANGED level
              ELSE level' = level + 1 /\ UNCHANGED status
           /\ UNCHANGED <<shape, ne, todo, visited, revisit>>

Next == Visit \/ Descend
Spec == Init /\ [][Next]_vars
Done == status # "run"

(* ------------------------------------------------------------ design properties *)
StepBound == steps <= (IF GraphLike(shape) THEN 2 + shape.n + ne ELSE Limit + 3)
ExpandOnce == Len(todo) <= 1 + ne
GuardedDepth == level <= Limit + 1
(* termination: the step counter grows with every step and is bounded, and the traversal can always move *)
Progress == status = "run" => ENABLED Next

(* ------------------------------------------------------------------- emission *)
RECURSIVE Closure(_, _, _)
Closure(s, X, k) == IF k = 0 THEN X ELSE Closure(s, X \cup UNION {Succs(s, v) : v \in X}, k - 1)
Reach(s) == Closure(s, {1}, s.n)
Cyclic(s) == GraphLike(s) /\ \E v \in Reach(s) : v \in Closure(s, Succs(s, v), s.n)
Case == [shape |-> shape, verdict |-> status, steps |-> steps, revisit |-> revisit, cyclic |-> Cyclic(shape)]
EmitCase == (Emit /\ Done) => PrintT(<<"SHAPE", ToJson(Case)>>)
=============================================================================
