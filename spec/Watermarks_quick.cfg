SPECIFICATION Spec
CONSTANTS
  NPages = 4
  StreamPats = {1}
  Fanouts = {0, 2}
  MaxAdds = 2
  Kinds = {"text", "image", "pdf"}
  Sels1 = {1, 2, 3, 5}
  Sels2 = {1, 3}
  SelsR = {1, 4}
  FreeDesc = FALSE
  FreeKind2 = FALSE
  Emit = TRUE
INVARIANTS WInRange CleanEnd LastRemoveSound EmitCase
