SPECIFICATION Spec
CONSTANTS
  NPages = 3
  StreamPats = {1}
  MaxAdds = 2
  Kinds = {"text", "image", "pdf"}
  Sels1 = {1, 2, 3, 4, 6}
  Sels2 = {1, 2, 3}
  SelsR = {1, 4}
  FreeDesc = FALSE
  FreeKind2 = FALSE
  Emit = TRUE
INVARIANTS WInRange CleanEnd LastRemoveSound EmitCase
