SPECIFICATION Spec
CONSTANTS
  RAlgs = {"rc4_40", "rc4_128", "aes_128", "aes_256", "aes_256_r6"}
  UClasses = {"empty", "ascii", "space", "blank", "unicode", "saslprep", "long40", "long130"}
  OClasses = {"ascii", "space", "blank", "unicode", "saslprep", "long40", "long130", "same"}
  Star = TRUE
  FewPerms = {{}, {3, 12}}
  ManyPerms <- Representatives
  Corpus = {"rich_objstm", "testWithText.pdf", "annotTest.pdf"}
  Emit = TRUE
INVARIANTS RoundTrip EmitCase
