SPECIFICATION TraceSpec
CONSTANTS
  N = 2
  Pre = {1}
  MaxFaults = 3
  Variant = "asis"
  HasCloseIn = TRUE
CONSTRAINT HighWater
INVARIANTS TypeOK AllOrNothing AllPublished ErrXorInstalled NeverLost BackupHoused
POSTCONDITION TraceAccepted
CHECK_DEADLOCK FALSE
