------------------------------- MODULE SecRT -------------------------------
(* C22: encrypt, then open / decrypt with either password.  A state is one case: *)
(* algorithm, password classes of the user and owner password, permission set,   *)
(* source document.  The expected outcomes are computed with the operators of    *)
(* Sec.tla (the same model that C25 replays); RoundTrip states that the model    *)
(* promises what the property says.                                              *)
EXTENDS Sec, TLC, Json

CONSTANTS RAlgs,      \* algorithms
          UClasses,   \* password classes for the user password (may contain "empty")
          OClasses,   \* password classes for the owner password ("same": equal to the user password)
          Star,       \* TRUE: only pairs with an "ascii" component or "same"
          FewPerms,   \* permission bit sets combined with every password pair
          ManyPerms,  \* permission bit sets combined with the ascii/ascii pair
          Corpus,     \* corpus documents (combined with two password pairs and one permission set)
          Emit

VARIABLE c
PermBits == {3, 4, 5, 6, 9, 10, 11, 12}
B(S, k, v) == IF k \in S THEN v ELSE 0
(* /P as 16-bit signed value: reserved bits as in pdfcpu's PermissionsNone (0xF0C3) plus the chosen bits *)
PermOf(S) == -3901 + B(S, 3, 4) + B(S, 4, 8) + B(S, 5, 16) + B(S, 6, 32) + B(S, 9, 256) + B(S, 10, 512) + B(S, 11, 1024) + B(S, 12, 2048)

Representatives == {{}, PermBits, {3}, {4}, {5}, {6}, {9}, {10}, {11}, {12}, {3, 12}, {5, 10}, {4, 6, 9, 11}}
AllPermSets == SUBSET PermBits

PairOK(u, o) == /\ ~(u = "empty" /\ o = "same")
                /\ Star => (u = "ascii" \/ o \in {"ascii", "same"})
Cases == {[alg |-> a, u |-> u, o |-> o, perm |-> p, doc |-> "rich"] : a \in RAlgs, u \in UClasses, o \in {x \in OClasses : TRUE}, p \in FewPerms}
         \cup {[alg |-> a, u |-> "ascii", o |-> "ascii", perm |-> p, doc |-> "rich"] : a \in RAlgs, p \in ManyPerms}
         \cup {[alg |-> a, u |-> "ascii", o |-> o, perm |-> {3, 12}, doc |-> d] : a \in RAlgs, o \in {"ascii", "same"}, d \in Corpus}

Init == c \in {x \in Cases : PairOK(x.u, x.o)}
Next == FALSE
Spec == Init /\ [][Next]_c

(* model passwords: a class and a role; the Go replayer maps them to real strings *)
UPW == IF c.u = "empty" THEN "" ELSE c.u \o "/user"
OPW == IF c.o = "same" THEN UPW ELSE c.o \o "/owner"
EncStep == [op |-> "Encrypt", alg |-> c.alg, u |-> UPW, o |-> OPW, n |-> "", p |-> PermOf(c.perm)]
D1 == After(Plain, EncStep)
Dec(u, o) == [op |-> "Decrypt", alg |-> c.alg, u |-> u, o |-> o, n |-> "", p |-> 0]

Expect == [enc    |-> Outcome(Plain, EncStep),
           open_u |-> OpenOutcome(D1, "VALIDATE", UPW, ""),
           open_o |-> OpenOutcome(D1, "VALIDATE", "", OPW),
           open_b |-> OpenOutcome(D1, "VALIDATE", UPW, OPW),
           dec_u  |-> Outcome(D1, Dec(UPW, "")),
           dec_o  |-> Outcome(D1, Dec("", OPW)),
           after  |-> After(D1, Dec(UPW, "")).enc,
           perm   |-> D1.perm]

(* what the property promises, as an invariant of the model *)
RoundTrip == /\ Expect.enc = "ok" /\ Expect.open_u = "ok" /\ Expect.open_o = "ok" /\ Expect.open_b = "ok"
             /\ Expect.dec_u = "ok" /\ Expect.dec_o = "ok" /\ Expect.after = FALSE
             /\ Expect.perm = PermOf(c.perm)

Case == [alg |-> c.alg, u |-> c.u, o |-> c.o, p |-> PermOf(c.perm), doc |-> c.doc, exp |-> Expect]
EmitCase == Emit => PrintT(<<"CASE", ToJson(Case)>>)
=============================================================================
