------------------------------- MODULE FormsModel ----------------------------
(* AcroForm fields, export and fill (pdfcpu "form export|fill").                            *)
(*                                                                                          *)
(* A form state is a sequence, aligned with the field table Fields, of records              *)
(*   [locked : BOOLEAN, val : sequence of strings]                                          *)
(* val is <<v>> for text / date / checkbox ("t","f") / radio group / combo box ("" = none)  *)
(* and the sequence of selected options for list boxes.  Export(d) reads exactly that state.*)
(* A fill op is a sequence, aligned with Fields, of [present, val, lock]: the fill JSON     *)
(* carries, for every present field, the value and the lock flag the field shall have.      *)
(*                                                                                          *)
(* FillAllowed(pre, op, post): the states a correct Fill may produce                        *)
(*   - a field that is not present keeps value and lock flag,                               *)
(*   - a present field gets the lock flag of the op,                                        *)
(*   - a present field that is unlocked in pre gets exactly the (valid) value of the op,    *)
(*   - a present field that is locked in pre keeps its value or takes the op's value        *)
(*     (the property leaves open whether filling overrides a read-only field; nothing else  *)
(*     may happen to it).                                                                   *)
(* Hence Fill(d, Export(d)) = d, and Export(Fill(d, v)) = v on unlocked fields.             *)
(* Valid values per type: text - any string of the field's repertoire within MaxLen, also   *)
(* text that happens to look like a date (pdfcpu then lists the field among the date fields *)
(* of the export - a presentation detail; the state, a name -> value map, is unaffected);   *)
(* date - a date in the field's format or none; radio/combo/list - existing options.        *)
(* Strings starting with @ are tokens the harness expands: @latin (Latin-1 letters), @esc   *)
(* (parentheses, backslash), @spaces (leading/trailing blanks), @lines (two lines),         *)
(* @astral (text with supplementary-plane characters, i.e. UTF-16 surrogate pairs),         *)
(* @cjk (BMP non-Latin text), @cyr (Cyrillic).  The strings themselves live in the harness  *)
(* (TLC strings stay ASCII); the model only needs their identity.                           *)
EXTENDS Integers, Sequences, FiniteSets, TLC, Json

Fields == <<
  [name |-> "tx", type |-> "text",  multi |-> FALSE, maxlen |-> 0, fmt |-> "",           opts |-> <<>>],
  [name |-> "ta", type |-> "text",  multi |-> TRUE,  maxlen |-> 0, fmt |-> "",           opts |-> <<>>],
  [name |-> "tm", type |-> "text",  multi |-> FALSE, maxlen |-> 5, fmt |-> "",           opts |-> <<>>],
  [name |-> "d1", type |-> "date",  multi |-> FALSE, maxlen |-> 0, fmt |-> "dd.mm.yyyy", opts |-> <<>>],
  [name |-> "d2", type |-> "date",  multi |-> FALSE, maxlen |-> 0, fmt |-> "yyyy-mm-dd", opts |-> <<>>],
  [name |-> "cb", type |-> "check", multi |-> FALSE, maxlen |-> 0, fmt |-> "",           opts |-> <<>>],
  [name |-> "rb", type |-> "radio", multi |-> FALSE, maxlen |-> 0, fmt |-> "",           opts |-> <<"female", "male", "non-binary">>],
  [name |-> "co", type |-> "combo", multi |-> FALSE, maxlen |-> 0, fmt |-> "",           opts |-> <<"London", "San Francisco", "Sidney", "@astral">>],
  [name |-> "l1", type |-> "list",  multi |-> FALSE, maxlen |-> 0, fmt |-> "",           opts |-> <<"x", "y", "z", "@cjk">>],
  [name |-> "lm", type |-> "list",  multi |-> TRUE,  maxlen |-> 0, fmt |-> "",           opts |-> <<"x", "y", "z", "@astral">>] >>
NF == Len(Fields)

Range(s) == {s[i] : i \in 1..Len(s)}
Injective(s) == \A i, j \in 1..Len(s) : i # j => s[i] # s[j]

(* value repertoires (what the generator may choose; all of them valid) *)
TextVals(f) == IF f.maxlen > 0 THEN {"abc", "12345", "x", ""}                   \* all within maxlen 5
               ELSE IF f.multi THEN {"@lines", "one line", "", "@latin", "@astral", "@cjk", "2001-12-24"}
               ELSE {"Plain", "", "@latin", "@esc", "@spaces", "@astral", "@cjk", "@cyr", "24.12.2001", "2001-12-24"}
DateVals(f) == CASE f.fmt = "dd.mm.yyyy" -> {"31.12.1999", "01.02.2003", "29.02.2024", ""}
                 [] f.fmt = "yyyy-mm-dd" -> {"2020-05-06", "1999-12-31", ""}

Valid(f, v) ==
  CASE f.type = "text"  -> Len(v) = 1 /\ v[1] \in TextVals(f)
    [] f.type = "date"  -> Len(v) = 1 /\ v[1] \in DateVals(f)
    [] f.type = "check" -> Len(v) = 1 /\ v[1] \in {"t", "f"}
    [] f.type = "radio" -> Len(v) = 1 /\ v[1] \in Range(f.opts) \cup {""}
    [] f.type = "combo" -> Len(v) = 1 /\ v[1] \in Range(f.opts) \cup {""}
    [] f.type = "list"  -> /\ Range(v) \subseteq Range(f.opts) /\ Injective(v)
                           /\ (~f.multi => Len(v) <= 1)

(* the values a fill step may SET (a subset of the valid ones: un-choosing a radio button or the *)
(* entry of a single-select list is not an operation a form offers)                              *)
SetVals(f) ==
  CASE f.type = "text"  -> IF f.maxlen > 0 THEN << <<"abc">>, <<"12345">>, <<"">>, <<"x">> >>
                           ELSE IF f.multi THEN << <<"@lines">>, <<"@astral">>, <<"2001-12-24">>, <<"one line">>, <<"">>, <<"@latin">>, <<"@cjk">> >>
                           ELSE << <<"Plain">>, <<"@astral">>, <<"24.12.2001">>, <<"@latin">>, <<"@esc">>, <<"@cjk">>, <<"@spaces">>, <<"">>, <<"@cyr">>, <<"2001-12-24">> >>
    [] f.type = "date"  -> IF f.fmt = "dd.mm.yyyy" THEN << <<"31.12.1999">>, <<"01.02.2003">>, <<"">>, <<"29.02.2024">> >>
                           ELSE << <<"2020-05-06">>, <<"1999-12-31">>, <<"">>, <<"2020-05-06">> >>
    [] f.type = "check" -> << <<"t">>, <<"f">>, <<"t">>, <<"f">> >>
    [] f.type = "radio" -> << <<"female">>, <<"male">>, <<"non-binary">>, <<"male">> >>
    [] f.type = "combo" -> << <<"London">>, <<"San Francisco">>, <<"@astral">>, <<"">>, <<"Sidney">> >>
    [] f.type = "list"  -> IF f.multi THEN << <<"x", "z">>, <<"@astral", "y">>, <<"y">>, <<"z", "y">>, <<>>, <<"x", "y", "z", "@astral">> >>
                           ELSE << <<"x">>, <<"@cjk">>, <<"z">>, <<"y">> >>
NV == 10    \* the longest repertoire
(* initial values additionally cover the unset states *)
InitVals(f) ==
  CASE f.type = "radio" -> Append(SetVals(f), <<"">>)
    [] f.type = "list" /\ ~f.multi -> Append(SetVals(f), <<>>)
    [] OTHER -> SetVals(f)

---------------------------------------------------------------------------
(* the relation that judges a real fill *)
FieldAllowed(pre, op, post) ==
  IF ~op.present THEN post = pre
  ELSE /\ post.locked = op.lock
       /\ IF pre.locked THEN post.val \in {pre.val, op.val} ELSE post.val = op.val

FillAllowed(pre, op, post) == \A i \in 1..NF : FieldAllowed(pre[i], op[i], post[i])

MustChange(pre, op) == \E i \in 1..NF : op[i].present /\ (op[i].lock # pre[i].locked \/ (~pre[i].locked /\ op[i].val # pre[i].val))

OpValid(op) == \A i \in 1..NF : op[i].present => Valid(Fields[i], op[i].val)

ExportOp(d) == [i \in 1..NF |-> [present |-> TRUE, val |-> d[i].val, lock |-> d[i].locked]]

(* the deterministic reading "fill overrides read-only fields" - used only to drive the generator's own state *)
Apply(pre, op) == [i \in 1..NF |-> IF op[i].present THEN [locked |-> op[i].lock, val |-> op[i].val] ELSE pre[i]]
=============================================================================
