------------------------------ MODULE NameTree ------------------------------
(* PDF name trees (pkg/pdfcpu/model/nameTree.go) against a sorted map.                                *)
(* Keys are integer codes base*16 + level: level n stands for the base name followed by n bytes 0x01   *)
(* (the suffix the real code appends to make a duplicate name unique), so code order = byte order.      *)
(* Part 1: the abstract map and its operations (source of expected behaviour).                         *)
(* Part 2: structural invariants of a projected tree; a node is a record                               *)
(*         [keys, vals, nn, kmin, kmax, kids]  (keys/vals of a leaf in stored order, nn = number of     *)
(*         Names entries the node holds itself, kmin/kmax = its limits as codes, 0 = empty string).    *)
EXTENDS Integers, Sequences, FiniteSets, TLC, SequencesExt

Code(b, l)  == b * 16 + l
BaseOf(c)   == c \div 16
LevelOf(c)  == c % 16

EmptyMap     == [k \in {} |-> 0]
Put(m, k, v) == [x \in (DOMAIN m) \cup {k} |-> IF x = k THEN v ELSE m[x]]
Del(m, k)    == [x \in (DOMAIN m) \ {k} |-> m[x]]
(* Add without name references: an existing name is kept (the real code ignores the duplicate). *)
AddPlain(m, k, v) == IF k \in DOMAIN m THEN m ELSE Put(m, k, v)
(* Add with name references: a duplicate name gets the first free 0x01-suffixed variant. *)
FreeLevel(m, b)  == CHOOSE l \in 0..15 : Code(b, l) \notin DOMAIN m /\ \A j \in 0..(l - 1) : Code(b, j) \in DOMAIN m
HasFree(m, b, maxLevel) == \E l \in 0..maxLevel : Code(b, l) \notin DOMAIN m
UniqKey(m, b)    == Code(b, FreeLevel(m, b))
AddUniq(m, b, v) == Put(m, UniqKey(m, b), v)
SortedKeys(m)    == SetToSortSeq(DOMAIN m, <)
ValsOf(m)        == LET ks == SortedKeys(m) IN [i \in 1..Len(ks) |-> m[ks[i]]]

(* ---- structural invariants of a projected tree ---- *)
IsLeaf(n) == n.kids = <<>>
RECURSIVE Flat(_)
Flat(n) == IF IsLeaf(n) THEN n.keys ELSE FlattenSeq([i \in 1..Len(n.kids) |-> Flat(n.kids[i])])
RECURSIVE FlatVals(_)
FlatVals(n) == IF IsLeaf(n) THEN n.vals ELSE FlattenSeq([i \in 1..Len(n.kids) |-> FlatVals(n.kids[i])])
RECURSIVE Nodes(_)          \* all nodes, pre-order
Nodes(n) == <<n>> \o (IF IsLeaf(n) THEN <<>> ELSE FlattenSeq([i \in 1..Len(n.kids) |-> Nodes(n.kids[i])]))
RECURSIVE Depth(_)
Depth(n) == IF IsLeaf(n) THEN 1 ELSE 1 + Max({Depth(n.kids[i]) : i \in 1..Len(n.kids)})

StrictlyInc(s) == \A i \in 1..(Len(s) - 1) : s[i] < s[i + 1]
SeqMin(s) == Min({s[i] : i \in 1..Len(s)})
SeqMax(s) == Max({s[i] : i \in 1..Len(s)})

(* keys unique and in sorted order over the whole tree *)
Sorted(t)      == StrictlyInc(Flat(t))
(* every node's limits are the least and greatest key below it (root included unless the tree is empty) *)
LimitsMatch(t) == LET ns == Nodes(t) IN \A i \in 1..Len(ns) : LET n == ns[i] f == Flat(n) IN
                    f # <<>> => n.kmin = SeqMin(f) /\ n.kmax = SeqMax(f)
(* kids' ranges are ordered and disjoint *)
KidsOrdered(t) == LET ns == Nodes(t) IN \A i \in 1..Len(ns) : LET n == ns[i] IN
                    \A j \in 1..(Len(n.kids) - 1) : n.kids[j].kmax < n.kids[j + 1].kmin
(* node shapes: only the root may be empty, an intermediate node holds no names itself, leaves hold all their names *)
Shape(t)       == LET ns == Nodes(t) IN \A i \in 1..Len(ns) : LET n == ns[i] IN
                    /\ (i > 1 => Flat(n) # <<>>)
                    /\ (IF IsLeaf(n) THEN n.nn = Len(n.keys) /\ Len(n.vals) = Len(n.keys) ELSE n.nn = 0 /\ n.keys = <<>>)
(* agreement with the abstract map given as sorted key / value sequences *)
MapAgree(t, keys, vals) == Flat(t) = keys /\ FlatVals(t) = vals
(* look = sequence of [k, found, v] observations of Value(k) *)
LookupsAgree(look, keys, vals) ==
  \A i \in 1..Len(look) : LET o == look[i] IN
     IF \E j \in 1..Len(keys) : keys[j] = o.k
       THEN o.found /\ o.v = vals[CHOOSE j \in 1..Len(keys) : keys[j] = o.k]
       ELSE ~o.found
=============================================================================
