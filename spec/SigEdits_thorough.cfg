SPECIFICATION Spec
CONSTANTS
  Steps = 16
  Deltas = {1, 2, 3, 4, 5, 6, 7, 8, 9, 10, 11, 12, 13, 14, 15}
  BRMax = 2
INVARIANTS ChangesValue NonZeroShift Emit
