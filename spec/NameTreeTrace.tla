---------------------------- MODULE NameTreeTrace ----------------------------
(* Judges projections of the real name tree (harness/cmd/c39) with the invariants of NameTree.tla.     *)
(* A record: [kind ("step" | "init" | "reread"), mode, op, k, tree, pre, klist, look, res, xkeys, xvals, *)
(* xres, raw]; xkeys/xvals/xres are the expectations computed by NameTreeGen for this step.              *)
(* Every record is judged; a record failing some conjunct is printed as a BAD payload with the verdict  *)
(* of each conjunct (so one run judges all records).                                                    *)
EXTENDS NameTree, Json
Trace == ndJsonDeserialize("records.ndjson")
VARIABLE l
Init == l = 1
Next == l <= Len(Trace) /\ l' = l + 1
Spec == Init /\ [][Next]_l

Diag(rec) ==
  LET t == rec.tree f == Flat(t) IN
  [ sorted    |-> StrictlyInc(f),
    limits    |-> LimitsMatch(t),
    kids      |-> KidsOrdered(t),
    shape     |-> Shape(t),
    map       |-> f = rec.xkeys /\ FlatVals(t) = rec.xvals,
    keylist   |-> rec.klist = f,
    lookups   |-> LookupsAgree(rec.look, rec.xkeys, rec.xvals),
    result    |-> rec.kind # "step" \/ (rec.res.ok = rec.xres.ok /\ rec.res.empty = rec.xres.empty /\ rec.res.rk = rec.xres.rk
                                        /\ rec.res.fail = rec.xres.fail /\ (rec.res.fail \/ rec.res.err = "")),
    (* an operation that returns an error leaves the tree (keys, values, limits, structure, String()) as it was *)
    atomic    |-> rec.kind # "step" \/ rec.res.err = "" \/ (t = rec.pre /\ rec.str = rec.prestr),
    preserved |-> rec.kind # "reread" \/ t = rec.pre ]
Judge(rec) == LET d == Diag(rec) IN \A c \in DOMAIN d : d[c]
RecordOK == l <= Len(Trace) =>
              LET d == Diag(Trace[l]) IN (\A c \in DOMAIN d : d[c]) \/ PrintT(<<"BAD", ToJson([l |-> l, diag |-> d])>>)
TraceAccepted == TLCGet("stats").diameter = Len(Trace) + 1
=============================================================================
