SPECIFICATION Spec
CONSTANTS
  Mode = "bfs"
  Ns = {4}
  Shapes = {1,2,3,4,5,6}
  Deep = {4,5}
  MaxLen = 2
  MaxPages = 40
  Deep3 = {4,5}
  Emit = TRUE
INVARIANTS TreesOK PagesOK StepSane EmitCase
