------------------------------- MODULE Forms -------------------------------
(* Case generator for C37: initial form states and 1-3 fill steps over the field table of     *)
(* FormsModel.tla.  The expected behaviour is not precomputed here: the harness records the    *)
(* real pre/post states of every step and FormsTrace.tla judges them with FillAllowed.         *)
EXTENDS FormsModel

---------------------------------------------------------------------------
(* generator: one focus field with free choices, the other fields rotate through their repertoires *)
CONSTANTS Focus,     \* set of field indices that act as focus
          MaxSteps,  \* number of fill steps per case
          Kinds2,    \* step kinds available after the first step: subset of {"set", "subset", "refill", "same"}
          MaxV,      \* the focus field's first step chooses among the first MaxV values of its repertoire
          MaxInit,   \* initial values: the first MaxInit entries of the focus field's repertoire
          FreeAll,   \* TRUE: initial lock flag and second step are chosen freely; FALSE: they rotate with the other choices
          Emit

VARIABLES focus, init, cur, ops
vars == <<focus, init, cur, ops>>

Pick(s, k) == s[((k - 1) % Len(s)) + 1]
KindSeq == SelectSeq(<<"set", "subset", "refill", "same">>, LAMBDA k : k \in Kinds2)

InitState(fc, iv, il) ==
  [j \in 1..NF |-> IF j = fc THEN [locked |-> il, val |-> InitVals(Fields[j])[iv]]
                   ELSE [locked |-> ((iv + j) % 3 = 0), val |-> Pick(InitVals(Fields[j]), iv + j)]]

(* "set": every field gets a value and a lock flag; "subset": only the focus field is in the JSON;   *)
(* "refill": the JSON is the export of the current document; "same": the focus field is sent with     *)
(* its current value but the other lock flag, the others as exported                                  *)
MkOp(kind, fc, v, l, d) ==
  CASE kind = "set"    -> [j \in 1..NF |-> IF j = fc THEN [present |-> TRUE, val |-> SetVals(Fields[j])[v], lock |-> l]
                                           ELSE [present |-> TRUE, val |-> Pick(SetVals(Fields[j]), v + j), lock |-> ((v + j + (IF l THEN 1 ELSE 0)) % 2 = 0)]]
    [] kind = "subset" -> [j \in 1..NF |-> IF j = fc THEN [present |-> TRUE, val |-> SetVals(Fields[j])[v], lock |-> l]
                                           ELSE [present |-> FALSE, val |-> <<>>, lock |-> FALSE]]
    [] kind = "refill" -> ExportOp(d)
    [] kind = "same"   -> [j \in 1..NF |-> IF j = fc THEN [present |-> TRUE, val |-> d[j].val, lock |-> ~d[j].locked]
                                           ELSE [present |-> TRUE, val |-> d[j].val, lock |-> d[j].locked]]

Init == /\ focus \in Focus
        /\ \E iv \in 1..(NV + 1), il \in BOOLEAN :
             /\ iv <= Len(InitVals(Fields[focus])) /\ iv <= MaxInit
             /\ (~FreeAll => il = ((iv + focus) % 2 = 0))
             /\ init = InitState(focus, iv, il)
        /\ cur = init /\ ops = <<>>

Step == /\ Len(ops) < MaxSteps
        /\ \E kind \in (IF ops = <<>> THEN {"set"} ELSE Kinds2), v \in 1..NV, l \in BOOLEAN :
             /\ ((~FreeAll /\ ops # <<>>) \/ Len(ops) >= 2 =>         \* rotated, not chosen (a third step always is)
                   /\ kind = Pick(KindSeq, focus + ops[Len(ops)].v + Len(ops) + (IF ops[Len(ops)].fields[focus].lock THEN 2 ELSE 0))
                   /\ (kind \in {"set", "subset"} => l = ((focus + ops[Len(ops)].v) % 2 = 0)))
             /\ v <= Len(SetVals(Fields[focus])) /\ (ops = <<>> => v <= MaxV)
             /\ (kind \in {"refill", "same"} => v = 1 /\ l)            \* no parameters
             /\ (kind \in {"set", "subset"} /\ ops # <<>> => v = (ops[Len(ops)].v % Len(SetVals(Fields[focus]))) + 1) \* a later set step takes the next value
             /\ LET op == MkOp(kind, focus, v, l, cur)
                IN /\ ops' = Append(ops, [kind |-> kind, v |-> v, fields |-> op, allowed |-> FillAllowed(cur, op, Apply(cur, op))])
                   /\ cur' = Apply(cur, op)
        /\ UNCHANGED <<focus, init>>
Next == Step
Spec == Init /\ [][Next]_vars

(* design properties of the model *)
InitValid   == \A i \in 1..NF : Valid(Fields[i], init[i].val)
OpsValid    == \A k \in 1..Len(ops) : OpValid(ops[k].fields)
ApplyAllowed == \A k \in 1..Len(ops) : ops[k].allowed      \* the generator's own successor is one of the allowed ones
RefillIsIdentity == FillAllowed(cur, ExportOp(cur), cur) /\ ~MustChange(cur, ExportOp(cur))

FieldDefs == [i \in 1..NF |-> Fields[i]]
Case == [focus |-> Fields[focus].name, init |-> init, ops |-> [k \in 1..Len(ops) |-> [kind |-> ops[k].kind, fields |-> ops[k].fields]]]
EmitCase == /\ (Emit /\ Len(ops) = MaxSteps => PrintT(<<"FORM", ToJson(Case)>>))
            /\ (Emit /\ ops = <<>> => PrintT(<<"FIELDS", ToJson(FieldDefs)>>))     \* the field table, for the harness
=============================================================================
