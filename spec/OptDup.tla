------------------------------- MODULE OptDup -------------------------------
(* Property C20: optimization is a stuttering step on what the pages show, and is         *)
(* idempotent on the set of objects.                                                     *)
(*                                                                                       *)
(* A document with deliberate duplicates is chosen dimension by dimension:                *)
(*   np pages; nres resource objects of one kind (font, image, form XObject);             *)
(*   resource 1 is the base, each further resource is related to it:                      *)
(*     "equal"    byte-identical copy (a true duplicate),                                 *)
(*     "near"     same stream bytes, different dictionary,                                *)
(*     "nearnull" same as the base except that one dictionary entry is a reference to a   *)
(*                free object (null) where the base has a value,                          *)
(*     "distinct" different stream bytes, same dictionary;                                *)
(*   use[p]: the resource page p draws; the layout of the resource dictionaries (own,     *)
(*   own with only the used resource under one common name, one shared indirect           *)
(*   dictionary, inherited from the page tree root, own dictionaries whose category        *)
(*   sub-dictionary (/Font or /XObject) is one shared indirect object while the pages use  *)
(*   different entries of it - without and with a /Resources entry lacking that category   *)
(*   on the ancestor node); duplicate content streams;                                     *)
(*   unreferenced objects; the input's own layout (classic / object stream); private      *)
(*   page-piece data sharing objects with the visible pages; optimizer switches.           *)
(* Class(r) is the appearance of a resource: resources of different classes look          *)
(* different, so a page must show Class(use[p]) before and after every Optimize step.     *)
EXTENDS Integers, Sequences, FiniteSets, TLC, Json

CONSTANTS MaxPages, MaxRes, Kinds, Emit

VARIABLES pc, sh, phase, removed
vars == <<pc, sh, phase, removed>>

Dims == <<"np", "kind", "nres", "rel", "use", "layout", "dupcontent", "unref", "instm", "private", "optdupcs", "optres", "xsos">>

Unset == [np |-> 0, kind |-> "", nres |-> 0, rel |-> <<>>, use |-> <<>>, layout |-> "", dupcontent |-> FALSE, unref |-> FALSE, instm |-> FALSE, private |-> "",
          optdupcs |-> FALSE, optres |-> FALSE, xsos |-> ""]

Rels == {"equal", "near", "nearnull", "distinct"}

Dom(d, s) ==
  CASE d = "np"         -> 1..MaxPages
    [] d = "kind"       -> Kinds
    [] d = "nres"       -> 1..MaxRes
    [] d = "rel"        -> {f \in [1..s.nres -> Rels] : f[1] = "equal"}     \* resource 1 is the base
    [] d = "use"        -> [1..s.np -> 1..s.nres]
    [] d = "layout"     -> {"own", "ownmin", "shared", "inherited", "sharedsub", "sharedsubanc"}
    [] d = "dupcontent" -> BOOLEAN
    [] d = "unref"      -> BOOLEAN
    [] d = "instm"      -> BOOLEAN      \* the input keeps its non-stream objects in an object stream (read lazily)
    [] d = "private"    -> {"none", "page", "root", "both"}   \* page-piece (PieceInfo) data in its own indirect objects, several
                                        \* levels deep, that references resources the pages also use
    [] d = "optdupcs"   -> BOOLEAN      \* conf.OptimizeDuplicateContentStreams
    [] d = "optres"     -> BOOLEAN      \* conf.OptimizeResourceDicts
    [] d = "xsos"       -> {"00", "11"}

Init == pc = 1 /\ sh = Unset /\ phase = "build" /\ removed = 0

Choose == /\ phase = "build" /\ pc <= Len(Dims)
          /\ \E v \in Dom(Dims[pc], sh) : sh' = [sh EXCEPT ![Dims[pc]] = v]
          /\ pc' = pc + 1 /\ UNCHANGED <<phase, removed>>

Built == /\ phase = "build" /\ pc > Len(Dims) /\ phase' = "orig" /\ UNCHANGED <<pc, sh, removed>>

-----------------------------------------------------------------------------
(* appearance classes *)
Class(s, r) == IF s.rel[r] = "equal" THEN "base" ELSE s.rel[r]
Shows(s, p) == Class(s, s.use[p])
(* pages with equal content bytes: same resource name in the content and same marker *)
Marker(s, p) == IF s.dupcontent THEN s.use[p] ELSE p
Abs(s) == [p \in 1..s.np |-> [shows |-> Shows(s, p), marker |-> Marker(s, p)]]

(* objects an optimizer may remove: duplicates of a used class, unreferenced objects *)
UsedClasses(s) == {Shows(s, p) : p \in 1..s.np}
Removable(s) == (s.nres - Cardinality({Class(s, r) : r \in 1..s.nres})) + (IF s.unref THEN 1 ELSE 0)

(* Optimize removes some removable objects the first time and nothing afterwards; the pages are untouched *)
Optimize1 == /\ phase = "orig" /\ phase' = "opt1"
             /\ \E k \in 0..Removable(sh) : removed' = k
             /\ UNCHANGED <<pc, sh>>
Optimize2 == /\ phase = "opt1" /\ phase' = "opt2" /\ UNCHANGED <<pc, sh, removed>>

Next == Choose \/ Built \/ Optimize1 \/ Optimize2
Spec == Init /\ [][Next]_vars

OptStep == (phase = "orig" \/ phase = "opt1") /\ phase' # phase
OptimizeStutters == [][OptStep => Abs(sh') = Abs(sh)]_vars
SecondStep == phase = "opt1" /\ phase' = "opt2"
Idempotent == [][SecondStep => removed' = removed]_vars

TypeOK == phase \in {"build", "orig", "opt1", "opt2"} /\ removed \in 0..(MaxRes + 1)

Case == [shape |-> sh, expect |-> Abs(sh), classes |-> [r \in 1..sh.nres |-> Class(sh, r)]]
EmitCase == (Emit /\ phase = "orig") => PrintT(<<"CASE", ToJson(Case)>>)
=============================================================================
