---------------------------- MODULE RobustTrace ----------------------------
(* Judges the recorded outcomes of every entry point on every concretised shape (harness/cmd/robust c08): *)
(* all outcomes must be ok or error (RobustOps).  A record with broken operations is printed as BAD.       *)
EXTENDS RobustOps, TLC, Json

Trace == ndJsonDeserialize("records.ndjson")
VARIABLE l
Init == l = 1
Next == l <= Len(Trace) /\ l' = l + 1
Spec == Init /\ [][Next]_l

RecordOK == l <= Len(Trace) =>
              LET r == Trace[l]
                  b == BrokenOps(r.outs)
              IN /\ \A i \in 1..Len(r.outs) : r.outs[i] \in Outcomes
                 /\ (b = {} \/ PrintT(<<"BAD", ToJson([l |-> l, ops |-> b])>>))
TraceAccepted == TLCGet("stats").diameter = Len(Trace) + 1
=============================================================================
