------------------------------- MODULE Staged -------------------------------
(* Protocol specification of pdfcpu's single-file publication                 *)
(* (pkg/api/file.go openStagedOutput / stagedOutput.commit / cleanup, and the  *)
(* deferred completion-flag pattern of the api.*File functions).               *)
(* One action per file-system call of the real code, so that recorded os-call  *)
(* traces can be checked for inclusion (StagedTrace.tla).                      *)
(*                                                                             *)
(*   Variant "new"     : outFile does not exist  -> O_EXCL create, write in    *)
(*                       place, remove on failure                              *)
(*   Variant "replace" : outFile exists          -> O_EXCL says EEXIST, stat,  *)
(*                       hidden temp next to the target, fchmod, write, close, *)
(*                       rename                                                *)
(*   Variant "inplace" : outFile empty or the input itself -> as "replace"     *)
(*                       without the O_EXCL attempt                            *)
(*   Decision          : how the caller chooses between commit and cleanup     *)
(*        "okflag"   deferred function keyed on a completion flag (today)      *)
(*        "errkeyed" deferred function keyed on err != nil (the merge defect)  *)
(*        "nodefer"  straight-line code (the WriteContextFile defect)          *)
(* Environment: up to MaxFaults calls fail; the body may panic in a write.     *)
EXTENDS Integers, Sequences, FiniteSets, TLC

CONSTANTS Variant, Decision, MaxFaults, MaxWrites, AllowPanic

VARIABLES pc,       \* control state
          out,      \* content of the destination path: "absent" | "old" | "partial" | "complete"
          tmp,      \* content of the hidden temp file:  "none" | "partial" | "complete"
          outMode,  \* "orig" | "default"   permission bits of the destination
          tmpMode,  \* "orig" | "default"
          wr,       \* number of body writes done (saturates at MaxWrites)
          okflag,   \* completion flag of the caller
          err,      \* an error is pending
          panicked, \* unwinding from a panic
          faults,   \* injected faults so far
          rmFailed  \* a removal of a leftover was itself made to fail
vars == <<pc, out, tmp, outMode, tmpMode, wr, okflag, err, panicked, faults, rmFailed>>

Repl  == Variant # "new"
Init0 == IF Repl THEN "old" ELSE "absent"
Init == /\ pc = (IF Variant = "inplace" THEN "stat" ELSE "openexcl")
        /\ out = Init0 /\ tmp = "none" /\ outMode = "orig" /\ tmpMode = "default"
        /\ wr = 0 /\ okflag = FALSE /\ err = FALSE /\ panicked = FALSE /\ faults = 0 /\ rmFailed = FALSE

CanFault == faults < MaxFaults
(* a call that fails without effect *)
Fails(next) == CanFault /\ faults' = faults + 1 /\ err' = TRUE /\ pc' = next
(* a call on a path where the error is already pending: it may fail as well, nothing else changes *)
MayFail == \/ UNCHANGED faults
           \/ CanFault /\ faults' = faults + 1

----------------------------------------------------------------------------
(* openStagedOutput *)
OpenExcl ==
  /\ pc = "openexcl"
  /\ \/ /\ Variant = "new"        \* O_CREATE|O_EXCL succeeds: the new output exists (empty)
        /\ out' = "partial" /\ outMode' = "default" /\ pc' = "body"
        /\ UNCHANGED <<err, faults>>
     \/ /\ Variant = "new" /\ Fails("done")
        /\ UNCHANGED <<out, outMode>>
     \/ /\ Variant = "replace"    \* EEXIST: go the temp way
        /\ pc' = "stat"
        /\ UNCHANGED <<out, outMode, err, faults>>
     \/ /\ Variant = "replace" /\ Fails("done")     \* any other error ends the operation
        /\ UNCHANGED <<out, outMode>>
  /\ UNCHANGED <<tmp, tmpMode, wr, okflag, panicked, rmFailed>>

Stat ==
  /\ pc = "stat"
  /\ \/ pc' = "createtemp" /\ UNCHANGED <<err, faults>>
     \/ Fails("done")
  /\ UNCHANGED <<out, tmp, outMode, tmpMode, wr, okflag, panicked, rmFailed>>

CreateTemp ==
  /\ pc = "createtemp"
  /\ \/ tmp' = "partial" /\ pc' = "fchmod" /\ UNCHANGED <<err, faults>>
     \/ Fails("done") /\ UNCHANGED tmp
  /\ UNCHANGED <<out, outMode, tmpMode, wr, okflag, panicked, rmFailed>>

Fchmod ==
  /\ pc = "fchmod"
  /\ \/ tmpMode' = "orig" /\ pc' = "body" /\ UNCHANGED <<err, faults>>
     \/ Fails("openfail_close") /\ UNCHANGED tmpMode     \* open fails: close + remove the temp, no staged output
  /\ UNCHANGED <<out, tmp, outMode, wr, okflag, panicked, rmFailed>>

OpenFailClose == /\ pc = "openfail_close" /\ pc' = "openfail_remove" /\ MayFail
                 /\ UNCHANGED <<out, tmp, outMode, tmpMode, wr, okflag, err, panicked, rmFailed>>
OpenFailRemove ==
  /\ pc = "openfail_remove"
  /\ \/ tmp' = "none" /\ UNCHANGED <<faults, rmFailed>>
     \/ CanFault /\ faults' = faults + 1 /\ rmFailed' = TRUE /\ UNCHANGED tmp
  /\ pc' = "done"
  /\ UNCHANGED <<out, outMode, tmpMode, wr, okflag, err, panicked>>

----------------------------------------------------------------------------
(* the operation body: writes into the staged file; finishing it sets the completion flag *)
Write ==
  /\ pc = "body"
  /\ \/ wr' = (IF wr < MaxWrites THEN wr + 1 ELSE wr) /\ UNCHANGED <<err, faults, pc, panicked>>
     \/ Fails("unwind") /\ UNCHANGED <<wr, panicked>>
     \/ AllowPanic /\ panicked' = TRUE /\ pc' = "unwind" /\ UNCHANGED <<wr, err, faults>>
  /\ UNCHANGED <<out, tmp, outMode, tmpMode, okflag, rmFailed>>

(* the body fails for any other reason (a read fails, an input does not validate, closing an input early fails) *)
BodyErr ==
  /\ pc = "body" /\ err' = TRUE /\ pc' = "unwind" /\ MayFail
  /\ UNCHANGED <<out, tmp, outMode, tmpMode, wr, okflag, panicked, rmFailed>>

(* a failing call the body does not care about (closing a read-only auxiliary input) *)
BodyIgnoresErr ==
  /\ pc = "body" /\ CanFault /\ faults' = faults + 1
  /\ UNCHANGED <<pc, out, tmp, outMode, tmpMode, wr, okflag, err, panicked, rmFailed>>

BodyDone ==
  /\ pc = "body" /\ wr >= 1
  /\ okflag' = TRUE /\ pc' = "unwind"
  /\ IF Repl THEN tmp' = "complete" /\ UNCHANGED out ELSE out' = "complete" /\ UNCHANGED tmp
  /\ UNCHANGED <<outMode, tmpMode, wr, err, panicked, faults, rmFailed>>

(* the deferred function (or its absence) decides between commit and cleanup *)
Commits == CASE Decision = "okflag"   -> okflag
             [] Decision = "errkeyed" -> ~err          \* a panic leaves err = nil: commits
             [] Decision = "nodefer"  -> ~err /\ ~panicked
Unwind ==
  /\ pc = "unwind"
  /\ pc' = IF Decision = "nodefer" /\ panicked THEN "done"      \* nothing runs
           ELSE IF Commits THEN "commit_closeout" ELSE "cleanup_closeout"
  /\ UNCHANGED <<out, tmp, outMode, tmpMode, wr, okflag, err, panicked, faults, rmFailed>>

(* a panic unwinds through the deferred Flush of the buffered writer: one more write reaches the staged file *)
DeferredFlush ==
  /\ pc = "unwind" /\ panicked /\ MayFail
  /\ UNCHANGED <<pc, out, tmp, outMode, tmpMode, wr, okflag, err, panicked, rmFailed>>

----------------------------------------------------------------------------
(* stagedOutput.commit: close output, close inputs, replace; failures remove the staged file *)
CommitCloseOut ==
  /\ pc = "commit_closeout"
  /\ \/ pc' = "commit_closein" /\ UNCHANGED <<err, faults>>
     \/ Fails("fail_closein")
  /\ UNCHANGED <<out, tmp, outMode, tmpMode, wr, okflag, panicked, rmFailed>>
CommitCloseIn ==
  /\ pc = "commit_closein"
  /\ \/ pc' = (IF Repl THEN "rename" ELSE "done") /\ UNCHANGED <<err, faults>>
     \/ Fails("fail_remove")
  /\ UNCHANGED <<out, tmp, outMode, tmpMode, wr, okflag, panicked, rmFailed>>
Rename ==
  /\ pc = "rename"
  /\ \/ /\ out' = tmp /\ outMode' = tmpMode /\ tmp' = "none" /\ pc' = "done" /\ UNCHANGED <<err, faults>>
     \/ /\ Fails("fail_remove") /\ UNCHANGED <<out, outMode, tmp>>
  /\ UNCHANGED <<tmpMode, wr, okflag, panicked, rmFailed>>
FailCloseIn == /\ pc = "fail_closein" /\ pc' = "fail_remove" /\ MayFail
               /\ UNCHANGED <<out, tmp, outMode, tmpMode, wr, okflag, err, panicked, rmFailed>>

(* stagedOutput.cleanup *)
CleanupCloseOut == /\ pc = "cleanup_closeout" /\ pc' = "cleanup_closein" /\ MayFail
                   /\ UNCHANGED <<out, tmp, outMode, tmpMode, wr, okflag, err, panicked, rmFailed>>
CleanupCloseIn == /\ pc = "cleanup_closein" /\ pc' = "fail_remove" /\ MayFail
                  /\ UNCHANGED <<out, tmp, outMode, tmpMode, wr, okflag, err, panicked, rmFailed>>
FailRemove ==
  /\ pc = "fail_remove"
  /\ \/ /\ IF Repl THEN tmp' = "none" /\ UNCHANGED <<out, outMode>>
                 ELSE out' = "absent" /\ outMode' = "orig" /\ UNCHANGED tmp     \* the mode goes with the file
        /\ UNCHANGED <<faults, rmFailed>>
     \/ /\ CanFault /\ faults' = faults + 1 /\ rmFailed' = TRUE /\ UNCHANGED <<out, tmp, outMode>>
  /\ pc' = "done" /\ err' = TRUE
  /\ UNCHANGED <<tmpMode, wr, okflag, panicked>>

(* after a failed open the caller closes its input itself; that close can fail as well and changes nothing *)
CallerCloseFails ==
  /\ pc = "done" /\ err /\ CanFault /\ faults' = faults + 1
  /\ UNCHANGED <<pc, out, tmp, outMode, tmpMode, wr, okflag, err, panicked, rmFailed>>

Next == CallerCloseFails \/ OpenExcl \/ Stat \/ CreateTemp \/ Fchmod \/ OpenFailClose \/ OpenFailRemove \/ Write \/ BodyErr \/ BodyIgnoresErr \/ BodyDone \/ DeferredFlush \/ Unwind
        \/ CommitCloseOut \/ CommitCloseIn \/ Rename \/ FailCloseIn \/ CleanupCloseOut \/ CleanupCloseIn \/ FailRemove
Spec == Init /\ [][Next]_vars /\ WF_vars(Next)

----------------------------------------------------------------------------
Done == pc = "done"
Succeeded == Done /\ ~err /\ ~panicked

TypeOK == /\ out \in {"absent", "old", "partial", "complete"} /\ tmp \in {"none", "partial", "complete"}
          /\ outMode \in {"orig", "default"} /\ tmpMode \in {"orig", "default"}
          /\ wr \in 0..MaxWrites /\ faults \in 0..MaxFaults
(* C02: at every point a replaced destination holds its old or the complete new content; the only leftover is the hidden temp *)
Atomic == Repl => out \in {"old", "complete"}
(* C01: after a failure (error or panic) everything is as before - unless a removal itself was made to fail *)
CleanFailure == Done /\ ~Succeeded /\ ~rmFailed => out = Init0 /\ tmp = "none" /\ outMode = "orig"
(* C03: success publishes the complete output, keeps the mode of an existing destination, leaves no temp *)
Publishes == Succeeded => out = "complete" /\ tmp = "none" /\ (Repl => outMode = "orig")
(* the protocol always finishes *)
Terminates == <>Done
=============================================================================
