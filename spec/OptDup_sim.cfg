SPECIFICATION Spec
CONSTANTS
  MaxPages = 3
  MaxRes = 3
  Kinds = {"font", "image", "form"}
  Emit = TRUE
INVARIANTS TypeOK EmitCase
PROPERTIES OptimizeStutters Idempotent
