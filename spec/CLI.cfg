SPECIFICATION Spec
INVARIANTS NeverRefuseNew ForceProceeds EmitCase
