SPECIFICATION Spec
CONSTANTS
  Shapes = {31, 131}
  RootFirsts = {0, 1, 2}
  Emit = TRUE
INVARIANTS StepBound NoDup StackBound EmitCase
