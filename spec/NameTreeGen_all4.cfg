SPECIFICATION Spec
CONSTANTS
  NB = 5
  OpKinds = {"add", "addu", "rem"}
  MaxLen = 4
  MaxLevel = 6
  Inits = {"empty"}
  Patterns = {"rand"}
  Keeps = {FALSE}
  Emit = "state"
INVARIANTS EmitCase
