SPECIFICATION Spec
CONSTANTS
  Variant = "replace"
  Decision = "okflag"
  MaxFaults = 3
  MaxWrites = 2
  AllowPanic = TRUE
INVARIANTS TypeOK Atomic CleanFailure Publishes
PROPERTY Terminates
