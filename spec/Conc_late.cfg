\* DisableConfigDir called after the goroutines were started: TLC must find the race on model.ConfigPath
SPECIFICATION Spec
CONSTANTS
  Readers = {r1, r2}
  Reloaders = {w1, w2}
  OpsR = 1
  OpsW = 1
  MaxGen = 1
  Discipline = TRUE
  Break = "late_disable"
INVARIANTS NoRace
