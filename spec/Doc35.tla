------------------------------- MODULE Doc35 -------------------------------
(* C35: document metadata edits behave like a simple key/value store.                              *)
(* Histories of the metadata actions of the Doc machine (keywords, properties, page layout, page     *)
(* mode, viewer preferences, attachments) over small alphabets of keys and values that include       *)
(* Unicode (BMP and beyond), PDF string delimiters, separators and padding.  Every state is printed  *)
(* as a JSON behaviour whose last step carries the listing the document must return afterwards and,   *)
(* for an extraction, exactly which attachment bytes must come out.                                   *)
(* Non-ASCII characters are written <U+XXXX> in the strings below (TLC's disk state queue does not     *)
(* preserve characters beyond 7 bits); the harness replaces them by the real characters.               *)
(* Initial documents (Bases): "bare" (no Info dictionary), "info" (Info dictionary with standard      *)
(* entries, nothing listed), "rich" (a document that ALREADY carries keywords - in the Info dictionary *)
(* and in the catalog XMP metadata -, properties, page layout, page mode, viewer preferences and an     *)
(* attachment before the first edit).  The harness builds the file from BaseDoc(base) byte by byte.     *)
(* Mode "bfs": all histories of every exploration plan in QuickPlans (initial document, families, length); *)
(* mode "sim" (-simulate): random histories of 1..MaxLen steps over all families.                     *)
EXTENDS Doc, Json, Randomization

CONSTANTS Mode,      \* "bfs": the exploration plans QuickPlans, exhaustively | "sim": random histories (-simulate) over SimBases
          MaxLen,    \* sim: histories of 1..MaxLen steps
          Emit
(* plan: what is explored from this initial document (bfs): [base, fams, len, mix, deep, std]                       *)
(*   fams  families of actions: "kw", "prop", "view", "att", "vpall" (every value of every viewer preference)       *)
(*   len   history length; histories longer than mix steps stay within one family of deep                          *)
(*   std   TRUE: the property alphabet uses standard Info dictionary entries (Subject, Author) as names             *)
VARIABLES plan, hist, len
vars == <<docvars, plan, hist, len>>
base == plan.base
Std  == plan.std

---------------------------------------------------------------------------
(* keyword tokens: text as passed to the API, the keywords it yields (the stored form is one string joined   *)
(* with "; " and split again at , ; CR on reading, pieces trimmed), and the key a removal request matches    *)
Tok(text, parts, key) == [text |-> text, parts |-> parts, key |-> key]
Plain(t) == Tok(t, {t}, t)
KwToks == <<Plain("alpha"), Plain("Zo<U+00EB> <U+2713> <U+65E5><U+672C><U+8A9E>"), Plain("two words"), Tok("a,b;c", {"a", "b", "c"}, "a,b;c"),
            Tok(" pad ", {"pad"}, "pad"), Plain("(par\\en)"), Plain("b"), Plain("<U+1F600> emoji"),
            Plain("orig1"), Plain("orig two")>>
KwQuick == {2, 4, 5, 7, 9, 10}

PropKeys == IF Std THEN <<"Subject", "Custom", "Author", "My Key">>
            ELSE <<"Custom", "<U+041A><U+043B><U+044E><U+0447> (1)/x", "a#1b", "My Key">>
PropVals == <<"plain", "Zo<U+00EB> <U+2713> (x) \\ y", "v = 1; x, y", "<U+1F600> <U+65E5><U+672C><U+8A9E>">>
PkQuick  == {1, 2, 3}
PvQuick  == {2, 3}

Layouts == {"TwoColumnLeft", "SinglePage", "TwoPageRight"}
Modes   == {"UseOutlines", "FullScreen", "UseAttachments"}
Fn1(k, v)           == [x \in {k} |-> v]
Fn2(k1, v1, k2, v2) == [x \in {k1, k2} |-> IF x = k1 THEN v1 ELSE v2]
VPs == <<Fn1("HideToolbar", "true"), Fn2("HideToolbar", "false", "Direction", "R2L"), Fn2("NumCopies", "3", "Direction", "L2R"),
         Fn2("FitWindow", "true", "PrintScaling", "None")>>

AttNames == <<"plain.txt", "Zo<U+00EB> <U+2713>.bin", "sp ace (1).dat", "<U+65E5><U+672C><U+8A9E> <U+1F600>.txt", "orig.txt">>
AttData  == <<"bin", "big", "empty", "text", "orig">>        \* byte contents are defined by the harness per id
AttDescs == <<"", "Beschreibung <U+00FC>, (x)">>
Att(d, desc) == [data |-> d, desc |-> desc]
AnQuick == {1, 2}
AnRemove == {1, 2, 5}

(* the initial documents: how the file is laid out (Info dictionary? XMP metadata carrying the keywords?) and  *)
(* the metadata state it already has                                                                           *)
Empty0 == [kw |-> {}, props |-> EmptyFn, layout |-> "", mode |-> "", vp |-> EmptyFn, att |-> EmptyFn]
(* ikw / xkw: the keywords recorded in the Info dictionary / in the pdf:Keywords element of the XMP metadata; *)
(* the document's keywords (st.kw) are their union                                                           *)
Doc0(info, xmp, ikw, xkw, st) == [info |-> info, xmp |-> xmp, ikw |-> ikw, xkw |-> xkw, st |-> [st EXCEPT !.kw = ikw \cup xkw]]
RichSt == [props |-> Fn2("Custom", "orig value (1)", "My Key", "orig <U+00E4>"),
           layout |-> "TwoColumnLeft", mode |-> "UseOutlines",
           vp |-> Fn2("HideToolbar", "true", "Direction", "R2L"),
           att |-> Fn1("orig.txt", Att("orig", "original")), kw |-> {}]
(* a document that states a value for (almost) every viewer preference, UseOC and the printer preferences included *)
VpFull == [x \in {"HideMenubar", "NonFullScreenPageMode", "Direction", "ViewArea", "PrintClip", "PrintScaling", "Duplex",
                  "PickTrayByPDFSize", "NumCopies", "PrintPageRange"} |->
             CASE x = "HideMenubar" -> "true" [] x = "NonFullScreenPageMode" -> "UseOC" [] x = "Direction" -> "R2L"
               [] x = "ViewArea" -> "TrimBox" [] x = "PrintClip" -> "ArtBox" [] x = "PrintScaling" -> "None"
               [] x = "Duplex" -> "DuplexFlipLongEdge" [] x = "PickTrayByPDFSize" -> "true" [] x = "NumCopies" -> "3"
               [] x = "PrintPageRange" -> "1-2,4-6"]
BaseDoc(b) ==
  CASE b = "bare"   -> Doc0(FALSE, FALSE, {}, {}, Empty0)
    [] b = "info"   -> Doc0(TRUE, FALSE, {}, {}, Empty0)
    [] b = "xmpkw"  -> Doc0(TRUE, TRUE, {}, {"orig1", "orig two"}, Empty0)          \* keywords in the XMP metadata only
    [] b = "kwdiff" -> Doc0(TRUE, TRUE, {"orig1", "b"}, {"orig1", "orig two"}, Empty0)  \* Info and XMP keywords differ, overlapping
    [] b = "rich"   -> Doc0(TRUE, TRUE, {"orig1", "orig two"}, {"orig1", "orig two"}, RichSt)
    [] b = "vpfull" -> Doc0(TRUE, FALSE, {}, {}, [Empty0 EXCEPT !.vp = VpFull])

(* every value of every viewer preference *)
Bools == {"true", "false"}
Boxes5 == {"MediaBox", "CropBox", "TrimBox", "BleedBox", "ArtBox"}
VPDomain == [x \in {"HideToolbar", "HideMenubar", "HideWindowUI", "FitWindow", "CenterWindow", "DisplayDocTitle", "PickTrayByPDFSize",
                    "NonFullScreenPageMode", "Direction", "ViewArea", "ViewClip", "PrintArea", "PrintClip", "PrintScaling", "Duplex",
                    "NumCopies", "PrintPageRange"} |->
               CASE x = "NonFullScreenPageMode" -> {"UseNone", "UseOutlines", "UseThumbs", "UseOC"}
                 [] x = "Direction" -> {"L2R", "R2L"}
                 [] x \in {"ViewArea", "ViewClip", "PrintArea", "PrintClip"} -> Boxes5
                 [] x = "PrintScaling" -> {"None", "AppDefault"}
                 [] x = "Duplex" -> {"Simplex", "DuplexFlipShortEdge", "DuplexFlipLongEdge"}
                 [] x = "NumCopies" -> {"1", "3"}
                 [] x = "PrintPageRange" -> {"1-2", "1-2,4-6"}
                 [] OTHER -> Bools]
VPPairs == {<<k, v>> : k \in DOMAIN VPDomain, v \in UNION {VPDomain[x] : x \in DOMAIN VPDomain}} \cap
           UNION {{<<k, v>> : v \in VPDomain[k]} : k \in DOMAIN VPDomain}
Routes == {"struct", "json"}       \* SetViewerPreferencesFile / SetViewerPreferencesFileFromJSONBytes

---------------------------------------------------------------------------
SeqOfSet(S) == SetToSeq(S)
(* step record: op, three parallel argument lists, outcome class, expected listing *)
FamOf(op) == CASE op \in {"kw_add", "kw_remove"} -> "kw" [] op \in {"prop_add", "prop_remove"} -> "prop"
                [] op \in {"att_add", "att_remove", "att_extract"} -> "att" [] OTHER -> "view"
StepRec(op, keys, vals, aux) == [op |-> op, keys |-> keys, vals |-> vals, aux |-> aux, res |-> res', chk |-> TRUE,
                                 exp |-> Listing']
Strip(h) == IF Mode = "sim" THEN h ELSE [i \in 1..Len(h) |-> [h[i] EXCEPT !.chk = FALSE, !.exp = <<>>]]
Log(op, keys, vals, aux) == hist' = Append(Strip(hist), StepRec(op, keys, vals, aux)) /\ UNCHANGED <<plan, len>>

DoKwAdd(is) == LET ts == {KwToks[i] : i \in is} s == SeqOfSet(is) IN
               KwAdd(ts) /\ Log("kw_add", [j \in 1..Len(s) |-> KwToks[s[j]].text], <<>>, <<>>)
DoKwRemove(is) == LET ts == {KwToks[i] : i \in is} s == SeqOfSet(is) IN
               KwRemove(ts) /\ Log("kw_remove", [j \in 1..Len(s) |-> KwToks[s[j]].text], <<>>, <<>>)
DoKwRemoveAll == KwRemoveAll /\ Log("kw_remove", <<>>, <<>>, <<>>)

DoPropAdd(m) == LET s == SeqOfSet(DOMAIN m) IN
                PropAdd(m) /\ Log("prop_add", s, [j \in 1..Len(s) |-> m[s[j]]], <<>>)
DoPropRemove(ks) == PropRemove(ks) /\ Log("prop_remove", SeqOfSet(ks), <<>>, <<>>)
DoPropRemoveAll  == PropRemoveAll /\ Log("prop_remove", <<>>, <<>>, <<>>)

DoSetLayout(v) == SetLayout(v) /\ Log("layout_set", <<>>, <<v>>, <<>>)
DoResetLayout  == ResetLayout /\ Log("layout_reset", <<>>, <<>>, <<>>)
DoSetMode(v)   == SetMode(v) /\ Log("mode_set", <<>>, <<v>>, <<>>)
DoResetMode    == ResetMode /\ Log("mode_reset", <<>>, <<>>, <<>>)
DoSetVP(m, rt) == LET s == SeqOfSet(DOMAIN m) IN
                  SetVP(m) /\ Log(IF rt = "json" THEN "vp_setjson" ELSE "vp_set", s, [j \in 1..Len(s) |-> m[s[j]]], <<>>)
DoResetVP      == ResetVP /\ Log("vp_reset", <<>>, <<>>, <<>>)

DoAttAdd(m) == LET s == SeqOfSet(DOMAIN m) IN
               AttAdd(m) /\ Log("att_add", s, [j \in 1..Len(s) |-> m[s[j]].data], [j \in 1..Len(s) |-> m[s[j]].desc])
DoAttRemove(ns)  == AttRemove(ns) /\ Log("att_remove", SeqOfSet(ns), <<>>, <<>>)
DoAttRemoveAll   == AttRemoveAll /\ Log("att_remove", <<>>, <<>>, <<>>)
DoAttExtract(ns) == AttExtract(ns) /\ Log("att_extract", SeqOfSet(ns), <<>>, <<>>)

---------------------------------------------------------------------------
NextKw ==
  \/ \E i \in KwQuick : DoKwAdd({i}) \/ DoKwRemove({i})
  \/ DoKwAdd({1, 6}) \/ DoKwRemove({1, 7}) \/ DoKwRemoveAll
NextProp ==
  \/ \E k \in PkQuick, v \in PvQuick : DoPropAdd(Fn1(PropKeys[k], PropVals[v]))
  \/ DoPropAdd(Fn2(PropKeys[1], PropVals[2], PropKeys[2], PropVals[1]))
  \/ \E k \in PkQuick : DoPropRemove({PropKeys[k]})
  \/ DoPropRemove({PropKeys[1], PropKeys[3]}) \/ DoPropRemoveAll
NextView ==
  \/ \E v \in {"TwoColumnLeft", "SinglePage"} : DoSetLayout(v)
  \/ \E v \in {"UseOutlines", "FullScreen"} : DoSetMode(v)
  \/ \E i \in 1..3 : DoSetVP(VPs[i], IF i = 2 THEN "json" ELSE "struct")
  \/ DoResetLayout \/ DoResetMode \/ DoResetVP
(* first every single (preference, value) through both routes, then a few combinations on top of it *)
NextVpAll ==
  IF hist = <<>> THEN \E kv \in VPPairs, rt \in Routes : DoSetVP(Fn1(kv[1], kv[2]), rt)
  ELSE \/ DoSetVP(VPs[2], "struct") \/ DoSetVP(VPs[3], "json") \/ DoSetVP(VPs[4], "struct") \/ DoResetVP
       \/ DoSetVP(Fn2("NonFullScreenPageMode", "UseThumbs", "ViewClip", "BleedBox"), "json")
       \/ DoSetVP(Fn2("Duplex", "Simplex", "PrintArea", "MediaBox"), "struct")
NextAtt ==
  \/ \E n \in AnQuick, d \in {1, 2} : DoAttAdd(Fn1(AttNames[n], Att(AttData[d], AttDescs[((n + d) % 2) + 1])))
  \/ DoAttAdd(Fn2(AttNames[1], Att("text", ""), AttNames[2], Att("empty", AttDescs[2])))
  \/ \E n \in AnRemove : DoAttRemove({AttNames[n]}) \/ DoAttExtract({AttNames[n]})
  \/ DoAttRemove({AttNames[1], AttNames[2]}) \/ DoAttRemoveAll \/ DoAttExtract({}) \/ DoAttExtract({AttNames[1], AttNames[3]}) \/ DoAttAdd(Fn1(AttNames[3], Att("text", AttDescs[2])))

RS(S) == RandomElement(S)
RandIdx(n)  == LET a == RS(1..n) b == RS(1..n) IN IF RS(1..3) = 1 THEN {a, b} ELSE {a}
NextSim ==
  \/ \E is \in {RandIdx(Len(KwToks))} : DoKwAdd(is) \/ DoKwRemove(is)
  \/ DoKwRemoveAll
  \/ \E m \in {Fn1(PropKeys[RS(1..4)], PropVals[RS(1..4)]), Fn2(PropKeys[RS(1..2)], PropVals[RS(1..4)], PropKeys[RS(3..4)], PropVals[RS(1..4)])} : DoPropAdd(m)
  \/ \E is \in {RandIdx(Len(PropKeys))} : DoPropRemove({PropKeys[i] : i \in is})
  \/ DoPropRemoveAll
  \/ \E v \in {RS(Layouts)} : DoSetLayout(v)
  \/ \E v \in {RS(Modes)} : DoSetMode(v)
  \/ \E kv \in {RS(VPPairs)}, kw \in {RS(VPPairs)}, rt \in {RS(Routes)} :
        DoSetVP(IF RS(1..2) = 1 THEN Fn1(kv[1], kv[2]) ELSE Fn2(kv[1], kv[2], kw[1], kw[2]), rt)
  \/ \E r \in {RS(1..3)} : (r = 1 /\ DoResetLayout) \/ (r = 2 /\ DoResetMode) \/ (r = 3 /\ DoResetVP)
  \/ \E is \in {RandIdx(Len(AttNames))} :
        \/ DoAttAdd([x \in {AttNames[i] : i \in is} |-> Att(AttData[RS(1..4)], AttDescs[RS(1..2)])])
        \/ DoAttRemove({AttNames[i] : i \in is})
        \/ DoAttExtract({AttNames[i] : i \in is})
  \/ \E r \in {RS(1..2)} : (r = 1 /\ DoAttRemoveAll) \/ (r = 2 /\ DoAttExtract({}))

AllFams == {"kw", "prop", "view", "att"}
Plan(b, fams, n, mix, deep, std) == [base |-> b, fams |-> fams, len |-> n, mix |-> mix, deep |-> deep, std |-> std]
QuickPlans == {Plan("bare", AllFams, 2, 2, {}, FALSE),
               Plan("info", AllFams, 1, 1, {}, FALSE),
               Plan("rich", AllFams, 3, 2, {"kw", "prop"}, FALSE),
               Plan("bare", {"prop"}, 2, 2, {}, TRUE),              \* standard Info entries as property names
               Plan("xmpkw", {"kw", "prop"}, 2, 2, {}, FALSE),
               Plan("kwdiff", {"kw", "prop"}, 2, 2, {}, FALSE),
               Plan("bare", {"vpall"}, 2, 2, {}, FALSE),
               Plan("vpfull", {"vpall"}, 2, 2, {}, FALSE)}
SimBases == {"bare", "info", "rich", "xmpkw", "kwdiff", "vpfull"}

Init == /\ hist = <<>>
        /\ IF Mode = "sim" THEN \E b \in SimBases, n \in 1..MaxLen : plan = Plan(b, AllFams, n, n, {}, FALSE)
                           ELSE plan \in QuickPlans
        /\ len = plan.len
        /\ LET st == BaseDoc(plan.base).st IN
             /\ pages = <<>> /\ nblank = 0 /\ res = "ok" /\ ext = {}
             /\ keywords = st.kw /\ props = st.props /\ layout = st.layout /\ mode = st.mode
             /\ vprefs = st.vp /\ attach = st.att
(* beyond plan.mix steps a history stays within one family of plan.deep *)
FamOK(f) == f \in plan.fams /\ (Len(hist) >= plan.mix => f \in plan.deep /\ \A i \in 1..Len(hist) : FamOf(hist[i].op) = f)
Next == /\ Len(hist) < len
        /\ IF Mode = "sim" THEN NextSim
           ELSE \/ FamOK("kw") /\ NextKw
                \/ FamOK("prop") /\ NextProp
                \/ FamOK("view") /\ NextView
                \/ FamOK("att") /\ NextAtt
                \/ FamOK("vpall") /\ NextVpAll
Spec == Init /\ [][Next]_vars

---------------------------------------------------------------------------
(* design properties of the key/value store model *)
TypeOK == /\ keywords \subseteq UNION {KwToks[i].parts : i \in 1..Len(KwToks)}
          /\ DOMAIN props \subseteq ToSet(PropKeys) /\ DOMAIN attach \subseteq ToSet(AttNames)
          /\ layout \in Layouts \cup {""} /\ mode \in Modes \cup {""}
          /\ \A k \in DOMAIN vprefs : k \in DOMAIN VPDomain /\ vprefs[k] \in VPDomain[k]
          /\ (hist # <<>> /\ hist[Len(hist)].op = "att_extract" => \A e \in ext : e.name \in DOMAIN attach /\ e.data = attach[e.name].data)
(* an action only touches its own family *)
Isolated ==
  hist # <<>> =>
    LET op == hist[Len(hist)].op IN
    /\ res = "refuse" => TRUE
    /\ (op \notin {"att_add", "att_remove"} /\ Len(hist) = 1 => attach = BaseDoc(base).st.att)
    /\ (op \notin {"kw_add", "kw_remove"} /\ Len(hist) = 1 => keywords = BaseDoc(base).st.kw)
    /\ (op \notin {"prop_add", "prop_remove"} /\ Len(hist) = 1 => props = BaseDoc(base).st.props)

InitListing(b) ==
  LET st == BaseDoc(b).st IN
  [kw |-> SetToSeq(st.kw), props |-> FnList(st.props), layout |-> st.layout, mode |-> st.mode, vp |-> FnList(st.vp),
   att |-> SetToSeq({[name |-> n, desc |-> st.att[n].desc, data |-> st.att[n].data] : n \in DOMAIN st.att}), ext |-> <<>>]
Case == [base |-> base, std |-> Std, info |-> BaseDoc(base).info, xmp |-> BaseDoc(base).xmp,
         ikw |-> SetToSeq(BaseDoc(base).ikw), xkw |-> SetToSeq(BaseDoc(base).xkw), init |-> InitListing(base), steps |-> hist]
EmitCase == Emit /\ hist # <<>> /\ (Mode = "sim" => Len(hist) = len) => PrintT(<<"CASE", ToJson(Case)>>)
=============================================================================
