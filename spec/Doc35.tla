------------------------------- MODULE Doc35 -------------------------------
(* C35: document metadata edits behave like a simple key/value store.                              *)
(* Histories of the metadata actions of the Doc machine (keywords, properties, page layout, page     *)
(* mode, viewer preferences, attachments) over small alphabets of keys and values that include       *)
(* Unicode (BMP and beyond), PDF string delimiters, separators and padding.  Every state is printed  *)
(* as a JSON behaviour whose last step carries the listing the document must return afterwards and,   *)
(* for an extraction, exactly which attachment bytes must come out.                                   *)
(* Non-ASCII characters are written <U+XXXX> in the strings below (TLC's disk state queue does not     *)
(* preserve characters beyond 7 bits); the harness replaces them by the real characters.               *)
(* Initial documents (Bases): "bare" (no Info dictionary), "info" (Info dictionary with standard      *)
(* entries, nothing listed), "rich" (a document that ALREADY carries keywords - in the Info dictionary *)
(* and in the catalog XMP metadata -, properties, page layout, page mode, viewer preferences and an     *)
(* attachment before the first edit).  The harness builds the file from BaseDoc(base) byte by byte.     *)
(* Mode "bfs": all histories of <= MaxLen steps over the actions of the families in Fams;             *)
(* mode "sim" (-simulate): random histories of 1..MaxLen steps over all families.                     *)
EXTENDS Doc, Json, Randomization

CONSTANTS Mode,      \* "bfs" | "sim"
          Fams,      \* bfs: families explored: "kw", "prop", "view", "att"
          MaxLen,    \* longest history (bfs: on DeepBases, single-family beyond Mix steps; sim: 1..MaxLen)
          Mix,       \* bfs: histories up to this length mix the families
          Bases,     \* initial documents: "bare" (no Info dictionary), "info" (Info dictionary with standard entries)
          DeepBases,
          ShallowBases, \* bfs: initial documents explored for one step only
          DeepFams,  \* bfs: families explored beyond Mix steps
          Std,       \* TRUE: the property alphabet uses standard Info dictionary entries (Subject, Author)
          Emit
VARIABLES base, hist, len
vars == <<docvars, base, hist, len>>

---------------------------------------------------------------------------
(* keyword tokens: text as passed to the API, the keywords it yields (the stored form is one string joined   *)
(* with "; " and split again at , ; CR on reading, pieces trimmed), and the key a removal request matches    *)
Tok(text, parts, key) == [text |-> text, parts |-> parts, key |-> key]
Plain(t) == Tok(t, {t}, t)
KwToks == <<Plain("alpha"), Plain("Zo<U+00EB> <U+2713> <U+65E5><U+672C><U+8A9E>"), Plain("two words"), Tok("a,b;c", {"a", "b", "c"}, "a,b;c"),
            Tok(" pad ", {"pad"}, "pad"), Plain("(par\\en)"), Plain("b"), Plain("<U+1F600> emoji"),
            Plain("orig1"), Plain("orig two")>>
KwQuick == {2, 4, 5, 7, 9, 10}

PropKeys == IF Std THEN <<"Subject", "Custom", "Author", "My Key">>
            ELSE <<"Custom", "<U+041A><U+043B><U+044E><U+0447> (1)/x", "a#1b", "My Key">>
PropVals == <<"plain", "Zo<U+00EB> <U+2713> (x) \\ y", "v = 1; x, y", "<U+1F600> <U+65E5><U+672C><U+8A9E>">>
PkQuick  == {1, 2, 3}
PvQuick  == {2, 3}

Layouts == {"TwoColumnLeft", "SinglePage", "TwoPageRight"}
Modes   == {"UseOutlines", "FullScreen", "UseAttachments"}
Fn1(k, v)           == [x \in {k} |-> v]
Fn2(k1, v1, k2, v2) == [x \in {k1, k2} |-> IF x = k1 THEN v1 ELSE v2]
VPs == <<Fn1("HideToolbar", "true"), Fn2("HideToolbar", "false", "Direction", "R2L"), Fn2("NumCopies", "3", "Direction", "L2R"),
         Fn2("FitWindow", "true", "PrintScaling", "None")>>

AttNames == <<"plain.txt", "Zo<U+00EB> <U+2713>.bin", "sp ace (1).dat", "<U+65E5><U+672C><U+8A9E> <U+1F600>.txt", "orig.txt">>
AttData  == <<"bin", "big", "empty", "text", "orig">>        \* byte contents are defined by the harness per id
AttDescs == <<"", "Beschreibung <U+00FC>, (x)">>
Att(d, desc) == [data |-> d, desc |-> desc]
AnQuick == {1, 2}
AnRemove == {1, 2, 5}

(* the initial documents: how the file is laid out (Info dictionary? XMP metadata carrying the keywords?) and  *)
(* the metadata state it already has                                                                           *)
Empty0 == [kw |-> {}, props |-> EmptyFn, layout |-> "", mode |-> "", vp |-> EmptyFn, att |-> EmptyFn]
BaseDoc(b) ==
  CASE b = "bare" -> [info |-> FALSE, xmp |-> FALSE, kwinfo |-> FALSE, st |-> Empty0]
    [] b = "info" -> [info |-> TRUE, xmp |-> FALSE, kwinfo |-> FALSE, st |-> Empty0]
    [] b = "xmpkw" -> \* the keywords live in the XMP metadata only
                     [info |-> TRUE, xmp |-> TRUE, kwinfo |-> FALSE, st |-> [Empty0 EXCEPT !.kw = {"orig1", "orig two"}]]
    [] b = "rich" -> [info |-> TRUE, xmp |-> TRUE, kwinfo |-> TRUE, st |->
                        [kw |-> {"orig1", "orig two"},
                         props |-> Fn2(PropKeys[1], "orig value (1)", PropKeys[4], "orig <U+00E4>"),
                         layout |-> "TwoColumnLeft", mode |-> "UseOutlines",
                         vp |-> Fn2("HideToolbar", "true", "Direction", "R2L"),
                         att |-> Fn1("orig.txt", Att("orig", "original"))]]

---------------------------------------------------------------------------
SeqOfSet(S) == SetToSeq(S)
(* step record: op, three parallel argument lists, outcome class, expected listing *)
FamOf(op) == CASE op \in {"kw_add", "kw_remove"} -> "kw" [] op \in {"prop_add", "prop_remove"} -> "prop"
                [] op \in {"att_add", "att_remove", "att_extract"} -> "att" [] OTHER -> "view"
StepRec(op, keys, vals, aux) == [op |-> op, keys |-> keys, vals |-> vals, aux |-> aux, res |-> res', chk |-> TRUE,
                                 exp |-> Listing']
Strip(h) == IF Mode = "sim" THEN h ELSE [i \in 1..Len(h) |-> [h[i] EXCEPT !.chk = FALSE, !.exp = <<>>]]
Log(op, keys, vals, aux) == hist' = Append(Strip(hist), StepRec(op, keys, vals, aux)) /\ UNCHANGED <<base, len>>

DoKwAdd(is) == LET ts == {KwToks[i] : i \in is} s == SeqOfSet(is) IN
               KwAdd(ts) /\ Log("kw_add", [j \in 1..Len(s) |-> KwToks[s[j]].text], <<>>, <<>>)
DoKwRemove(is) == LET ts == {KwToks[i] : i \in is} s == SeqOfSet(is) IN
               KwRemove(ts) /\ Log("kw_remove", [j \in 1..Len(s) |-> KwToks[s[j]].text], <<>>, <<>>)
DoKwRemoveAll == KwRemoveAll /\ Log("kw_remove", <<>>, <<>>, <<>>)

DoPropAdd(m) == LET s == SeqOfSet(DOMAIN m) IN
                PropAdd(m) /\ Log("prop_add", s, [j \in 1..Len(s) |-> m[s[j]]], <<>>)
DoPropRemove(ks) == PropRemove(ks) /\ Log("prop_remove", SeqOfSet(ks), <<>>, <<>>)
DoPropRemoveAll  == PropRemoveAll /\ Log("prop_remove", <<>>, <<>>, <<>>)

DoSetLayout(v) == SetLayout(v) /\ Log("layout_set", <<>>, <<v>>, <<>>)
DoResetLayout  == ResetLayout /\ Log("layout_reset", <<>>, <<>>, <<>>)
DoSetMode(v)   == SetMode(v) /\ Log("mode_set", <<>>, <<v>>, <<>>)
DoResetMode    == ResetMode /\ Log("mode_reset", <<>>, <<>>, <<>>)
DoSetVP(m)     == LET s == SeqOfSet(DOMAIN m) IN SetVP(m) /\ Log("vp_set", s, [j \in 1..Len(s) |-> m[s[j]]], <<>>)
DoResetVP      == ResetVP /\ Log("vp_reset", <<>>, <<>>, <<>>)

DoAttAdd(m) == LET s == SeqOfSet(DOMAIN m) IN
               AttAdd(m) /\ Log("att_add", s, [j \in 1..Len(s) |-> m[s[j]].data], [j \in 1..Len(s) |-> m[s[j]].desc])
DoAttRemove(ns)  == AttRemove(ns) /\ Log("att_remove", SeqOfSet(ns), <<>>, <<>>)
DoAttRemoveAll   == AttRemoveAll /\ Log("att_remove", <<>>, <<>>, <<>>)
DoAttExtract(ns) == AttExtract(ns) /\ Log("att_extract", SeqOfSet(ns), <<>>, <<>>)

---------------------------------------------------------------------------
NextKw ==
  \/ \E i \in KwQuick : DoKwAdd({i}) \/ DoKwRemove({i})
  \/ DoKwAdd({1, 6}) \/ DoKwRemove({1, 7}) \/ DoKwRemoveAll
NextProp ==
  \/ \E k \in PkQuick, v \in PvQuick : DoPropAdd(Fn1(PropKeys[k], PropVals[v]))
  \/ DoPropAdd(Fn2(PropKeys[1], PropVals[2], PropKeys[2], PropVals[1]))
  \/ \E k \in PkQuick : DoPropRemove({PropKeys[k]})
  \/ DoPropRemove({PropKeys[1], PropKeys[3]}) \/ DoPropRemoveAll
NextView ==
  \/ \E v \in {"TwoColumnLeft", "SinglePage"} : DoSetLayout(v)
  \/ \E v \in {"UseOutlines", "FullScreen"} : DoSetMode(v)
  \/ \E i \in 1..3 : DoSetVP(VPs[i])
  \/ DoResetLayout \/ DoResetMode \/ DoResetVP
NextAtt ==
  \/ \E n \in AnQuick, d \in {1, 2} : DoAttAdd(Fn1(AttNames[n], Att(AttData[d], AttDescs[((n + d) % 2) + 1])))
  \/ DoAttAdd(Fn2(AttNames[1], Att("text", ""), AttNames[2], Att("empty", AttDescs[2])))
  \/ \E n \in AnRemove : DoAttRemove({AttNames[n]}) \/ DoAttExtract({AttNames[n]})
  \/ DoAttRemove({AttNames[1], AttNames[2]}) \/ DoAttRemoveAll \/ DoAttExtract({}) \/ DoAttExtract({AttNames[1], AttNames[3]}) \/ DoAttAdd(Fn1(AttNames[3], Att("text", AttDescs[2])))

RS(S) == RandomElement(S)
RandIdx(n)  == LET a == RS(1..n) b == RS(1..n) IN IF RS(1..3) = 1 THEN {a, b} ELSE {a}
NextSim ==
  \/ \E is \in {RandIdx(Len(KwToks))} : DoKwAdd(is) \/ DoKwRemove(is)
  \/ DoKwRemoveAll
  \/ \E m \in {Fn1(PropKeys[RS(1..4)], PropVals[RS(1..4)]), Fn2(PropKeys[RS(1..2)], PropVals[RS(1..4)], PropKeys[RS(3..4)], PropVals[RS(1..4)])} : DoPropAdd(m)
  \/ \E is \in {RandIdx(Len(PropKeys))} : DoPropRemove({PropKeys[i] : i \in is})
  \/ DoPropRemoveAll
  \/ \E v \in {RS(Layouts)} : DoSetLayout(v)
  \/ \E v \in {RS(Modes)} : DoSetMode(v)
  \/ \E i \in {RS(1..Len(VPs))} : DoSetVP(VPs[i])
  \/ \E r \in {RS(1..3)} : (r = 1 /\ DoResetLayout) \/ (r = 2 /\ DoResetMode) \/ (r = 3 /\ DoResetVP)
  \/ \E is \in {RandIdx(Len(AttNames))} :
        \/ DoAttAdd([x \in {AttNames[i] : i \in is} |-> Att(AttData[RS(1..4)], AttDescs[RS(1..2)])])
        \/ DoAttRemove({AttNames[i] : i \in is})
        \/ DoAttExtract({AttNames[i] : i \in is})
  \/ \E r \in {RS(1..2)} : (r = 1 /\ DoAttRemoveAll) \/ (r = 2 /\ DoAttExtract({}))

Init == /\ base \in Bases /\ hist = <<>>
        /\ LET st == BaseDoc(base).st IN
             /\ pages = <<>> /\ nblank = 0 /\ res = "ok" /\ ext = {}
             /\ keywords = st.kw /\ props = st.props /\ layout = st.layout /\ mode = st.mode
             /\ vprefs = st.vp /\ attach = st.att
        /\ len \in (IF Mode = "sim" THEN 1..MaxLen ELSE IF base \in DeepBases THEN {MaxLen} ELSE IF base \in ShallowBases THEN {1} ELSE {Mix})
(* beyond Mix steps a history stays within one family *)
FamOK(f) == f \in Fams /\ (Len(hist) >= Mix => f \in DeepFams /\ \A i \in 1..Len(hist) : FamOf(hist[i].op) = f)
Next == /\ Len(hist) < len
        /\ IF Mode = "sim" THEN NextSim
           ELSE \/ FamOK("kw") /\ NextKw
                \/ FamOK("prop") /\ NextProp
                \/ FamOK("view") /\ NextView
                \/ FamOK("att") /\ NextAtt
Spec == Init /\ [][Next]_vars

---------------------------------------------------------------------------
(* design properties of the key/value store model *)
TypeOK == /\ keywords \subseteq UNION {KwToks[i].parts : i \in 1..Len(KwToks)}
          /\ DOMAIN props \subseteq ToSet(PropKeys) /\ DOMAIN attach \subseteq ToSet(AttNames)
          /\ layout \in Layouts \cup {""} /\ mode \in Modes \cup {""}
          /\ (hist # <<>> /\ hist[Len(hist)].op = "att_extract" => \A e \in ext : e.name \in DOMAIN attach /\ e.data = attach[e.name].data)
(* an action only touches its own family *)
Isolated ==
  hist # <<>> =>
    LET op == hist[Len(hist)].op IN
    /\ res = "refuse" => TRUE
    /\ (op \notin {"att_add", "att_remove"} /\ Len(hist) = 1 => attach = BaseDoc(base).st.att)
    /\ (op \notin {"kw_add", "kw_remove"} /\ Len(hist) = 1 => keywords = BaseDoc(base).st.kw)
    /\ (op \notin {"prop_add", "prop_remove"} /\ Len(hist) = 1 => props = BaseDoc(base).st.props)

InitListing(b) ==
  LET st == BaseDoc(b).st IN
  [kw |-> SetToSeq(st.kw), props |-> FnList(st.props), layout |-> st.layout, mode |-> st.mode, vp |-> FnList(st.vp),
   att |-> SetToSeq({[name |-> n, desc |-> st.att[n].desc, data |-> st.att[n].data] : n \in DOMAIN st.att}), ext |-> <<>>]
Case == [base |-> base, info |-> BaseDoc(base).info, xmp |-> BaseDoc(base).xmp, kwinfo |-> BaseDoc(base).kwinfo, init |-> InitListing(base), steps |-> hist]
EmitCase == Emit /\ hist # <<>> /\ (Mode = "sim" => Len(hist) = len) => PrintT(<<"CASE", ToJson(Case)>>)
=============================================================================
