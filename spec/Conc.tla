------------------------------------------------ MODULE Conc ------------------------------------------------
(* C40 - design model of the shared objects behind pdfcpu's API, at the granularity of the code:               *)
(*                                                                                                              *)
(*  pkg/font/metrics.go                                                                                         *)
(*    userFontMetrics (map)            -> map      guarded by userFontMetricsLock (RWMutex) -> rwW / rwR        *)
(*    loadUserFontsOnce (sync.Once)    -> once (done flag) + onceMu (the Once's internal mutex)                  *)
(*    loadUserFontsMutex               -> mu                                                                    *)
(*    LoadUserFonts   : mu.Lock ; once.Do(doLoadUserFonts) ; mu.Unlock                 l_lock .. l_unlock       *)
(*    ReloadUserFonts : mu.Lock ; doLoadUserFonts ; once.Do(nop) ; mu.Unlock           w_lock .. w_unlock       *)
(*    doLoadUserFonts : ReadDir + decode every file into a LOCAL map (d_read) ; Lock (d_lock) ; clear (d_clear) *)
(*                      ; copy entry by entry (d_fill, one step per font, any order) ; Unlock (d_unlock)        *)
(*    lookups (UserFontNames, UserFont, IsUserFont): LoadUserFonts() ; RLock (k_rlock) ; read (k_read) ;        *)
(*                      RUnlock (k_runlock)                                                                     *)
(*  pkg/api/api.go  DisableConfigDir : mutexDisableConfigDir.Lock ; model.ConfigPath = "disable" ; Unlock       *)
(*                  (the mutex does NOT guard the readers of model.ConfigPath: NewDefaultConfiguration reads it  *)
(*                  without any lock) ; pkg/log setters write the logger pointers without any lock.              *)
(*    -> the documented mode: main configures (DisableConfigDir, loggers) BEFORE it starts the goroutines.       *)
(*                                                                                                              *)
(* The user-font directory is changed by the environment (SetDir). Discipline = TRUE is the usage the doc        *)
(* comment of ReloadUserFonts describes ("reloads ... after the font directory has changed"): the directory is   *)
(* not modified while a load is between reading it and publishing the result.                                   *)
(*                                                                                                              *)
(* Properties (invariants):                                                                                     *)
(*   CompleteGen    every lookup result is exactly the content of SOME generation (never a partial map)         *)
(*   ReloadAtomic   refinement of ConcModel: at its read point a lookup returns Fonts[abs.cache], where the      *)
(*                  abstract cache changes only at the single publish point (d_unlock) of a load                 *)
(*   PublishesDir   what a load publishes is the directory content at its publish point (abs: cache := dir)     *)
(*   Fresh          a lookup returns the generation of a publish that is not older than the last publish        *)
(*                  completed before the lookup was called                                                      *)
(*   NoRace         no two processes are simultaneously about to access the same plain variable, one writing    *)
(*   LockSanity     mutual exclusion of the modelled mutexes                                                    *)
(*   NoStuck        no operation blocks forever: every state without successor is the terminal one              *)
(* Independent inputs: an operation works on objects of its own (its context, a freshly parsed stamp source, local   *)
(* decode buffers). Break = "shared_source" lets every operation use ONE process-wide mutable object instead (a cached  *)
(* parsed stamp file that is dereferenced lazily, a package-level scratch buffer of a stream filter): NoRace is refuted. *)
(* Break # "none" weakens the model on purpose; TLC must then find a violation (checked on every run).          *)
EXTENDS ConcModel, Sequences, TLC

CONSTANTS Readers, Reloaders,   \* sets of model values
          OpsR, OpsW,           \* operations per reader / reloader
          MaxGen,               \* the environment installs generations 1..MaxGen after generation 0
          Discipline,           \* BOOLEAN, see above
          Break                 \* "none" | "publish_early" | "late_disable" | "no_rlock" | "once_outside" | "shared_source"

Workers == Readers \cup Reloaders
Procs   == Workers \cup {"main"}

(* generation table: a common font 0 and one font of its own per generation (the harness uses 1 + 2) *)
Fonts == [g \in 0..MaxGen |-> {0, g + 1}]

VARIABLES pc, left, mu, once, onceMu, rwW, rwR, map, dir, loading, result, cfgMu, configPath, logger, spawned,
          abs, pubs, minVer, readVer, readOK

vars == <<pc, left, mu, once, onceMu, rwW, rwR, map, dir, loading, result, cfgMu, configPath, logger, spawned,
          abs, pubs, minVer, readVer, readOK>>

None == "none"

MainProg == IF Break = "late_disable"
            THEN <<"m_spawn", "m_lock", "m_write", "m_unlock", "m_setlog", "m_done">>
            ELSE <<"m_lock", "m_write", "m_unlock", "m_setlog", "m_spawn", "m_done">>
NextMain(l) == LET i == CHOOSE k \in 1..Len(MainProg) : MainProg[k] = l IN MainProg[i + 1]

Init == /\ pc = [p \in Procs |-> IF p = "main" THEN MainProg[1] ELSE "idle"]
        /\ left = [p \in Workers |-> IF p \in Readers THEN OpsR ELSE OpsW]
        /\ mu = None /\ once = FALSE /\ onceMu = None /\ rwW = None /\ rwR = {}
        /\ map = {} /\ dir = 0
        /\ loading = [p \in Workers |-> NoGen]
        /\ result = [p \in Readers |-> {}]
        /\ cfgMu = None /\ configPath = "default" /\ logger = "unset" /\ spawned = FALSE
        /\ abs = SeqState(0, NoGen) /\ pubs = <<>>
        /\ minVer = [p \in Readers |-> 0] /\ readVer = [p \in Readers |-> 0] /\ readOK = [p \in Readers |-> TRUE]

Goto(p, l) == pc' = [pc EXCEPT ![p] = l]

\* ---------------------------------------------------------------- main
Main == /\ pc["main"] # "m_done"
        /\ CASE pc["main"] = "m_lock"   -> cfgMu = None /\ cfgMu' = "main" /\ UNCHANGED <<configPath, logger, spawned>>
             [] pc["main"] = "m_write"  -> configPath' = "disable" /\ UNCHANGED <<cfgMu, logger, spawned>>
             [] pc["main"] = "m_unlock" -> cfgMu' = None /\ UNCHANGED <<configPath, logger, spawned>>
             [] pc["main"] = "m_setlog" -> logger' = "set" /\ UNCHANGED <<cfgMu, configPath, spawned>>
             [] pc["main"] = "m_spawn"  -> spawned' = TRUE /\ UNCHANGED <<cfgMu, configPath, logger>>
        /\ Goto("main", NextMain(pc["main"]))
        /\ UNCHANGED <<left, mu, once, onceMu, rwW, rwR, map, dir, loading, result, abs, pubs, minVer, readVer, readOK>>

\* ---------------------------------------------------------------- doLoadUserFonts
AfterLoad(p) == IF p \in Readers THEN (IF Break = "once_outside" THEN "l_unlock" ELSE "l_setonce") ELSE "w_once"
InLoad(p)    == pc[p] \in {"d_lock", "d_clear", "d_fill", "d_unlock"}

DRead(p) == /\ pc[p] = "d_read"
            /\ loading' = [loading EXCEPT ![p] = dir]
            /\ Goto(p, "d_lock")
            /\ UNCHANGED <<left, mu, once, onceMu, rwW, rwR, map, dir, result, cfgMu, configPath, logger, spawned, abs, pubs, minVer, readVer, readOK>>

DLock(p) == /\ pc[p] = "d_lock"
            /\ rwW = None /\ rwR = {}
            /\ rwW' = p
            /\ Goto(p, "d_clear")
            /\ UNCHANGED <<left, mu, once, onceMu, rwR, map, dir, loading, result, cfgMu, configPath, logger, spawned, abs, pubs, minVer, readVer, readOK>>

DClear(p) == /\ pc[p] = "d_clear"
             /\ map' = {}
             /\ Goto(p, IF Break = "publish_early" THEN "d_unlock" ELSE "d_fill")
             /\ UNCHANGED <<left, mu, once, onceMu, rwW, rwR, dir, loading, result, cfgMu, configPath, logger, spawned, abs, pubs, minVer, readVer, readOK>>

DFill(p) == /\ pc[p] = "d_fill"
            /\ IF map = Fonts[loading[p]]
               THEN /\ Goto(p, IF rwW = p THEN "d_unlock" ELSE AfterLoad(p))
                    /\ UNCHANGED map
               ELSE /\ \E f \in Fonts[loading[p]] \ map : map' = map \cup {f}
                    /\ UNCHANGED pc
            /\ UNCHANGED <<left, mu, once, onceMu, rwW, rwR, dir, loading, result, cfgMu, configPath, logger, spawned, abs, pubs, minVer, readVer, readOK>>

(* the publish point: the abstract cache takes the directory's generation *)
DUnlock(p) == /\ pc[p] = "d_unlock"
              /\ rwW' = None
              /\ abs' = ReloadOp(abs)
              /\ pubs' = Append(pubs, loading[p])
              /\ Goto(p, IF map = Fonts[loading[p]] THEN AfterLoad(p) ELSE "d_fill")
              /\ UNCHANGED <<left, mu, once, onceMu, rwR, map, dir, loading, result, cfgMu, configPath, logger, spawned, minVer, readVer, readOK>>

DoLoad(p) == DRead(p) \/ DLock(p) \/ DClear(p) \/ DFill(p) \/ DUnlock(p)

\* ---------------------------------------------------------------- lookups
RStart(p) == /\ pc[p] = "idle" /\ spawned /\ left[p] > 0
             /\ left' = [left EXCEPT ![p] = @ - 1]
             /\ minVer' = [minVer EXCEPT ![p] = Len(pubs)]
             /\ Goto(p, "conf")
             /\ UNCHANGED <<mu, once, onceMu, rwW, rwR, map, dir, loading, result, cfgMu, configPath, logger, abs, pubs, spawned, readVer, readOK>>

(* sync.Once = a done flag (once) + an internal mutex (onceMu): Do(f) returns at once when done; otherwise it takes     *)
(* onceMu, re-checks done, runs f, sets done, releases onceMu.                                                          *)
(* Inv (Break = "once_outside"): LoadUserFonts enters the Once FIRST and takes loadUserFontsMutex inside the callback,  *)
(* then reads the load error under a read lock - while ReloadUserFonts keeps the order mutex -> Once: lock-order        *)
(* inversion, the model deadlocks when the first lookup overlaps a reload (NoStuck is refuted by TLC).                  *)
Inv == Break = "once_outside"

(* an API operation starts by reading model.ConfigPath (NewDefaultConfiguration) and the logger pointers *)
RConf(p) == /\ pc[p] = "conf"
            /\ Goto(p, IF Inv THEN "l_once" ELSE "l_lock")
            /\ UNCHANGED <<mu, once, onceMu, left, rwW, rwR, map, dir, loading, result, cfgMu, configPath, logger, spawned, abs, pubs, minVer, readVer, readOK>>

LLock(p) == /\ pc[p] = "l_lock" /\ mu = None
            /\ mu' = p
            /\ Goto(p, IF Inv THEN "d_read" ELSE "l_once")
            /\ UNCHANGED <<once, onceMu, left, rwW, rwR, map, dir, loading, result, cfgMu, configPath, logger, spawned, abs, pubs, minVer, readVer, readOK>>

LOnce(p) == /\ pc[p] = "l_once"
            /\ Goto(p, IF once THEN (IF Inv THEN "e_read" ELSE "l_unlock") ELSE "o_lock")
            /\ UNCHANGED <<mu, once, onceMu, left, rwW, rwR, map, dir, loading, result, cfgMu, configPath, logger, spawned, abs, pubs, minVer, readVer, readOK>>

OLock(p) == /\ pc[p] = "o_lock" /\ onceMu = None
            /\ onceMu' = p
            /\ Goto(p, "o_check")
            /\ UNCHANGED <<mu, once, left, rwW, rwR, map, dir, loading, result, cfgMu, configPath, logger, spawned, abs, pubs, minVer, readVer, readOK>>

OCheck(p) == /\ pc[p] = "o_check"
             /\ Goto(p, IF once THEN "o_rel" ELSE (IF Inv THEN "l_lock" ELSE "d_read"))
             /\ UNCHANGED <<mu, once, onceMu, left, rwW, rwR, map, dir, loading, result, cfgMu, configPath, logger, spawned, abs, pubs, minVer, readVer, readOK>>

ORel(p) == /\ pc[p] = "o_rel"
           /\ onceMu' = None
           /\ Goto(p, IF Inv THEN "e_read" ELSE "l_unlock")
           /\ UNCHANGED <<mu, once, left, rwW, rwR, map, dir, loading, result, cfgMu, configPath, logger, spawned, abs, pubs, minVer, readVer, readOK>>

LSetOnce(p) == /\ pc[p] = "l_setonce"
               /\ once' = TRUE /\ onceMu' = None
               /\ loading' = [loading EXCEPT ![p] = NoGen]
               /\ Goto(p, IF Inv THEN "e_read" ELSE "l_unlock")
               /\ UNCHANGED <<left, mu, rwW, rwR, map, dir, result, cfgMu, configPath, logger, spawned, abs, pubs, minVer, readVer, readOK>>

LUnlock(p) == /\ pc[p] = "l_unlock"
              /\ mu' = None
              /\ Goto(p, IF Inv THEN "l_setonce" ELSE "k_rlock")
              /\ UNCHANGED <<once, onceMu, left, rwW, rwR, map, dir, loading, result, cfgMu, configPath, logger, spawned, abs, pubs, minVer, readVer, readOK>>

(* Inv only: the recorded load error is read under a read lock of the (RW) load mutex *)
ERead(p) == /\ pc[p] = "e_read" /\ mu = None
            /\ Goto(p, "k_rlock")
            /\ UNCHANGED <<mu, once, onceMu, left, rwW, rwR, map, dir, loading, result, cfgMu, configPath, logger, spawned, abs, pubs, minVer, readVer, readOK>>

KRLock(p) == /\ pc[p] = "k_rlock"
             /\ (Break = "no_rlock" \/ rwW = None)
             /\ rwR' = IF Break = "no_rlock" THEN rwR ELSE rwR \cup {p}
             /\ Goto(p, "k_read")
             /\ UNCHANGED <<left, mu, once, onceMu, rwW, map, dir, loading, result, cfgMu, configPath, logger, spawned, abs, pubs, minVer, readVer, readOK>>

(* the read point of the lookup: the abstract model (ConcModel) says it returns Fonts[abs.cache] *)
KRead(p) == /\ pc[p] = "k_read"
            /\ result' = [result EXCEPT ![p] = map]
            /\ readVer' = [readVer EXCEPT ![p] = Len(pubs)]
            /\ readOK' = [readOK EXCEPT ![p] = Loaded(abs) /\ map = NamesOf(abs, Fonts)]
            /\ Goto(p, "k_runlock")
            /\ UNCHANGED <<left, mu, once, onceMu, rwW, rwR, map, dir, loading, cfgMu, configPath, logger, spawned, abs, pubs, minVer>>

KRUnlock(p) == /\ pc[p] = "k_runlock"
               /\ rwR' = rwR \ {p}
               /\ Goto(p, "idle")
               /\ result' = [result EXCEPT ![p] = {}]       \* the values were judged while pc = "k_runlock"
               /\ minVer' = [minVer EXCEPT ![p] = 0] /\ readVer' = [readVer EXCEPT ![p] = 0] /\ readOK' = [readOK EXCEPT ![p] = TRUE]
               /\ UNCHANGED <<left, mu, once, onceMu, rwW, map, dir, loading, cfgMu, configPath, logger, spawned, abs, pubs>>

Reader(p) == RStart(p) \/ RConf(p) \/ LLock(p) \/ LOnce(p) \/ OLock(p) \/ OCheck(p) \/ ORel(p) \/ LSetOnce(p) \/ LUnlock(p) \/ ERead(p) \/ KRLock(p) \/ KRead(p) \/ KRUnlock(p) \/ DoLoad(p)

\* ---------------------------------------------------------------- reloads
WStart(p) == /\ pc[p] = "idle" /\ spawned /\ left[p] > 0
             /\ left' = [left EXCEPT ![p] = @ - 1]
             /\ Goto(p, "w_lock")
             /\ UNCHANGED <<mu, once, onceMu, rwW, rwR, map, dir, loading, result, cfgMu, configPath, logger, spawned, abs, pubs, minVer, readVer, readOK>>

WLock(p) == /\ pc[p] = "w_lock" /\ mu = None
            /\ mu' = p
            /\ Goto(p, "d_read")
            /\ UNCHANGED <<left, once, onceMu, rwW, rwR, map, dir, loading, result, cfgMu, configPath, logger, spawned, abs, pubs, minVer, readVer, readOK>>

WOnce(p) == /\ pc[p] = "w_once"
            /\ (once \/ onceMu = None)         \* once.Do(func(){}): blocks while another goroutine is inside the Once
            /\ once' = TRUE
            /\ loading' = [loading EXCEPT ![p] = NoGen]
            /\ Goto(p, "w_unlock")
            /\ UNCHANGED <<left, mu, onceMu, rwW, rwR, map, dir, result, cfgMu, configPath, logger, spawned, abs, pubs, minVer, readVer, readOK>>

WUnlock(p) == /\ pc[p] = "w_unlock"
              /\ mu' = None
              /\ Goto(p, "idle")
              /\ UNCHANGED <<left, once, onceMu, rwW, rwR, map, dir, loading, result, cfgMu, configPath, logger, spawned, abs, pubs, minVer, readVer, readOK>>

Reloader(p) == WStart(p) \/ WLock(p) \/ WOnce(p) \/ WUnlock(p) \/ DoLoad(p)

\* ---------------------------------------------------------------- environment
SetDir == /\ spawned /\ dir < MaxGen
          /\ (Discipline => \A p \in Workers : ~InLoad(p))
          /\ dir' = dir + 1
          /\ abs' = SetDirOp(abs, dir + 1)
          /\ UNCHANGED <<pc, left, mu, once, onceMu, rwW, rwR, map, loading, result, cfgMu, configPath, logger, spawned, pubs, minVer, readVer, readOK>>

Next == Main \/ SetDir \/ (\E p \in Readers : Reader(p)) \/ (\E p \in Reloaders : Reloader(p))

Spec == Init /\ [][Next]_vars

\* ---------------------------------------------------------------- properties
CompleteGen == \A p \in Readers : pc[p] = "k_runlock" => Complete(result[p], Fonts)

ReloadAtomic == \A p \in Readers : pc[p] = "k_runlock" => readOK[p]

PublishesDir == \A p \in Workers : (pc[p] = "d_unlock" /\ map = Fonts[loading[p]]) => loading[p] = dir

Fresh == \A p \in Readers : pc[p] = "k_runlock" =>
            /\ readVer[p] >= 1 /\ readVer[p] >= minVer[p]
            /\ result[p] = Fonts[pubs[readVer[p]]]

(* plain (non-atomic, not self-synchronising) variables a process is about to access at its current label *)
Access(p) == CASE pc[p] = "m_write"  -> {<<"configPath", "w">>}
               [] pc[p] = "m_setlog" -> {<<"logger", "w">>}
               [] pc[p] = "conf"     -> {<<"configPath", "r">>, <<"logger", "r">>}
                                        \cup (IF Break = "shared_source" THEN {<<"sharedSource", "w">>} ELSE {})
               [] pc[p] \in {"d_clear", "d_fill"} -> {<<"map", "w">>}
               [] pc[p] = "k_read"   -> {<<"map", "r">>}
               [] pc[p] \in {"l_setonce", "w_once"} -> {<<"loadErr", "w">>}
               [] pc[p] \in {"l_once", "e_read"} -> {<<"loadErr", "r">>}
               [] OTHER -> {}

Conflict(p, q) == \E a \in Access(p), b \in Access(q) : a[1] = b[1] /\ (a[2] = "w" \/ b[2] = "w")

NoRace == \A p, q \in Procs : p # q => ~Conflict(p, q)

LockSanity == /\ (rwW # None => rwR = {})
              /\ \A p \in Workers : pc[p] \in {"w_once", "w_unlock", "d_read", "d_lock", "d_clear", "d_unlock"} => mu = p
              /\ (~Inv => \A p \in Workers : pc[p] \in {"l_once", "o_lock", "o_check", "o_rel", "l_setonce", "l_unlock"} => mu = p)
              /\ \A p \in Workers : pc[p] \in {"o_check", "o_rel", "l_setonce"} => onceMu = p
              /\ \A p \in Workers : pc[p] \in {"d_clear"} => rwW = p

(* every operation finishes: the only terminal states are the ones where every program is done *)
Terminal == pc["main"] = "m_done" /\ \A p \in Workers : pc[p] = "idle" /\ left[p] = 0
NoStuck  == (~ ENABLED Next) => (Terminal /\ (Discipline => TRUE))
=================================================================================================================
