SPECIFICATION Spec
CONSTANTS
  VRPairs <- VRAll
  Surrounds = {{}, {3}, {6}, {9}, {12}, {3, 6}, {3, 9}, {3, 12}, {6, 9}, {6, 12}, {9, 12}, {3, 6, 9}, {3, 6, 12}, {3, 9, 12}, {6, 9, 12}, {3, 6, 9, 12}}
  DocHi = {TRUE}
  DocSurs = {{}, {3, 9}, {6, 12}, {3, 6, 9, 12}}
  DocOther = {"none", "all", "mixed"}
  E2EAlgs = {"rc4_40", "rc4_40_v2", "rc4_40_r3", "rc4_128_r3", "rc4_128", "aes_128", "aes_256", "aes_256_r6"}
  ApiAlgs = {"rc4_40", "rc4_40_v2", "rc4_40_r3", "rc4_128_r3", "rc4_128", "aes_128", "aes_256", "aes_256_r6"}
  ApiRels = {{}, {4}, {5}, {10}, {11}, {4, 5}, {4, 10}, {4, 11}, {5, 10}, {5, 11}, {10, 11}, {4, 5, 10}, {4, 5, 11}, {4, 10, 11}, {5, 10, 11}, {4, 5, 10, 11}}
  ApiSurs = {{}, {3, 6, 9, 12}}
  Emit = TRUE
INVARIANTS Mono Layout SurroundIrrelevant EmitCase EmitDocs
