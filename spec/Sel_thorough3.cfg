SPECIFICATION Spec
CONSTANTS
  PCs = {0,2,3}
  Nums = {0,1,3}
  NumsLast = {0,2}
  MaxFull = 2
  MaxTerms = 3
  Emit = TRUE
INVARIANTS InRange Partition LastWins EmitCase
