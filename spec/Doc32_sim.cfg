SPECIFICATION Spec
CONSTANTS
  Mode = "sim"
  Ns = {2,3,4,5,6,7,8,9,10,11,12,13,14,15,16,17,18,19,20,21,22,23,24,25,26,27,28,29,30}
  Shapes = {1,2,3,4,5,6}
  Deep = {}
  MaxLen = 8
  MaxPages = 64
  Deep3 = {}
  Emit = TRUE
INVARIANTS TreesOK PagesOK StepSane EmitCase
