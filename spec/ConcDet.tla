---------------------------------------------- MODULE ConcDet ----------------------------------------------
(* C40 - judge of the determinism records of Binding 2 (harness/cmd/conc ops).                                  *)
(* det.ndjson: one record per task run CONCURRENTLY with other tasks (own copy of the input, own directory):    *)
(*   [i, procs, n, round, g, op, input,                                                                         *)
(*    conc      : [err, proj, bag]            result of the concurrent run                                      *)
(*    solo_err, solo_proj, solo_bag : sequences, one entry per run of the same (op, input) ALONE]               *)
(*   err  = error text (directory names normalised), proj = digest of the semantic projection (validation       *)
(*   verdict, page list with decoded content / boxes / rotation, exported form values), bag = digest of the      *)
(*   multiset of normalised object bodies (ids, dates stripped, references erased).                             *)
(* The property: the concurrent run produces the result of the run alone. The projection and the error must     *)
(* agree always. The object bag is compared only where running alone is itself reproducible: pdfcpu's writer    *)
(* is not byte-deterministic for some operations (map iteration order), so a bag mismatch counts only when      *)
(* at least Confirm solo runs all produced one and the same bag.                                                *)
EXTENDS Integers, Sequences, TLC, Json

CONSTANT Confirm

Rec == ndJsonDeserialize("det.ndjson")

AllEqual(s) == \A i \in 1..Len(s) : s[i] = s[1]

Verdict(r) ==
    IF Len(r.solo_err) < 2 \/ ~AllEqual(r.solo_err) \/ ~AllEqual(r.solo_proj) THEN "baseline"   \* the result of running alone is itself not reproducible
    ELSE IF r.conc.err # r.solo_err[1] THEN "error"
    ELSE IF r.conc.proj # r.solo_proj[1] THEN "projection"
    ELSE IF AllEqual(r.solo_bag) /\ r.conc.bag # r.solo_bag[1]
         THEN (IF Len(r.solo_bag) >= Confirm THEN "objects" ELSE "unconfirmed")
    ELSE "ok"

VARIABLE l
Init == l = 1
Next == l <= Len(Rec) /\ l' = l + 1

Emit == (l <= Len(Rec) /\ Verdict(Rec[l]) # "ok") => PrintT(<<"BAD", ToJson([i |-> Rec[l].i, what |-> Verdict(Rec[l])])>>)
TraceAccepted == TLCGet("stats").diameter = Len(Rec) + 1
=================================================================================================================
