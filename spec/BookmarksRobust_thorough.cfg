SPECIFICATION Spec
CONSTANTS
  Shapes = {11, 111, 22, 122, 23, 123, 34, 44}
  RootFirsts = {0, 1}
  Emit = TRUE
INVARIANTS StepBound NoDup StackBound EmitCase
