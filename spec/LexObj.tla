------------------------------- MODULE LexObj -------------------------------
(* C11 case generation: PDF object trees over representative leaves of every     *)
(* lexical class.  Every state is one tree t; the case printed for the replayer  *)
(* carries the tree and its expected read-back value Norm(t).                    *)
(*  Shapes (selected by the set Shapes):                                         *)
(*   "leaf"  every leaf alone            "a1" [x]          "a2" [x y]  x,y leaves *)
(*   "a3r"   [x y z] over Reps           "a3" [x y z] over all leaves             *)
(*   "a4r"   [w x y z] over Reps                                                  *)
(*   "d1"    <<k x>> k in Keys, x leaf   "d2r" <<k1 x k2 y>> over Reps, 3 key pairs*)
(*   "d2"    <<k1 x k2 y>> over leaves, all key pairs                             *)
(*   "n2r"   [x C y] / <<k C k2 x>> with C a depth-1 composite, x,y in Reps+none *)
(*   "n2"    the same with x, y over all leaves                                   *)
(*   "n3r"   [x [y C z] w] and <<k [x <<k2 C>> y]>> over Reps (depth 3)           *)
EXTENDS Lex, TLC, Json
CONSTANTS Shapes, Slice, NSlices
VARIABLE t

Null == [k |-> "null"]
B(b) == [k |-> "bool", b |-> b]
I(s) == [k |-> "int", s |-> s]
R(m, e) == [k |-> "real", m |-> m, e |-> e]
BR(x) == [k |-> "bigreal", t |-> x]
N(v) == [k |-> "name", v |-> v]
S(v) == [k |-> "str", v |-> v]
H(v) == [k |-> "hex", v |-> v]
Ref(n, g) == [k |-> "ref", n |-> n, g |-> g]
Arr(v) == [k |-> "arr", v |-> v]
Dict(v) == [k |-> "dict", v |-> v]
En(key, val) == [key |-> key, val |-> val]

(* one or two representatives per lexical class: the neighbours *)
Reps == << Null, B(TRUE), I("1"), I("-1"), R(5, -1), BR("1e+20"), N(<<65>>), N(<<>>), N(<<65, 32, 66>>),
           S(<<97>>), S(<<41, 40>>), H(<<65>>), H(<<>>), Ref(1, 0) >>
Leaves == Reps \o <<
   B(FALSE),
   I("0"), I("2147483648"), I("-2147483648"), I("9223372036854775807"), I("-9223372036854775808"),
   R(0, 0), R(-5, -1), R(1, -12), R(1, -13), R(16, -13), R(-4, -13), R(123456789, -7), R(314159, -5), R(1, 10), R(-25, -2),
   BR("-1.5e+300"), BR("1.7976931348623157e+308"), BR("1e+15"), BR("9e+18"), BR("1e+19"),
   N(<<35>>), N(<<47, 40, 41>>), N(<<60, 62, 91, 93, 123, 125, 37>>), N(<<128, 255>>), N(<<49>>),
   N(<<110, 117, 108, 108>>), N(<<82>>), N(<<1, 127>>), N(<<65, 35, 50, 48>>), N(<<65, 194, 160, 66>>), N(<<226, 128, 168, 67>>),
   S(<<>>), S(<<40>>), S(<<41>>), S(<<92>>), S(<<97, 40, 98, 41, 99>>), S(<<13, 10>>), S(<<0, 128, 255>>),
   S(<<92, 49>>), S(<<49, 32, 48, 32, 82>>), S(<<62, 62>>), S(<<93>>), S(<<92, 41>>), S(<<40, 92>>),
   H(<<0>>), H(<<255, 254>>), H(<<10>>),
   Ref(12, 3), Ref(0, 65535), Ref(2147483647, 0) >>
Keys == << <<>>, <<35>>, <<40>>, <<47>>, <<65>>, <<65, 32, 66>>, <<76, 101, 110>>, <<128>> >>     \* sorted bytewise
KeyPairsR == << <<1, 5>>, <<5, 7>>, <<2, 8>> >>
Comps == << Arr(<<>>), Dict(<<>>), Arr(<<I("1")>>), Arr(<<N(<<65>>)>>), Arr(<<S(<<97>>)>>), Arr(<<Ref(1, 0)>>),
            Dict(<<En(<<65>>, I("1"))>>), Dict(<<En(<<65>>, N(<<66>>))>>), Dict(<<En(<<>>, S(<<>>))>>),
            Dict(<<En(<<65>>, Null)>>), Arr(<<N(<<>>)>>), Dict(<<En(<<65>>, N(<<>>))>>), Arr(<<Null>>),
            Dict(<<En(<<65>>, Ref(1, 0))>>), Arr(<<H(<<>>)>>), Dict(<<En(<<65>>, R(5, -1))>>) >>

Mine(Q) == {x \in Q : x % NSlices = Slice}     \* slices of the first index, for parallel generation
RI == 1..Len(Reps)
LI == 1..Len(Leaves)
Opt(seq, i) == IF i = 0 THEN <<>> ELSE <<seq[i]>>

Init ==
  \/ "leaf" \in Shapes /\ \E i \in Mine(LI) : t = Leaves[i]
  \/ "a1" \in Shapes /\ \E i \in Mine(LI) : t = Arr(<<Leaves[i]>>)
  \/ "a2" \in Shapes /\ \E i \in Mine(LI), j \in LI : t = Arr(<<Leaves[i], Leaves[j]>>)
  \/ "a3r" \in Shapes /\ \E i \in Mine(RI), j \in RI, n \in RI : t = Arr(<<Reps[i], Reps[j], Reps[n]>>)
  \/ "a3" \in Shapes /\ \E i \in Mine(LI), j \in LI, n \in LI : t = Arr(<<Leaves[i], Leaves[j], Leaves[n]>>)
  \/ "a4r" \in Shapes /\ \E i \in Mine(RI), j \in RI, n \in RI, m \in RI : t = Arr(<<Reps[i], Reps[j], Reps[n], Reps[m]>>)
  \/ "d1" \in Shapes /\ \E a \in 1..Len(Keys), i \in Mine(LI) : t = Dict(<<En(Keys[a], Leaves[i])>>)
  \/ "d2r" \in Shapes /\ \E p \in 1..Len(KeyPairsR), i \in Mine(RI), j \in RI :
        t = Dict(<<En(Keys[KeyPairsR[p][1]], Reps[i]), En(Keys[KeyPairsR[p][2]], Reps[j])>>)
  \/ "d2" \in Shapes /\ \E a \in 1..Len(Keys), b \in 1..Len(Keys), i \in Mine(LI), j \in LI :
        a < b /\ t = Dict(<<En(Keys[a], Leaves[i]), En(Keys[b], Leaves[j])>>)
  \/ "n2r" \in Shapes /\ \E i \in Mine(0..Len(Reps)), j \in 0..Len(Reps), c \in 1..Len(Comps) :
        \/ t = Arr(Opt(Reps, i) \o <<Comps[c]>> \o Opt(Reps, j))
        \/ j > 0 /\ i > 0 /\ i <= Len(KeyPairsR) /\
             t = Dict(<<En(Keys[KeyPairsR[i][1]], Comps[c]), En(Keys[KeyPairsR[i][2]], Reps[j])>>)
        \/ j > 0 /\ i > 0 /\ i <= Len(KeyPairsR) /\
             t = Dict(<<En(Keys[KeyPairsR[i][1]], Reps[j]), En(Keys[KeyPairsR[i][2]], Comps[c])>>)
  \/ "n2" \in Shapes /\ \E i \in Mine(0..Len(Leaves)), j \in 0..Len(Leaves), c \in 1..Len(Comps) :
        t = Arr(Opt(Leaves, i) \o <<Comps[c]>> \o Opt(Leaves, j))
  \/ "n3r" \in Shapes /\ \E i \in Mine(RI), j \in RI, c \in 1..Len(Comps), a \in 1..Len(Keys) :
        \/ \E n \in {1, 3, 7, 8, 10, 14}, m \in {1, 3, 7, 8, 10, 14} :
             t = Arr(<<Reps[n], Arr(<<Reps[i], Comps[c], Reps[j]>>), Reps[m]>>)
        \/ t = Dict(<<En(Keys[a], Arr(<<Reps[i], Dict(<<En(Keys[5], Comps[c])>>), Reps[j]>>))>>)
Next == FALSE /\ UNCHANGED t
Spec == Init /\ [][Next]_t

(* design checks of the object model *)
NormIdempotent == Norm(Norm(t)) = Norm(t)
NormNoNullEntries == LET n == Norm(t) IN n.k = "dict" => \A i \in 1..Len(n.v) : n.v[i].val.k # "null"
DepthBound == Depth(t) <= 3
EmitCase == PrintT(<<"CASE", ToJson([o |-> t, norm |-> Norm(t)])>>)
=============================================================================
