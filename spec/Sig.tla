-------------------------------- MODULE Sig --------------------------------
(* PDF signature coverage: shared definitions for C27 (tampering), C28 (coverage)   *)
(* and the edit / manipulation families.                                            *)
(*                                                                                  *)
(* A /ByteRange is a tuple br = <<a, b, c, d>>: the bytes [a, a+b) and [c, c+d) of  *)
(* the file are signed.  The gap [gapLo, gapHi) is the extent of the /Contents hex  *)
(* string INCLUDING its angle brackets.  F is the length of the current file.       *)
EXTENDS Integers, Sequences

End1(br) == br[1] + br[2]
End2(br) == br[3] + br[4]

(* The signature covers the whole current file except exactly its own value. *)
Covers(F, br, gapLo, gapHi) ==
    /\ br[1] = 0
    /\ End1(br) = gapLo
    /\ br[3] = gapHi
    /\ End2(br) = F

(* Position class of byte offset p relative to br. *)
Class(p, br) ==
    IF p >= br[1] /\ p < End1(br) THEN "range1"
    ELSE IF p >= br[3] /\ p < End2(br) THEN "range2"
    ELSE IF p >= End1(br) /\ p < br[3] THEN "gap"
    ELSE "beyond"

Signed(p, br) == Class(p, br) \in {"range1", "range2"}

(* What a validation verdict v = [status, reason, docmod] claims. *)
ClaimsValid(v)      == v.status = "valid"
ClaimsUnmodified(v) == v.docmod = "false" \/ v.reason = "docNotModified"
Rejects(v)          == v.status = "invalid" \/ v.docmod = "true"

(* ---- edit families of the signature value (/Contents hex string) and of /ByteRange ---- *)
(* Regions of the decoded value: the signature octets and the document digest are bound    *)
(* cryptographically; "other" parts of the DER object (versions, unsigned attributes,      *)
(* unused certificates) are not.  "pad" is what follows the DER object inside the hex      *)
(* string: placeholder padding.  The hex string IS the signature value entry, so a digit   *)
(* of a different value there (a NON-ZERO byte behind the DER end) modifies the signature  *)
(* value and must be rejected; value-preserving edits of the padding (hex case, zero by    *)
(* zero) carry no expectation.                                                             *)
BoundRegions  == {"sigvalue", "digest"}
RejectRegions == BoundRegions \cup {"pad"}
FreeRegions   == {"other"}
Regions       == RejectRegions \cup FreeRegions

(* expectation of an edit: "reject" = the verdict must not claim valid / unmodified,       *)
(* "free" = value preserving or not bound: no constraint.                                  *)
Expect(family, region) ==
    IF family = "brval" THEN "reject"
    ELSE IF family = "hexval" /\ region \in RejectRegions THEN "reject"
    ELSE "free"
=============================================================================
