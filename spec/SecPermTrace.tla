---------------------------- MODULE SecPermTrace ----------------------------
(* C26 end to end: judges records produced by the real code.  One record = one  *)
(* document encrypted with the given algorithm, passwords and /P, one supplied  *)
(* password pair, and the outcomes of a real read for every command mode (via = *)
(* "read": api.ReadValidateAndOptimize with conf.Cmd = mode) or of every        *)
(* catalogued real file operation (via = "api").                               *)
EXTENDS Sec, Json, TLC
Trace == ndJsonDeserialize("records.ndjson")
VARIABLES l, bad

DocOf(r) == [enc |-> TRUE, alg |-> r.alg, upw |-> r.upw, opw |-> r.opw, perm |-> r.p]
Refusals == {"ErrPermissionDenied", "ErrWrongPassword", "ErrOwnerPasswordRequired", "ErrEncrypted", "ErrNotEncrypted"}

JudgeItem(r, it) ==
  LET e == ReadOutcome(DocOf(r), it.mode, r.u, r.o) IN
    IF r.via = "read" THEN it.out = e
    ELSE IF e = "ok" THEN it.out \notin Refusals   \* the operation proceeds (it may still fail for its own reasons)
    ELSE it.out = e

Bad(r) == {i \in DOMAIN r.outs : ~JudgeItem(r, r.outs[i])}
Init == l = 1 /\ bad = 0
Next == /\ l <= Len(Trace)
        /\ l' = l + 1
        /\ bad' = bad + Cardinality(Bad(Trace[l]))
Spec == Init /\ [][Next]_<<l, bad>>
(* every rejected item is printed (BAD) and counted; AllAccepted fails at the end if any was rejected *)
Report == (l <= Len(Trace) /\ Bad(Trace[l]) # {}) => PrintT(<<"BAD", ToJson([l |-> l, bad |-> Bad(Trace[l])])>>)
AllAccepted == l = Len(Trace) + 1 => bad = 0
TraceAccepted == TLCGet("stats").diameter = Len(Trace) + 1
=============================================================================
