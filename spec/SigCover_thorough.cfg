SPECIFICATION Spec
CONSTANTS
  AMax = 2
  Far = 4
  Shift = 2
  Wide = TRUE
INVARIANTS OnlyIdentityCovers GrowthIrrelevant Emit
