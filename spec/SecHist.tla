------------------------------ MODULE SecHist ------------------------------
(* C25: histories of security operations on one document.  Every reachable state *)
(* is one test case: the steps so far, the expected outcome class of the last    *)
(* step, the expected document state and the expected result of opening the      *)
(* document with every probed password pair.  A failed step ends the history     *)
(* (it leaves the document unchanged, so longer histories add nothing).          *)
EXTENDS Sec, TLC, Json, SequencesExt

CONSTANTS PWSeq,     \* password alphabet as a sequence (must contain "")
          HAlgs,     \* algorithms explored (each behaviour uses one)
          MaxLen,    \* maximum history length for the algorithms in DeepAlgs (one less for the others)
          DeepAlgs,
          Reals,     \* password realisations explored (subset of Sec!Realisations; 0 = one-byte passwords)
          RealLen,   \* maximum history length for realisations other than 0
          ProbeAll,  \* TRUE: probe every pair in PWs x PWs, FALSE: only pairs with one empty component
          Emit

PWs == {PWSeq[i] : i \in 1..Len(PWSeq)}
PW3 == <<"", "a", "b">>                    \* cfg: PWSeq <- PW3
PW4 == <<"", "a", "uni", "long">>          \* non-ASCII and 40-byte passwords (real values in the Go replayer)
PW5 == <<"", "a", "b", "uni", "long">>

VARIABLES alg, real, doc, hist
vars == <<alg, real, doc, hist>>

PNone == -3901     \* 0xF0C3 as 16-bit signed: nothing granted
PAll  == -1        \* 0xFFFF: everything granted

Step(op, a, u, o, n, p) == [op |-> op, alg |-> a, u |-> u, o |-> o, n |-> n, p |-> p]

StepSet(a, d) ==
  (IF d.enc THEN {Step("Encrypt", a, d.upw, d.opw, "", PNone)}
            ELSE {Step("Encrypt", a, u, o, "", PNone) : u \in PWs, o \in PWs})
  \cup {Step("Decrypt", a, u, o, "", 0) : u \in PWs, o \in PWs}
  \cup {Step("SetPerms", a, u, o, "", IF d.perm = PAll THEN PNone ELSE PAll) : u \in PWs, o \in PWs}
  \cup {Step("ChangeUPW", a, u, o, n, 0) : u \in PWs, o \in PWs, n \in PWs}
  \cup {Step("ChangeOPW", a, u, o, n, 0) : u \in PWs, o \in PWs, n \in PWs}

Init == alg \in HAlgs /\ real \in Reals /\ doc = Plain /\ hist = <<>>

Next == /\ Len(hist) < (IF real # 0 THEN RealLen ELSE IF alg \in DeepAlgs THEN MaxLen ELSE MaxLen - 1)
        /\ (IF hist = <<>> THEN TRUE ELSE hist[Len(hist)].out = "ok")
        /\ \E s \in StepSet(alg, doc) :
             /\ hist' = Append(hist, [s |-> s, out |-> Outcome(doc, s), pre |-> doc])
             /\ doc' = After(doc, s)
        /\ UNCHANGED <<alg, real>>
Spec == Init /\ [][Next]_vars

LastH == hist[Len(hist)]
Changes == {"SetPerms", "ChangeUPW", "ChangeOPW"}

(* ---- the three statements of the property, as invariants of the model itself ---- *)
(* 1. neither password supplied => wrong-password error *)
WrongRejected ==
  doc.enc => \A u \in PWs, o \in PWs :
     (u \notin {doc.upw, doc.opw} /\ o \notin {doc.upw, doc.opw}) => OpenOutcome(doc, "VALIDATE", u, o) = "ErrWrongPassword"
(* 2. changes need the current owner password *)
ChangesNeedOwner ==
  (hist # <<>> /\ LastH.s.op \in Changes /\ LastH.out = "ok") =>
     LastH.pre.enc /\ (LastH.s.o = LastH.pre.opw \/ (LastH.s.o = "" /\ LastH.s.u = LastH.pre.opw))
(* 3. afterwards only the new password works *)
OnlyNewWorks ==
  (hist # <<>> /\ LastH.out = "ok") =>
     /\ (LastH.s.op = "ChangeUPW" /\ LastH.s.n # LastH.pre.upw) =>
           /\ OpenOutcome(doc, "VALIDATE", LastH.s.n, "") = "ok"
           /\ Access(doc, LastH.pre.upw, "") = "none" \/ LastH.pre.upw = doc.opw
     /\ (LastH.s.op = "ChangeOPW" /\ LastH.s.n # LastH.pre.opw) =>
           /\ Access(doc, "", LastH.s.n) = "owner"
           /\ Access(doc, "", LastH.pre.opw) # "owner"
           /\ Outcome(doc, Step("SetPerms", alg, doc.upw, LastH.pre.opw, "", PAll)) # "ok"
     /\ (LastH.s.op = "SetPerms") => doc.perm = LastH.s.p
     /\ (LastH.s.op = "Decrypt") => ~doc.enc

(* probed password pairs, in a fixed order *)
NPW == Len(PWSeq)
ProbePairs == IF ProbeAll THEN [i \in 1..(NPW * NPW) |-> <<PWSeq[((i - 1) \div NPW) + 1], PWSeq[((i - 1) % NPW) + 1]>>]
              ELSE [i \in 1..(2 * NPW) |-> IF i <= NPW THEN <<PWSeq[i], "">> ELSE <<"", PWSeq[i - NPW]>>]
Probe(d, u, o) == [u |-> u, o |-> o, out |-> OpenOutcome(d, "VALIDATE", u, o),
                   acc |-> IF d.enc THEN Access(d, u, o) ELSE "owner"]
Probes == [i \in DOMAIN ProbePairs |-> Probe(doc, ProbePairs[i][1], ProbePairs[i][2])]

Case == [alg |-> alg, real |-> real, la |-> PwLen(real, "a"), lb |-> PwLen(real, "b"),
         mba |-> PwMultiByte(real, "a"), mbb |-> PwMultiByte(real, "b"), steps |-> [i \in 1..Len(hist) |-> hist[i].s], out |-> LastH.out,
         post |-> doc, opens |-> IF LastH.out = "ok" THEN Probes ELSE <<>>]
EmitCase == (Emit /\ hist # <<>>) => PrintT(<<"CASE", ToJson(Case)>>)
=============================================================================
