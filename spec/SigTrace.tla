------------------------------ MODULE SigTrace ------------------------------
(* C27: judges the records written by `sig c27` (one per tampered variant of a       *)
(* signed document, produced by the real api.ValidateSignaturesRaw).                 *)
(*                                                                                   *)
(* Literal:  a modification of signed bytes, of the bound part of the signature      *)
(*           value or of a /ByteRange value is never reported as valid / unmodified. *)
(* Detect:   a signature that demonstrably reacts to tampering (some probe inside    *)
(*           its ranges was rejected) reacts at EVERY covered offset: the verdict    *)
(*           differs from the verdict of the untouched document.  This is what       *)
(*           exposes a digest that skips part of the covered bytes when the          *)
(*           untouched verdict cannot be "valid" (expired sample certificates).      *)
EXTENDS Sig, TLC, Json, FiniteSets

Trace == ndJsonDeserialize("records.ndjson")

VARIABLES l, sens      \* sens: set of <<doc, sig>> with a rejected probe so far (probes precede the other records)
vars == <<l, sens>>

BR(r)      == <<r.a, r.b, r.c, r.d>>
Verdict(r) == [status |-> r.status, reason |-> r.reason, docmod |-> r.docmod]
Base(r)    == [status |-> r.bstatus, reason |-> r.breason, docmod |-> r.bdocmod]

Constrained(r) ==
    \/ r.kind \in {"probe", "flip"} /\ Signed(r.off, BR(r))
    \/ r.kind = "brval" /\ Signed(r.off, BR(r))
    \/ r.kind = "hexval" /\ Expect("hexval", r.region) = "reject" /\ Class(r.off, BR(r)) = "gap"

Literal(r) == Constrained(r) => ~ClaimsValid(Verdict(r)) /\ ~ClaimsUnmodified(Verdict(r))
Detect(r, s) == Constrained(r) /\ r.kind \in {"probe", "flip"} /\ <<r.doc, r.sig>> \in s => Verdict(r) # Base(r)
(* geometry sanity of the harness: the value extent lies between the ranges *)
Geometry(r) == r.gaplo >= 0 /\ r.gaplo < r.gaphi /\ r.gaphi <= r.f
(* non-vacuity: the synthetic documents are built to be valid *)
IntactOK(r) == r.kind = "intact" /\ r.synth => ClaimsValid(Verdict(r))

Init == l = 1 /\ sens = {}
Next == /\ l <= Len(Trace)
        /\ l' = l + 1
        /\ sens' = IF Trace[l].kind = "probe" /\ Rejects(Verdict(Trace[l])) THEN sens \cup {<<Trace[l].doc, Trace[l].sig>>} ELSE sens
Spec == Init /\ [][Next]_vars

RecordOK  == l <= Len(Trace) => Literal(Trace[l])
DetectOK  == l <= Len(Trace) => Detect(Trace[l], sens)
GeomOK    == l <= Len(Trace) => Geometry(Trace[l])
VacuityOK == l <= Len(Trace) => IntactOK(Trace[l])
TraceAccepted == TLCGet("stats").diameter = Len(Trace) + 1
=============================================================================
