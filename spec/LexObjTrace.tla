----------------------------- MODULE LexObjTrace -----------------------------
(* C11: judges records of random deeper object trees produced by the Go side:         *)
(* orig = the abstract tree, p1 / p2 = what the real parser read back from the text   *)
(* written by PDFString() / by the object writer (appendPDFObject), e1 / e2 = that    *)
(* path failed.  Requirement: both read back Norm(orig).                              *)
EXTENDS Lex, TLC, Json
Trace == ndJsonDeserialize("records.ndjson")
VARIABLE l
Init == l = 1
Next == l <= Len(Trace) /\ l' = l + 1
Spec == Init /\ [][Next]_l

Fails(r) ==
  LET n == Norm(r.orig) IN
  (IF r.e1 \/ r.p1 # n THEN {"PDFString"} ELSE {}) \cup
  (IF r.e2 \/ r.p2 # n THEN {"appendPDFObject"} ELSE {})
Judge == l <= Len(Trace) =>
  LET r == Trace[l] f == Fails(r) IN
  f # {} => PrintT(<<"BAD", ToJson([why |-> f, rec |-> r, norm |-> Norm(r.orig)])>>)
TraceAccepted == TLCGet("stats").diameter = Len(Trace) + 1
=============================================================================
