SPECIFICATION Spec
CONSTANTS
  NPhases = 3
  MaxIter = 3
  UnitOps = 3
  OpenOpsM = 2
  Unchecked = {2}
  Emit = FALSE
INVARIANTS TypeOK KindOK DocIffDone CtxErrOnlyIfCancelled PreCancelled Bounded
