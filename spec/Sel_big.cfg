SPECIFICATION Spec
CONSTANTS
  PCs = {39,40}
  Nums = {0,1,2,38,39,40,41}
  NumsLast = {0}
  MaxFull = 2
  MaxTerms = 2
  Emit = TRUE
INVARIANTS InRange Partition LastWins EmitCase
