SPECIFICATION Spec
CONSTANTS
  Mode = "bfs"
  Fams = {"kw", "prop"}
  MaxLen = 2
  Mix = 2
  Bases = {"xmpkw"}
  DeepBases = {}
  ShallowBases = {}
  DeepFams = {}
  Std = FALSE
  Emit = TRUE
INVARIANTS TypeOK Isolated EmitCase
