---------------------------- MODULE SigCoverTrace ----------------------------
(* C28: judges the records written by `sig c28`: the geometry MEASURED on the file   *)
(* that was really validated (a b c d f gaplo gaphi) and the verdict of the real     *)
(* validator.  A document is reported as unmodified for a signature only if the      *)
(* signature covers the whole current file except exactly its own value.             *)
EXTENDS Sig, TLC, Json

Trace == ndJsonDeserialize("records.ndjson")
VARIABLE l
Init == l = 1
Next == l <= Len(Trace) /\ l' = l + 1
Spec == Init /\ [][Next]_l

BR(r)      == <<r.a, r.b, r.c, r.d>>
Verdict(r) == [status |-> r.status, reason |-> r.reason, docmod |-> r.docmod]
MCovers(r) == Covers(r.f, BR(r), r.gaplo, r.gaphi)

CoverOK(r) == ClaimsUnmodified(Verdict(r)) => MCovers(r)
(* harness sanity: what was applied is what the model predicted *)
PredOK(r) == /\ r.fam # "incr" => <<r.a, r.b, r.c, r.d, r.f>> = <<r.pa, r.pb, r.pc, r.pd, r.pf>>
             /\ r.fam = "incr" => r.f > r.pf - 1 /\ BR(r) = <<r.pa, r.pb, r.pc, r.pd>>
             /\ r.pcovers = MCovers(r)
(* non-vacuity: an intact, covering document timestamp of the harness's own PKI is reported as unmodified *)
VacuityOK(r) == r.fam = "intact" /\ r.synth /\ r.dts /\ MCovers(r) => ClaimsUnmodified(Verdict(r))

RecordOK   == l <= Len(Trace) => CoverOK(Trace[l])
PredictOK  == l <= Len(Trace) => PredOK(Trace[l])
NonVacuous == l <= Len(Trace) => VacuityOK(Trace[l])
TraceAccepted == TLCGet("stats").diameter = Len(Trace) + 1
=============================================================================
