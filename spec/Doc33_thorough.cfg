SPECIFICATION Spec
CONSTANTS
  SplitNs = {1,2,3,4,5,6,7,8,9,10,11,12,13,14,15,16,17,18,19,20,21,22,23,24,25,26,27,28,29,30}
  Spans = {1,2,3,4,5,6,7,8,9,10,11,12,13,14,15,16,17,18,19,20,21,22,23,24,25,26,27,28,29,30,31}
  NrNs = {1,2,3,4,5,6,7,8,9,10}
  NrSampleNs = {11,12,13,14,15,16,17,18,19,20,21,22,23,24,25,26,27,28,29,30}
  NrSamples = 60
  MergeSizes = {1,2,3,5,8}
  MergeMax = 5
  AppendMax = 3
  ZipSizes = {1,2,3,4,5,6,7,8,9,10}
  RawNs = {1,2,3,4,5,6,7,8,9,10,11,12}
  RawSpans = {1,2,3,5,12}
  BmNs = {2,3,4,5,6,7,8,9}
  SmallMax = 3
  ExtractNs = {1,4,6,9,12}
  Emit = TRUE
INVARIANTS PartsOK MergeOK TreesClear EmitCase
