SPECIFICATION Spec
CONSTANTS
  NObj = 3
  Lens = {7}
  MaxStm = 2
  SizeRule = "table"
INVARIANTS OffsetExact WrittenFileWellFormed
