INIT Init
NEXT Next
CONSTANT Confirm = 6
INVARIANT Emit
POSTCONDITION TraceAccepted
CHECK_DEADLOCK FALSE
