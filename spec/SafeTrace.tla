------------------------------ MODULE SafeTrace ------------------------------
(* Validates records produced by the real sanitize.Path: an accepted name must  *)
(* be SafeName; rejecting is always safe.                                       *)
EXTENDS SafeName, Json, TLC
Trace == ndJsonDeserialize("records.ndjson")
VARIABLE l
Init == l = 1
Next == l <= Len(Trace) /\ l' = l + 1
Spec == Init /\ [][Next]_l
RecordOK == l <= Len(Trace) => (Trace[l].ok => SafeName(Trace[l].out))
TraceAccepted == TLCGet("stats").diameter = Len(Trace) + 1
=============================================================================
