---------------------------- MODULE SigHistTrace ----------------------------
(* C27: judges the records of `sig c27hist`: one record per step of a validation      *)
(* history executed in one process (consecutive calls of api.ValidateSignaturesRaw).  *)
(* Each verdict is judged on its own: a file with a bit flipped inside the signed      *)
(* ranges is never reported valid / unmodified, whatever was validated before it.      *)
EXTENDS Sig, TLC, Json

Trace == ndJsonDeserialize("records.ndjson")
VARIABLE l
Init == l = 1
Next == l <= Len(Trace) /\ l' = l + 1
Spec == Init /\ [][Next]_l

BR(r)      == <<r.a, r.b, r.c, r.d>>
Verdict(r) == [status |-> r.status, reason |-> r.reason, docmod |-> r.docmod]

StepOK(r) == r.tampered /\ Signed(r.off, BR(r)) => ~ClaimsValid(Verdict(r)) /\ ~ClaimsUnmodified(Verdict(r))
(* harness sanity: the fixture is what the model says *)
Fixture(r) == /\ r.tampered => Signed(r.off, BR(r))                 \* the flipped byte is a signed byte
              /\ r.size = "large" => r.b + r.d > 1048576             \* signed ranges above 1 MiB
              /\ Covers(r.f, BR(r), r.gaplo, r.gaphi)                \* genuine geometry, A and B alike
              /\ r.mayclaim = ~r.tampered
(* (Non-vacuity - every profile and size class has genuine steps that ARE reported valid - is counted by the   *)
(* driver over the whole trace; a genuine file rejected after some history is over-rejection, not a C27 matter.) *)

RecordOK   == l <= Len(Trace) => StepOK(Trace[l])
FixtureOK  == l <= Len(Trace) => Fixture(Trace[l])
TraceAccepted == TLCGet("stats").diameter = Len(Trace) + 1
=============================================================================
