------------------------------- MODULE Impose -------------------------------
(* Imposition: booklet slot lists and n-up / grid page placement (pkg/pdfcpu/booklet.go, nup.go).      *)
(* A booklet layout is a sequence of slots; slot value 0 = blank, p > 0 = selected page number p.        *)
(* One sheet of paper = 2 sides x n slots.                                                              *)
EXTENDS Integers, Sequences, FiniteSets

SlotsPerSheet(n) == 2 * n
RoundUp(k, m) == ((k + m - 1) \div m) * m
CeilDiv(k, m) == (k + m - 1) \div m
Range(s) == {s[i] : i \in 1..Len(s)}
NonZero(s) == SelectSeq(s, LAMBDA x : x # 0)

(* every selected page exactly once, everything else blank *)
PlacesOnce(slots, selected) ==
  LET nz == NonZero(slots) IN Range(nz) = selected /\ Len(nz) = Cardinality(selected)
(* a whole number of sheets, and no sheet more than needed *)
WholeSheets(slots, sheetSlots) == Len(slots) % sheetSlots = 0
NoSpareSheet(slots, selected, sheetSlots) == Len(slots) = RoundUp(Cardinality(selected), sheetSlots)

IsBookletLayout(slots, selected, sheetSlots) ==
  PlacesOnce(slots, selected) /\ WholeSheets(slots, sheetSlots) /\ NoSpareSheet(slots, selected, sheetSlots)

(* multi-folio: the layout is a sequence of signatures of sigSlots slots (the last one may be shorter); signature j  *)
(* is a booklet layout of its own for the j-th block of sigSlots selected pages (selSeq = selected pages ascending). *)
Chunk(s, j, size) == SubSeq(s, (j - 1) * size + 1, IF j * size <= Len(s) THEN j * size ELSE Len(s))
NumChunks(len, size) == CeilDiv(len, size)
SignaturesOK(slots, selSeq, sheetSlots, sigSlots) ==
  /\ NumChunks(Len(slots), sigSlots) = NumChunks(Len(selSeq), sigSlots)
  /\ \A j \in 1..NumChunks(Len(slots), sigSlots) :
       LET sl == Chunk(slots, j, sigSlots)
           pg == Range(Chunk(selSeq, j, sigSlots))
       IN PlacesOnce(sl, pg) /\ WholeSheets(sl, sheetSlots)

(* n-up / grid: output page j holds the selected pages ((j-1)*cells+1 .. j*cells) in order *)
NUpPages(k, cells) == CeilDiv(k, cells)
NUpExpected(selSeq, cells) ==
  [j \in 1..NUpPages(Len(selSeq), cells) |-> Chunk(selSeq, j, cells)]
IsNUpLayout(pages, selSeq, cells) == pages = NUpExpected(selSeq, cells)
=============================================================================
