SPECIFICATION Spec
CONSTANTS
  Modes = {"free", "rot", "dup"}
  FreeMax = 3
  NCFree = 3
  NCRot = 14
  MaxNodes = 7
  MaxDepth = 3
  MaxSibs = 6
  NPages = 6
  Targets = {0}
  Emit = TRUE
INVARIANTS TreeSize CleanIdem CleanOrdered RoundTrip EmitCase
