-------------------------------- MODULE Limbs --------------------------------
(* Natural numbers beyond TLC's 32-bit integers: little-endian sequences of base-4096 limbs.          *)
(* Every intermediate value stays below 2^31 for operands of up to 100 limbs.                         *)
EXTENDS Integers, Sequences
LBase == 4096
LValid(x) == \A i \in 1..Len(x) : x[i] \in 0..(LBase - 1)
LAt(x, i) == IF i <= Len(x) THEN x[i] ELSE 0
LMaxLen(x, y) == IF Len(x) >= Len(y) THEN Len(x) ELSE Len(y)

RECURSIVE LNorm(_)
LNorm(x) == IF x # <<>> /\ x[Len(x)] = 0 THEN LNorm(SubSeq(x, 1, Len(x) - 1)) ELSE x

LFromInt(n) == LNorm(<<n % LBase, (n \div LBase) % LBase, n \div (LBase * LBase)>>)   \* 0 <= n < 2^31

RECURSIVE LAddR(_, _, _, _)
LAddR(x, y, i, c) == IF i > LMaxLen(x, y) THEN (IF c = 0 THEN <<>> ELSE <<c>>)
                     ELSE LET s == LAt(x, i) + LAt(y, i) + c IN <<s % LBase>> \o LAddR(x, y, i + 1, s \div LBase)
LAdd(x, y) == LNorm(LAddR(x, y, 1, 0))

(* x - y for x >= y *)
RECURSIVE LSubR(_, _, _, _)
LSubR(x, y, i, br) == IF i > Len(x) THEN <<>>
                      ELSE LET s == LAt(x, i) - LAt(y, i) - br
                           IN <<(s + LBase) % LBase>> \o LSubR(x, y, i + 1, IF s < 0 THEN 1 ELSE 0)
LSub(x, y) == LNorm(LSubR(x, y, 1, 0))

RECURSIVE LColR(_, _, _, _)
LColR(x, y, k, i) == IF i > Len(x) \/ i > k THEN 0
                     ELSE (IF k + 1 - i <= Len(y) THEN x[i] * y[k + 1 - i] ELSE 0) + LColR(x, y, k, i + 1)
RECURSIVE LMulR(_, _, _, _)
LMulR(x, y, k, c) == IF k > Len(x) + Len(y) + 1 THEN <<>>
                     ELSE LET s == LColR(x, y, k, 1) + c IN <<s % LBase>> \o LMulR(x, y, k + 1, s \div LBase)
LMul(x, y) == IF x = <<>> \/ y = <<>> THEN <<>> ELSE LNorm(LMulR(x, y, 1, 0))

(* comparison of normalised numbers: -1, 0, 1 *)
RECURSIVE LCmpR(_, _, _)
LCmpR(x, y, i) == IF i = 0 THEN 0 ELSE IF x[i] < y[i] THEN -1 ELSE IF x[i] > y[i] THEN 1 ELSE LCmpR(x, y, i - 1)
LCmp(x0, y0) == LET x == LNorm(x0)
                    y == LNorm(y0)
                IN IF Len(x) < Len(y) THEN -1 ELSE IF Len(x) > Len(y) THEN 1 ELSE LCmpR(x, y, Len(x))
LLe(x, y) == LCmp(x, y) <= 0
LLt(x, y) == LCmp(x, y) < 0
LEq(x, y) == LCmp(x, y) = 0
LZero(x)  == LNorm(x) = <<>>

RECURSIVE LPow2Small(_)
LPow2Small(k) == IF k = 0 THEN 1 ELSE 2 * LPow2Small(k - 1)       \* k < 12
(* 2^k - 1 *)
LPow2m1(k) == LNorm([i \in 1..(k \div 12) |-> LBase - 1] \o <<LPow2Small(k % 12) - 1>>)
(* bit k (0-based) *)
LBit(x, k) == (LAt(x, k \div 12 + 1) \div LPow2Small(k % 12)) % 2
=============================================================================
