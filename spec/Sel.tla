------------------------------- MODULE Sel -------------------------------
(* Page selection syntax and meaning (pdfcpu "-pages" expressions).               *)
(* A term is a record [f, a, b, neg]; Render gives its text, Denote its pages.    *)
(* Eval: terms are evaluated left to right; a term decides its pages (selects, or *)
(* deselects when negated); even/odd select their pages no earlier term decided.  *)
(* Collect: pages in term order with repetitions; a negated term removes its      *)
(* pages from what was collected so far.                                          *)
EXTENDS Integers, Sequences, FiniteSets, TLC, Json, SequencesExt

CONSTANTS PCs,       \* set of page counts
          Nums,      \* numbers usable in the first MaxFull terms
          NumsLast,  \* numbers usable in later terms
          MaxFull,   \* how many leading terms range over Nums
          MaxTerms,  \* maximum number of terms
          Emit       \* TRUE: print every state as a JSON test case

VARIABLES pc, terms
vars == <<pc, terms>>

Neg == {"", "!", "n"}
Term0 == [f : {"l", "pl"}, a : {0}, b : {0}, neg : Neg]
           \cup [f : {"even", "odd"}, a : {0}, b : {0}, neg : {""}]
Term1(N) == [f : {"n", "pre", "suf", "lm", "lms", "plm", "nl"}, a : N, b : {0}, neg : Neg]
Term2(N) == [f : {"rng", "nlm"}, a : N, b : N, neg : Neg]
Terms(N) == Term0 \cup Term1(N) \cup Term2(N)

S(n) == ToString(n)
Body(t) == CASE t.f = "n"    -> S(t.a)
             [] t.f = "pre"  -> "-" \o S(t.a)
             [] t.f = "suf"  -> S(t.a) \o "-"
             [] t.f = "rng"  -> S(t.a) \o "-" \o S(t.b)
             [] t.f = "l"    -> "l"
             [] t.f = "lm"   -> "l-" \o S(t.a)
             [] t.f = "lms"  -> "l-" \o S(t.a) \o "-"
             [] t.f = "pl"   -> "-l"
             [] t.f = "plm"  -> "-l-" \o S(t.a)
             [] t.f = "nl"   -> S(t.a) \o "-l"
             [] t.f = "nlm"  -> S(t.a) \o "-l-" \o S(t.b)
             [] t.f = "even" -> "even"
             [] t.f = "odd"  -> "odd"
Render(t) == t.neg \o Body(t)

(* The pages a (non even/odd) term talks about, always inside 1..p. *)
Denote(p, t) ==
  LET raw == CASE t.f = "n"   -> {t.a}
               [] t.f = "pre" -> 1..t.a
               [] t.f = "suf" -> t.a..p
               [] t.f = "rng" -> t.a..t.b
               [] t.f = "l"   -> {p}
               [] t.f = "lm"  -> {p - t.a}
               [] t.f = "lms" -> IF p - t.a >= 1 THEN (p - t.a)..p ELSE {}
               [] t.f = "pl"  -> 1..p
               [] t.f = "plm" -> 1..(p - t.a)
               [] t.f = "nl"  -> t.a..p
               [] t.f = "nlm" -> t.a..(p - t.b)
               [] OTHER       -> {}
  IN raw \cap (1..p)

Parity(p, t) == {i \in 1..p : i % 2 = (IF t.f = "even" THEN 0 ELSE 1)}

Step(p, dec, t) ==
  IF t.f \in {"even", "odd"}
    THEN [i \in 1..p |-> IF dec[i] = "u" /\ i \in Parity(p, t) THEN "s" ELSE dec[i]]
    ELSE [i \in 1..p |-> IF i \in Denote(p, t) THEN (IF t.neg = "" THEN "s" ELSE "d") ELSE dec[i]]

RECURSIVE EvalR(_, _, _)
EvalR(p, dec, ts) == IF ts = <<>> THEN dec ELSE EvalR(p, Step(p, dec, Head(ts)), Tail(ts))

Selected(p, ts) == LET d == EvalR(p, [i \in 1..p |-> "u"], ts) IN {i \in 1..p : d[i] = "s"}
Remaining(p, ts) == (1..p) \ Selected(p, ts)

Asc(s) == SetToSortSeq(s, <)
CStep(p, lst, t) ==
  IF t.f \in {"even", "odd"} THEN lst \o Asc(Parity(p, t))
  ELSE IF t.neg = "" THEN lst \o Asc(Denote(p, t))
  ELSE SelectSeq(lst, LAMBDA x : x \notin Denote(p, t))

RECURSIVE CollectR(_, _, _)
CollectR(p, lst, ts) == IF ts = <<>> THEN lst ELSE CollectR(p, CStep(p, lst, Head(ts)), Tail(ts))
Collected(p, ts) == CollectR(p, <<>>, ts)

--------------------------------------------------------------------------
Init == pc \in PCs /\ terms = <<>>

AddTerm == /\ Len(terms) < MaxTerms
           /\ \E t \in Terms(IF Len(terms) < MaxFull THEN Nums ELSE NumsLast) : terms' = Append(terms, t)
           /\ UNCHANGED pc
Next == AddTerm
Spec == Init /\ [][Next]_vars

(* Design properties of the reference model itself. *)
InRange   == Selected(pc, terms) \subseteq 1..pc /\ \A i \in 1..Len(Collected(pc, terms)) : Collected(pc, terms)[i] \in 1..pc
Partition == Selected(pc, terms) \cap Remaining(pc, terms) = {} /\ Selected(pc, terms) \cup Remaining(pc, terms) = 1..pc
(* left-to-right: the last deciding term wins *)
LastWins  == terms # <<>> /\ ~(terms[Len(terms)].f \in {"even", "odd"}) =>
               LET t == terms[Len(terms)] IN
               \A i \in Denote(pc, t) : (i \in Selected(pc, terms)) = (t.neg = "")

Case == [pc |-> pc, sel |-> [i \in 1..Len(terms) |-> Render(terms[i])],
         set |-> Asc(Selected(pc, terms)), rem |-> Asc(Remaining(pc, terms)), list |-> Collected(pc, terms)]
EmitCase == Emit /\ terms # <<>> => PrintT(<<"CASE", ToJson(Case)>>)
=============================================================================
