SPECIFICATION Spec
INVARIANTS EmitLin EmitBad
CHECK_DEADLOCK FALSE
