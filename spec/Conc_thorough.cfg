SPECIFICATION Spec
CONSTANTS
  Readers = {r1, r2}
  Reloaders = {w1, w2}
  OpsR = 2
  OpsW = 2
  MaxGen = 2
  Discipline = TRUE
  Break = "none"
INVARIANTS CompleteGen ReloadAtomic PublishesDir Fresh NoRace LockSanity
