------------------------------- MODULE Sec -------------------------------
(* Document security state of pdfcpu's standard security handler and the decision *)
(* rules of the password / permission checks (properties C22 C23 C25 C26).        *)
(*                                                                                *)
(* A document is  [enc, alg, upw, opw, perm]  (perm = the /P value as a signed    *)
(* integer).  Passwords are atomic values; "" is the empty password.              *)
(* Reusable operators only - no variables.  EXTENDed by SecHist (C25), SecPerm    *)
(* (C26), SecRT (C22) and SecLeak (C23).                                          *)
EXTENDS Integers, Sequences, FiniteSets

(* Algorithm / key length pairs pdfcpu offers.  "aes_256_r6" is AES-256 applied to *)
(* a PDF 2.0 document (security handler revision 6 instead of 5).                  *)
Algs == {"rc4_40", "rc4_128", "aes_128", "aes_256", "aes_256_r6"}

Rev(alg) == CASE alg = "rc4_40"     -> 2
              [] alg = "rc4_128"    -> 4
              [] alg = "aes_128"    -> 4
              [] alg = "aes_256"    -> 5
              [] alg = "aes_256_r6" -> 6
              [] alg = "rc4_40_v2"  -> 2   \* /V 2 /R 2: an rc4_40 document with /V rewritten (same keys)
              [] alg = "rc4_40_r3"  -> 3   \* /V 1 /R 3, 40-bit key: encrypted by the C26 harness itself (ISO 32000-1 algorithms 2, 3, 5)
              [] alg = "rc4_128_r3" -> 3   \* not offered by pdfcpu's encrypt command; C26 obtains such documents by
                                           \* rewriting the encryption dictionary of an rc4_128 document (same keys)

(* The /V (algorithm) entry of the encryption dictionary; permissions depend on /R only. *)
AlgV(alg) == CASE alg \in {"rc4_40", "rc4_40_r3"} -> 1
               [] alg \in {"rc4_40_v2", "rc4_128_r3"} -> 2
               [] alg \in {"rc4_128", "aes_128"} -> 4
               [] OTHER -> 5

(* Revisions 2-4 derive the owner key from the owner password or, when that is    *)
(* empty, from the user password (ISO 32000-1 algorithm 3 step a).                *)
Legacy(alg) == Rev(alg) <= 4
LegacyRev(r) == r <= 4

Outcomes == {"ok", "ErrWrongPassword", "ErrOwnerPasswordRequired", "ErrPermissionDenied",
             "ErrNotEncrypted", "ErrEncrypted"}

--------------------------------------------------------------------------
(* Permission bits (C26).  Bit k (1-based, ISO numbering) of a signed integer.    *)
Pow2(n) == 2 ^ n
Bit(P, k) == ((P \div Pow2(k - 1)) % 2) = 1

(* Reference snapshot of pdfcpu's command classification (pkg/pdfcpu/crypto.go,   *)
(* var perm): <<command mode, needs extract, needs modify>>.                      *)
NeedsTable == <<
  <<"VALIDATE", 0, 0>>, <<"LISTINFO", 0, 0>>, <<"OPTIMIZE", 0, 0>>, <<"SPLIT", 1, 0>>, <<"SPLITBYPAGENR", 1, 0>>,
  <<"MERGECREATE", 0, 0>>, <<"MERGECREATEZIP", 0, 0>>, <<"MERGEAPPEND", 0, 0>>, <<"EXTRACTIMAGES", 1, 0>>,
  <<"EXTRACTFONTS", 1, 0>>, <<"EXTRACTPAGES", 1, 0>>, <<"EXTRACTCONTENT", 1, 0>>, <<"EXTRACTMETADATA", 1, 0>>,
  <<"TRIM", 0, 1>>, <<"LISTATTACHMENTS", 0, 0>>, <<"EXTRACTATTACHMENTS", 1, 0>>, <<"ADDATTACHMENTS", 0, 1>>,
  <<"ADDATTACHMENTSPORTFOLIO", 0, 1>>, <<"REMOVEATTACHMENTS", 0, 1>>, <<"LISTPERMISSIONS", 0, 0>>,
  <<"SETPERMISSIONS", 0, 0>>, <<"ADDWATERMARKS", 0, 1>>, <<"REMOVEWATERMARKS", 0, 1>>, <<"IMPORTIMAGES", 0, 1>>,
  <<"INSERTPAGESBEFORE", 0, 1>>, <<"INSERTPAGESAFTER", 0, 1>>, <<"REMOVEPAGES", 0, 1>>, <<"LISTKEYWORDS", 0, 0>>,
  <<"ADDKEYWORDS", 0, 1>>, <<"REMOVEKEYWORDS", 0, 1>>, <<"LISTPROPERTIES", 0, 0>>, <<"ADDPROPERTIES", 0, 1>>,
  <<"REMOVEPROPERTIES", 0, 1>>, <<"COLLECT", 1, 0>>, <<"CROP", 0, 1>>, <<"LISTBOXES", 0, 0>>, <<"ADDBOXES", 0, 1>>,
  <<"REMOVEBOXES", 0, 1>>, <<"LISTANNOTATIONS", 0, 1>>, <<"ADDANNOTATIONS", 0, 1>>, <<"REMOVEANNOTATIONS", 0, 1>>,
  <<"ROTATE", 0, 1>>, <<"NUP", 0, 1>>, <<"GRID", 0, 1>>, <<"BOOKLET", 0, 1>>, <<"LISTBOOKMARKS", 0, 0>>,
  <<"ADDBOOKMARKS", 0, 1>>, <<"REMOVEBOOKMARKS", 0, 1>>, <<"IMPORTBOOKMARKS", 0, 1>>, <<"EXPORTBOOKMARKS", 0, 1>>,
  <<"LISTIMAGES", 0, 1>>, <<"UPDATEIMAGES", 0, 1>>, <<"CREATE", 0, 0>>, <<"DUMP", 0, 1>>, <<"LISTFORMFIELDS", 0, 0>>,
  <<"REMOVEFORMFIELDS", 0, 1>>, <<"LOCKFORMFIELDS", 0, 1>>, <<"UNLOCKFORMFIELDS", 0, 1>>, <<"RESETFORMFIELDS", 0, 1>>,
  <<"EXPORTFORMFIELDS", 0, 1>>, <<"FILLFORMFIELDS", 0, 1>>, <<"LISTPAGELAYOUT", 0, 1>>, <<"SETPAGELAYOUT", 0, 1>>,
  <<"RESETPAGELAYOUT", 0, 1>>, <<"LISTPAGEMODE", 0, 1>>, <<"SETPAGEMODE", 0, 1>>, <<"RESETPAGEMODE", 0, 1>>,
  <<"LISTVIEWERPREFERENCES", 0, 1>>, <<"SETVIEWERPREFERENCES", 0, 1>>, <<"RESETVIEWERPREFERENCES", 0, 1>>,
  <<"ZOOM", 0, 1>> >>

(* Command modes that exist but are not classified: no rights needed.            *)
Unclassified == <<"MULTIFILLFORMFIELDS", "ENCRYPT", "DECRYPT", "CHANGEUPW", "CHANGEOPW", "CHEATSHEETSFONTS",
                  "INSTALLFONTS", "LISTFONTS", "RESIZE", "POSTER", "NDOWN", "CUT", "LISTCERTIFICATES",
                  "INSPECTCERTIFICATES", "IMPORTCERTIFICATES", "VALIDATESIGNATURES", "REMOVESIGNATURES", "ADDSIGNATURE">>

Classified == {NeedsTable[i][1] : i \in 1..Len(NeedsTable)}
AllModes   == Classified \cup {Unclassified[i] : i \in 1..Len(Unclassified)}

ExtractModes == {NeedsTable[i][1] : i \in {j \in 1..Len(NeedsTable) : NeedsTable[j][2] = 1}}
ModifyModes  == {NeedsTable[i][1] : i \in {j \in 1..Len(NeedsTable) : NeedsTable[j][3] = 1}}
NeedsExtract(cmd) == cmd \in ExtractModes
NeedsModify(cmd)  == cmd \in ModifyModes

(* The two bit layouts: revision 2 uses bit 5 (extract) and bit 4 (modify),       *)
(* revisions >= 3 use bit 10 (extract) and bit 11 (assemble/modify).              *)
ExtractBit(R) == IF R >= 3 THEN 10 ELSE 5
ModifyBit(R)  == IF R >= 3 THEN 11 ELSE 4
ExtractDenied(P, R) == ~Bit(P, ExtractBit(R))
ModifyDenied(P, R)  == ~Bit(P, ModifyBit(R))

(* a command of class (needs extract, needs modify) *)
DeniedC(nx, nm, P, R) == (nx /\ ExtractDenied(P, R)) \/ (nm /\ ModifyDenied(P, R))
Denied(cmd, P, R) == DeniedC(NeedsExtract(cmd), NeedsModify(cmd), P, R)

--------------------------------------------------------------------------
(* Password checks (C25).                                                        *)
NoPW == "<no password candidate>"

(* The owner-password candidate of a supplied pair (u, o). *)
OwnerCand(alg, u, o) == IF o # "" THEN o ELSE IF Legacy(alg) THEN u ELSE NoPW
OwnerOK(d, u, o) == OwnerCand(d.alg, u, o) = d.opw
UserOK(d, u)     == u = d.upw

Access(d, u, o) == IF OwnerOK(d, u, o) THEN "owner" ELSE IF UserOK(d, u) THEN "user" ELSE "none"

(* An ordinary command cmd reading document d with the supplied passwords. *)
OpenOutcome(d, cmd, u, o) ==
  IF ~d.enc THEN "ok"
  ELSE CASE Access(d, u, o) = "owner" -> "ok"
         [] Access(d, u, o) = "user"  -> IF u = "" /\ o = "" THEN "ok"
                                         ELSE IF Denied(cmd, d.perm, Rev(d.alg)) THEN "ErrPermissionDenied" ELSE "ok"
         [] OTHER                     -> "ErrWrongPassword"

(* Password realisations (C25).  The decision rules do not depend on what a password looks like, only on equality; *)
(* the replayer therefore realises the symbolic passwords "a" and "b" with byte lengths around the limits of the   *)
(* algorithms (32 significant bytes for revisions <= 4, 127 for revisions 5/6) and around common allocation size   *)
(* classes, alternately as ASCII and as multi-byte UTF-8 text.  Realisation r gives <<bytes of "a", bytes of "b">>; *)
(* the two always differ in their first byte, so they stay distinct after any truncation.                            *)
PwLens == << <<1, 1>>, <<32, 33>>, <<40, 41>>, <<48, 49>>, <<56, 64>>, <<65, 127>>, <<128, 129>> >>
Realisations == 0..(Len(PwLens) - 1)
PwLen(r, sym) == IF sym = "a" THEN PwLens[r + 1][1] ELSE PwLens[r + 1][2]
PwMultiByte(r, sym) == r > 0 /\ ((r % 2 = 1) = (sym = "b"))

(* Commands that refuse encrypted input altogether (before any password check). *)
EncryptedRefused == {"BOOKLET", "ENCRYPT", "MERGEAPPEND", "MERGECREATE", "MERGECREATEZIP", "ADDSIGNATURE"}
ChangeModes == {"CHANGEUPW", "CHANGEOPW", "SETPERMISSIONS"}

(* Change commands insist on the owner password and then on the user password as well. *)
ChangeGuard(d, u, o) == IF ~OwnerOK(d, u, o) THEN "ErrOwnerPasswordRequired"
                        ELSE IF ~UserOK(d, u) THEN "ErrWrongPassword" ELSE "ok"

(* Reading the encrypted document d for an arbitrary command mode. *)
ReadOutcome(d, mode, u, o) ==
  IF ~d.enc THEN "ok"
  ELSE IF mode \in EncryptedRefused THEN "ErrEncrypted"
  ELSE IF mode \in ChangeModes THEN ChangeGuard(d, u, o)
  ELSE OpenOutcome(d, mode, u, o)

(* A step is [op, alg, u, o, n, p]: operation, algorithm (Encrypt), supplied user and owner password, *)
(* new password (ChangeUPW, ChangeOPW), permissions (Encrypt, SetPerms).                                          *)
Plain == [enc |-> FALSE, alg |-> "rc4_40", upw |-> "", opw |-> "", perm |-> 0]

Outcome(d, s) ==
  CASE s.op = "Encrypt"   -> IF d.enc THEN "ErrEncrypted" ELSE IF s.o = "" THEN "ErrOwnerPasswordRequired" ELSE "ok"
    [] s.op = "Decrypt"   -> IF ~d.enc THEN "ErrNotEncrypted" ELSE OpenOutcome(d, "DECRYPT", s.u, s.o)
    [] s.op = "SetPerms"  -> IF ~d.enc THEN "ErrNotEncrypted" ELSE ChangeGuard(d, s.u, s.o)
    [] s.op = "ChangeUPW" -> IF ~d.enc THEN "ErrNotEncrypted" ELSE ChangeGuard(d, s.u, s.o)
    [] s.op = "ChangeOPW" -> IF s.n = "" THEN "ErrOwnerPasswordRequired"
                             ELSE IF ~d.enc THEN "ErrNotEncrypted" ELSE ChangeGuard(d, s.u, s.o)

(* The document after a successful step (a failed step leaves it unchanged).     *)
(* ChangeUPW with an empty supplied owner password (only possible when the user   *)
(* password doubles as owner password, revisions <= 4) re-derives the owner key   *)
(* from the new user password.                                                    *)
After(d, s) ==
  IF Outcome(d, s) # "ok" THEN d
  ELSE CASE s.op = "Encrypt"   -> [enc |-> TRUE, alg |-> s.alg, upw |-> s.u, opw |-> s.o, perm |-> s.p]
         [] s.op = "Decrypt"   -> Plain
         [] s.op = "SetPerms"  -> [d EXCEPT !.perm = s.p]
         [] s.op = "ChangeUPW" -> [d EXCEPT !.upw = s.n, !.opw = IF s.o # "" THEN d.opw ELSE s.n]
         [] s.op = "ChangeOPW" -> [d EXCEPT !.opw = s.n]
--------------------------------------------------------------------------
(* Plaintext visibility (C23): location kinds of document text. *)
Locs == {"info",        \* info dict strings (standard and custom key)
         "content",     \* page content stream (unfiltered)
         "flate",       \* page content stream, FlateDecode
         "asciihex",    \* page content stream, ASCIIHexDecode
         "annot",       \* annotation /Contents
         "form",        \* form field /V and /DV
         "names",       \* name tree key
         "embfile",     \* embedded file stream data
         "embname",     \* file specification /F /UF /Desc
         "nested",      \* strings in nested arrays / dictionaries of private application data
         "hexstr",      \* hex string in private application data
         "streamdict",  \* string inside the dictionary of a stream
         "outline",     \* bookmark title
         "xmp",         \* XMP metadata stream
         "indstr_annot",   \* a string that is an indirect object of its own, referenced from private annotation keys
         "indstr_array",   \* ... from a (nested) array hanging on a private annotation key
         "indstr_info",    \* ... from a private info dict key
         "indstr_page",    \* ... from a private page dict key
         "indstr_catalog", \* ... from a private catalog key
         "sigmeta",     \* /Name /Reason /Location /ContactInfo of a signature dictionary (only /Contents and /ByteRange are exempt)
         "sigwidget",   \* /Contents (alternate text) of the widget annotation of a signature field
         "sigcontents"} \* /Contents of a signature dictionary: the signature value

(* The only text allowed to be visible. *)
Leaks(loc, alg, emd) == loc = "sigcontents" \/ (loc = "xmp" /\ ~emd)
=============================================================================
