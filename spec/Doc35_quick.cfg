SPECIFICATION Spec
CONSTANTS
  Mode = "bfs"
  Fams = {"kw", "prop", "view", "att"}
  MaxLen = 3
  Mix = 2
  Bases = {"bare", "info", "rich"}
  DeepBases = {"rich"}
  ShallowBases = {"info"}
  DeepFams = {"kw", "prop", "att"}
  Std = FALSE
  Emit = TRUE
INVARIANTS TypeOK Isolated EmitCase
