SPECIFICATION Spec
CONSTANTS
  Mode = "bfs"
  MaxLen = 3
  Emit = TRUE
INVARIANTS TypeOK Isolated EmitCase
