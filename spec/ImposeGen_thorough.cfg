SPECIFICATION Spec
CONSTANTS
  MaxK = 200
  KStride = 1
  Ns = {2, 4, 6, 8}
  BTypes = {"booklet", "bookletadvanced", "perfectbound"}
  Bindings = {"long", "short"}
  Orients = {"P", "L"}
  Folios = {1, 2, 3, 4, 5, 6, 7, 8, 9, 10, 11, 12}
  NUpNs = {2, 3, 4, 8, 9, 12, 16}
  GridMax = 5
  NUpKs = {1, 2, 3, 4, 5, 6, 7, 8, 9, 10, 11, 12, 13, 15, 16, 17, 18, 19, 20, 24, 25, 26, 27, 31, 32, 33, 36, 40, 47, 48, 49, 50, 63, 64, 65, 75, 80, 81, 96, 99, 100, 101, 120, 125, 128, 143, 144, 145, 150, 160, 175, 191, 192, 193, 199, 200}
  FileKs = {1, 2, 3, 4, 5, 7, 8, 9, 12, 15, 16, 17, 24, 31, 32, 33, 40, 48, 64, 65, 100}
  FileFolios = {1, 2, 5}
  Emit = TRUE
INVARIANT EmitCase
