------------------------------ MODULE SigEdits ------------------------------
(* C27: TLC enumerates the edit families of /Contents and /ByteRange; every edit is  *)
(* one state, printed as a JSON case that harness/cmd/sig applies to every signature *)
(* of every document.                                                                *)
EXTENDS Sig, TLC, Json
CONSTANTS Steps,      \* positions per region
          Deltas,     \* digit value changes (1..15): new digit = old + delta mod 16, never the same value
          BRMax       \* /ByteRange values are shifted by -BRMax..BRMax except 0 (digit count preserved by the harness)

BRDeltas == ((0-BRMax)..BRMax) \ {0}
HexVal  == [family : {"hexval"}, region : Regions, pos : 0..(Steps-1), steps : {Steps}, delta : Deltas, idx : {0}]
HexCase == [family : {"hexcase"}, region : Regions, pos : 0..(Steps-1), steps : {Steps}, delta : {0}, idx : {0}]
BRVal   == [family : {"brval"}, region : {"none"}, pos : {0}, steps : {1}, delta : BRDeltas, idx : 1..4]
Edits   == HexVal \cup HexCase \cup BRVal

VARIABLE e
Init == e \in Edits
Next == UNCHANGED e
Spec == Init /\ [][Next]_e

(* a digit changed by delta in 1..15 always has a different value *)
ChangesValue == e.family = "hexval" => \A dgt \in 0..15 : (dgt + e.delta) % 16 # dgt
NonZeroShift == e.family = "brval" => e.delta # 0
Emit == PrintT(<<"EDIT", ToJson([family |-> e.family, region |-> e.region, pos |-> e.pos, steps |-> e.steps,
                                 delta |-> e.delta, idx |-> e.idx, expect |-> Expect(e.family, e.region)])>>)
=============================================================================
