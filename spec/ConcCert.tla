--------------------------------------------- MODULE ConcCert ---------------------------------------------
(* C40 - design model of the trusted-certificate pool cache (pkg/pdfcpu/certificate.go) and the store revision  *)
(* counter (pkg/pdfcpu/model/certificate.go: certificateStoreRevision, MarkCertificateStoreChanged).             *)
(*                                                                                                              *)
(*   LoadCertificates : Lock ; rev := Revision() ; IF loaded /\ cache.rev = rev THEN hit                        *)
(*                      ELSE buildCurrentCertificatePool: LOOP r := Revision() ; pool := walk the directory     *)
(*                           (listing, then one file per step) ; IF r = Revision() THEN EXIT ; publish ; Unlock  *)
(*   mutators         : Mutation = "import"      ImportCertificates: publish the files, THEN mark the change    *)
(*                      Mutation = "reset_mark_first"  ResetCertificates: clear the directory, mark the change,  *)
(*                                 THEN install the default certificates one by one (only the build with the    *)
(*                                 eutl tag installs anything; the default build's install is empty)            *)
(* Invariant Coherent: whenever nothing is in progress, a cache entry whose revision is the current revision    *)
(* holds exactly the store content (otherwise a later LoadCertificates would answer from a stale or torn pool). *)
(* TLC: holds for "import" (change, then mark + the double revision check); is REFUTED for "reset_mark_first".  *)
(* With the configuration directory disabled (the mode of C40) there is no trusted-certificate directory, so    *)
(* this object is checked on the model only.                                                                    *)
EXTENDS Integers, FiniteSets, TLC

CONSTANTS Loaders, LoadsEach, Mutation

None == "none"
Defaults == {101, 102}

VARIABLES store, rev, cache, lock, pc, lrev, names, lpool, left, mpc, mtodo

vars == <<store, rev, cache, lock, pc, lrev, names, lpool, left, mpc, mtodo>>

Init == /\ store = {1} /\ rev = 0
        /\ cache = [loaded |-> FALSE, pool |-> {}, rev |-> 0]
        /\ lock = None
        /\ pc = [p \in Loaders |-> "idle"] /\ lrev = [p \in Loaders |-> 0]
        /\ names = [p \in Loaders |-> {}] /\ lpool = [p \in Loaders |-> {}]
        /\ left = [p \in Loaders |-> LoadsEach]
        /\ mpc = "start" /\ mtodo = {}

Goto(p, l) == pc' = [pc EXCEPT ![p] = l]

CLock(p) == /\ pc[p] = "idle" /\ left[p] > 0 /\ lock = None
            /\ lock' = p /\ left' = [left EXCEPT ![p] = @ - 1] /\ Goto(p, "check")
            /\ UNCHANGED <<store, rev, cache, lrev, names, lpool, mpc, mtodo>>
CCheck(p) == /\ pc[p] = "check"
             /\ Goto(p, IF cache.loaded /\ cache.rev = rev THEN "unlock" ELSE "b_rev")
             /\ UNCHANGED <<store, rev, cache, lock, lrev, names, lpool, left, mpc, mtodo>>
BRev(p) == /\ pc[p] = "b_rev"
           /\ lrev' = [lrev EXCEPT ![p] = rev]
           /\ names' = [names EXCEPT ![p] = store] /\ lpool' = [lpool EXCEPT ![p] = {}]   \* directory listing
           /\ Goto(p, "b_read")
           /\ UNCHANGED <<store, rev, cache, lock, left, mpc, mtodo>>
BRead(p) == /\ pc[p] = "b_read"
            /\ IF names[p] = {}
               THEN Goto(p, "b_cmp") /\ UNCHANGED <<names, lpool>>
               ELSE \E c \in names[p] :
                       /\ names' = [names EXCEPT ![p] = @ \ {c}]
                       /\ lpool' = [lpool EXCEPT ![p] = IF c \in store THEN @ \cup {c} ELSE @]   \* a deleted file is skipped
                       /\ UNCHANGED pc
            /\ UNCHANGED <<store, rev, cache, lock, lrev, left, mpc, mtodo>>
BCmp(p) == /\ pc[p] = "b_cmp"
           /\ Goto(p, IF lrev[p] = rev THEN "publish" ELSE "b_rev")
           /\ UNCHANGED <<store, rev, cache, lock, lrev, names, lpool, left, mpc, mtodo>>
CPublish(p) == /\ pc[p] = "publish"
               /\ cache' = [loaded |-> TRUE, pool |-> lpool[p], rev |-> lrev[p]]
               /\ Goto(p, "unlock")
               /\ UNCHANGED <<store, rev, lock, lrev, names, lpool, left, mpc, mtodo>>
CUnlock(p) == /\ pc[p] = "unlock"
              /\ lock' = None /\ Goto(p, "idle")
              /\ UNCHANGED <<store, rev, cache, lrev, names, lpool, left, mpc, mtodo>>

Loader(p) == CLock(p) \/ CCheck(p) \/ BRev(p) \/ BRead(p) \/ BCmp(p) \/ CPublish(p) \/ CUnlock(p)

Mutator ==
    \/ /\ Mutation = "import" /\ mpc = "start"
       /\ store' = store \cup {2} /\ mpc' = "mark" /\ UNCHANGED <<rev, mtodo>>
    \/ /\ Mutation = "import" /\ mpc = "mark"
       /\ rev' = rev + 1 /\ mpc' = "done" /\ UNCHANGED <<store, mtodo>>
    \/ /\ Mutation = "reset_mark_first" /\ mpc = "start"
       /\ store' = {} /\ mpc' = "mark" /\ UNCHANGED <<rev, mtodo>>
    \/ /\ Mutation = "reset_mark_first" /\ mpc = "mark"
       /\ rev' = rev + 1 /\ mpc' = "install" /\ mtodo' = Defaults /\ UNCHANGED store
    \/ /\ Mutation = "reset_mark_first" /\ mpc = "install"
       /\ IF mtodo = {} THEN mpc' = "done" /\ UNCHANGED <<store, mtodo>>
          ELSE \E c \in mtodo : store' = store \cup {c} /\ mtodo' = mtodo \ {c} /\ UNCHANGED mpc
       /\ UNCHANGED rev

Next == \/ (Mutator /\ UNCHANGED <<cache, lock, pc, lrev, names, lpool, left>>)
        \/ \E p \in Loaders : Loader(p)
Spec == Init /\ [][Next]_vars

Quiescent == mpc = "done" /\ \A p \in Loaders : pc[p] = "idle"
Coherent  == (Quiescent /\ cache.loaded /\ cache.rev = rev) => cache.pool = store
MutexOK   == \A p \in Loaders : pc[p] # "idle" => lock = p
=================================================================================================================
