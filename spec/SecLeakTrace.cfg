SPECIFICATION TSpec
INVARIANTS Report AllAccepted
POSTCONDITION TraceAccepted
CHECK_DEADLOCK FALSE
