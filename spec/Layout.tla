------------------------------- MODULE Layout -------------------------------
(* File structure of a PDF file, over an abstract layout record (property C18).        *)
(*                                                                                     *)
(* A layout record `rec` says what a strict, non-repairing reader finds in a file:     *)
(*   header    : BOOLEAN   "%PDF-x.y" EOL at offset 0                                   *)
(*   tail      : BOOLEAN   file ends with startxref EOL <number> EOL %%EOF [EOL]        *)
(*   startxref : Int       that number                                                 *)
(*   size      : Int       /Size of the newest cross-reference section                 *)
(*   secs      : sequence, newest first, following /Prev from startxref, of            *)
(*               [off, kind ("table"|"stream"|"none"), ok, prev (-1 none), size,       *)
(*                selfn (object number of an xref stream, else -1), tailok]            *)
(*   et ea eb  : three sequences indexed by object number + 1 (merged cross-reference   *)
(*               table, newest section wins): t=0 free (a next free, b generation),    *)
(*               t=1 in use (a offset, b generation), t=2 compressed (a object stream, *)
(*               b index), t=-1 no entry                                               *)
(*   fn fg fok : same indexing; for t=1 the header "n g obj" read exactly at offset a  *)
(*               (fn = fg = -1 if there is none; fok: the body parsed up to endobj)    *)
(*   comp      : one element per t=2 entry: [n, stm, idx, isobjstm, cnt (/N), dec      *)
(*               (content decodable), num (object number listed at idx), ok (member    *)
(*               parses)]                                                              *)
(*   streams   : one per stream object: [n, len (/Length), counts (candidate byte      *)
(*               counts from the data start to the first endstream), eol (after the    *)
(*               stream keyword: "LF" "CRLF" "CR" "none"), endok (endstream endobj     *)
(*               follow at data start + /Length)]                                      *)
EXTENDS Integers, Sequences, FiniteSets

MaxGen == 65535

Range(s) == {s[i] : i \in 1..Len(s)}
Nums(rec) == 0..(Len(rec.et) - 1)
T(rec, n) == rec.et[n + 1]
A(rec, n) == rec.ea[n + 1]
B(rec, n) == rec.eb[n + 1]
HasEntry(rec, n) == n \in Nums(rec) /\ T(rec, n) # -1

(* Every check is a named defect; a file is well formed iff it has none. *)
D(name, ok) == IF ok THEN {} ELSE {name}

(* ---- sections: startxref locates the newest section; sections chain by /Prev ---- *)
Sec(rec, i) == rec.secs[i]
StartXRefOK(rec) ==
  /\ Len(rec.secs) >= 1
  /\ Sec(rec, 1).off = rec.startxref
  /\ Sec(rec, 1).kind \in {"table", "stream"}
  /\ Sec(rec, 1).tailok                       \* startxref / %%EOF follow the newest section directly
  /\ Sec(rec, 1).size = rec.size
SectionFormatOK(rec) ==
  \A i \in 1..Len(rec.secs) : Sec(rec, i).kind \in {"table", "stream"} /\ Sec(rec, i).ok /\ Sec(rec, i).off > 0
PrevChainOK(rec) ==
  \A i \in 1..Len(rec.secs) :
    IF i < Len(rec.secs) THEN Sec(rec, i).prev = Sec(rec, i + 1).off /\ Sec(rec, i).prev < Sec(rec, i).off
                         ELSE Sec(rec, i).prev = -1
SizeMonotone(rec) ==
  \A i \in 1..(Len(rec.secs) - 1) : Sec(rec, i + 1).size <= Sec(rec, i).size
(* a cross-reference stream is itself an in-use object listed at its own offset *)
XRefStreamSelfOK(rec) ==
  \A i \in 1..Len(rec.secs) :
    LET s == Sec(rec, i) IN
    s.kind = "stream" =>
      /\ HasEntry(rec, s.selfn)
      /\ T(rec, s.selfn) = 1
      /\ ((\A j \in 1..(i - 1) : Sec(rec, j).selfn # s.selfn) => A(rec, s.selfn) = s.off)

(* ---- in-use entries locate their objects exactly ---- *)
InUseExact(rec) ==
  \A n \in Nums(rec) :
    T(rec, n) = 1 =>
      /\ rec.fn[n + 1] = n
      /\ rec.fg[n + 1] = B(rec, n)
      /\ rec.fok[n + 1]

CompressedExact(rec) ==
  \A i \in 1..Len(rec.comp) :
    LET c == rec.comp[i] IN
    /\ HasEntry(rec, c.stm)
    /\ T(rec, c.stm) = 1            \* the object stream itself is an ordinary in-use object
    /\ B(rec, c.stm) = 0
    /\ c.isobjstm
    /\ c.idx >= 0 /\ c.idx < c.cnt
    /\ (c.dec => c.num = c.n /\ c.ok)

(* ---- /Size = highest object number + 1 (et is trimmed to the highest object number with an entry) ---- *)
SizeNotTooSmall(rec) == rec.size >= Len(rec.et)
(* An update section cannot state less than the section it extends (SizeMonotone), so a /Size that is too big in an older  *)
(* section is charged to that section only (the file written first is judged on its own): the newest /Size may be as    *)
(* big as the previous one.                                                                                             *)
PrevSize(rec) == IF Len(rec.secs) > 1 THEN Sec(rec, 2).size ELSE 0
SizeNotTooBig(rec) == rec.size <= (IF PrevSize(rec) > Len(rec.et) THEN PrevSize(rec) ELSE Len(rec.et))

(* ---- free list ---- *)
Free(rec) == {n \in Nums(rec) : T(rec, n) = 0}

RECURSIVE Walk(_, _, _)
(* Follows the next pointers from n; <<visited, ok>>; ok = came back to 0 without leaving the free entries or revisiting. *)
Walk(rec, n, seen) ==
  IF n = 0 THEN <<seen, TRUE>>
  ELSE IF n \notin Nums(rec) \/ T(rec, n) # 0 \/ n \in seen THEN <<seen, FALSE>>
  ELSE Walk(rec, A(rec, n), seen \cup {n})

FreeHeadOK(rec) == Len(rec.et) >= 1 /\ T(rec, 0) = 0 /\ B(rec, 0) = MaxGen
FreeListDefects(rec) ==
  IF ~FreeHeadOK(rec) THEN {"freelist-head"}
  ELSE LET w == Walk(rec, A(rec, 0), {0}) IN
       IF ~w[2] THEN {"freelist-chain"}
       ELSE  \* free entries outside the chain are never reusable: next 0, generation 65535
            D("freelist-unlinked", \A n \in Free(rec) \ w[1] : A(rec, n) = 0 /\ B(rec, n) = MaxGen)
FreeGenOK(rec) == \A n \in Free(rec) : B(rec, n) \in 0..MaxGen

(* ---- stream lengths ---- *)
S(rec, i) == rec.streams[i]
LengthOK(s) == s.endok /\ s.len \in Range(s.counts)
(* "stream" CR LF <data>: if the file also parses with the LF as first data byte, the writer put a lone CR after  *)
(* the keyword in front of data beginning with LF (ISO 32000-1 7.3.8.1 forbids a lone CR for this reason).        *)
StartAmbiguous(s) == s.eol = "CRLF" /\ ~(s.len \in Range(s.counts)) /\ (s.len - 1) \in Range(s.counts)
StreamEolOK(rec) == \A i \in 1..Len(rec.streams) : S(rec, i).eol \in {"LF", "CRLF", "CR"}
StreamStartOK(rec) == \A i \in 1..Len(rec.streams) : ~StartAmbiguous(S(rec, i))
StreamLengthOK(rec) == \A i \in 1..Len(rec.streams) : LengthOK(S(rec, i)) \/ StartAmbiguous(S(rec, i))

Defects(rec) ==
  D("header", rec.header) \cup D("tail", rec.tail)
  \cup D("startxref", StartXRefOK(rec)) \cup D("section-format", SectionFormatOK(rec))
  \cup D("prev-chain", PrevChainOK(rec)) \cup D("size-decreases", SizeMonotone(rec))
  \cup D("xrefstream-self", XRefStreamSelfOK(rec))
  \cup D("inuse", InUseExact(rec)) \cup D("compressed", CompressedExact(rec))
  \cup D("size-too-small", SizeNotTooSmall(rec)) \cup D("size-too-big", SizeNotTooBig(rec))
  \cup FreeListDefects(rec) \cup D("freelist-gen", FreeGenOK(rec))
  \cup D("stream-eol", StreamEolOK(rec)) \cup D("stream-start-ambiguous", StreamStartOK(rec))
  \cup D("stream-length", StreamLengthOK(rec))

WellFormedFile(rec) == Defects(rec) = {}
=============================================================================
