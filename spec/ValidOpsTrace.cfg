SPECIFICATION Spec
INVARIANT RecordJudged
POSTCONDITION TraceAccepted
CHECK_DEADLOCK FALSE
