SPECIFICATION Spec
INVARIANT Judge
POSTCONDITION TraceAccepted
CHECK_DEADLOCK FALSE
