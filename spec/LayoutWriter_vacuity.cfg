SPECIFICATION Spec
CONSTANTS
  NObj = 3
  Lens = {7}
  MaxStm = 2
  SizeRule = "highest"
INVARIANTS SomeCompressed
