SPECIFICATION Spec
CONSTANT Prop = "C15"
INVARIANT RecordOK
POSTCONDITION TraceAccepted
CHECK_DEADLOCK FALSE
