SPECIFICATION Spec
CONSTANTS
  Prop = "C15"
  Chunk = 250
INVARIANT RecordOK
POSTCONDITION TraceAccepted
CHECK_DEADLOCK FALSE
