SPECIFICATION Spec
CONSTANTS
  PCs = {1,2,12,21,121}
  Nums = {1,2,9,12}
  NumsLast = {2,9}
  MaxFull = 1
  MaxTerms = 2
  Emit = TRUE
INVARIANTS InRange Partition LastWins EmitCase
