SPECIFICATION Spec
CONSTANTS
  Shapes = {"a3"}
  Slice = 0
  NSlices = 1
INVARIANTS NormNoNullEntries EmitCase
