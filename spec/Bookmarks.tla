----------------------------- MODULE Bookmarks -----------------------------
(* Bookmark forests of a PDF document and the export / import(replace) operations      *)
(* (pdfcpu "bookmarks export|import").                                                   *)
(*                                                                                       *)
(* A forest is a sequence of trees; a tree is a record                                   *)
(*   [title, page, bold, italic, color, kids]                                            *)
(* title : sequence of Unicode code points, color : <<>> (none) or <<r,g,b>> per mille.  *)
(* The generator keeps a forest as its preorder node list `nodes` (each node carries its *)
(* depth); Tree(nodes) is the forest.                                                    *)
(*                                                                                       *)
(* Export(doc)  = Clean(doc.bm): control characters (< U+0020) are not part of exported  *)
(*                titles; an item whose exported title is empty is not exported, nor are *)
(*                its descendants.  No bookmarks -> "none".                              *)
(* Import(doc, f, replace): precondition Ordered(f) - every target page exists, sibling  *)
(*                pages do not decrease and a first kid does not precede its parent -    *)
(*                otherwise the import is rejected and nothing is written.               *)
(* Property C36: Export(Import(d', Export(d), TRUE)) = Export(d).                        *)
EXTENDS Integers, Sequences, FiniteSets, TLC, Json

CONSTANTS Modes,      \* subset of {"free", "rot", "dup", "sim"}: generator modes (see AddNode)
          FreeMax,    \* "free": forests with <= FreeMax nodes, every node chooses its attributes and page step freely
          NCFree,     \* "free": nodes after the first choose among the first NCFree attribute combinations
          NCRot,      \* "rot": node 1 chooses among the first NCRot attribute combinations
          MaxNodes,   \* "rot": forests with <= MaxNodes nodes; node 1 chooses, node i takes the combination rotated by i
          MaxDepth,   \* max nesting depth (roots have depth 1)
          MaxSibs,    \* max number of siblings in one list
          NPages,     \* page count of the target document
          Targets,    \* {0}: emit every forest; else emit forests with exactly t nodes, t \in Targets (simulation)
          Emit

VARIABLES nodes, target, mode
vars == <<nodes, target, mode>>

---------------------------------------------------------------------------
(* attribute classes *)
Dg(i) == 48 + (i % 10)
Title(cls, i) ==
  CASE cls = 1  -> <<66, 109, Dg(i)>>                         \* "Bm1"
    [] cls = 2  -> <<40, 97, 41, 92, Dg(i), 41, 40>>          \* "(a)\1)("   string-literal escapes
    [] cls = 3  -> <<233, 252, 223, Dg(i)>>                   \* Latin-1
    [] cls = 4  -> <<20013, 25991, Dg(i)>>                    \* CJK (BMP)
    [] cls = 5  -> <<128512, Dg(i), 119070>>                  \* astral: surrogate pairs in UTF-16
    [] cls = 6  -> <<97, 9, 98, 10, Dg(i), 13>>               \* embedded control characters
    [] cls = 7  -> <<100, 117, 112>>                          \* "dup": the same title on several items
    [] cls = 8  -> <<>>                                       \* empty title
    [] cls = 9  -> <<9, 10>>                                  \* only control characters
    [] cls = 10 -> <<254, 255, 8364, 8226, Dg(i), 32>>        \* starts like a BOM; euro, bullet; trailing blank
    [] cls = 11 -> <<100, 92, 57, 117, 112, 40>>              \* "d\9up(": shared by several items and needing string escapes
NTitle == 11

Colour(c) == CASE c = 0 -> <<>>
               [] c = 1 -> <<1000, 0, 0>>
               [] c = 2 -> <<0, 500, 250>>
               [] c = 3 -> <<100, 333, 1000>>
               [] c = 4 -> <<0, 0, 0>>

(* attribute combinations [t: title class, s: style 0..3 (bit1 bold, bit0 italic), c: colour class] *)
Combos == << [t |-> 1,  s |-> 0, c |-> 0], [t |-> 2,  s |-> 1, c |-> 1], [t |-> 3,  s |-> 2, c |-> 2],
             [t |-> 4,  s |-> 3, c |-> 3], [t |-> 5,  s |-> 1, c |-> 4], [t |-> 6,  s |-> 2, c |-> 0],
             [t |-> 7,  s |-> 0, c |-> 1], [t |-> 8,  s |-> 3, c |-> 0], [t |-> 7,  s |-> 3, c |-> 2],
             [t |-> 9,  s |-> 0, c |-> 3], [t |-> 10, s |-> 2, c |-> 4], [t |-> 1,  s |-> 1, c |-> 2],
             [t |-> 5,  s |-> 0, c |-> 0], [t |-> 3,  s |-> 3, c |-> 1], [t |-> 11, s |-> 2, c |-> 0] >>
DupCombos == {7, 15}      \* the combinations whose title does not depend on the item's position
NC == Len(Combos)

---------------------------------------------------------------------------
(* forests *)
Strip(t) == SelectSeq(t, LAMBDA ch : ch >= 32)

RECURSIVE Clean(_)
Clean(f) == IF f = <<>> THEN <<>>
            ELSE LET hd == Head(f)
                     ct == Strip(hd.title)
                 IN (IF ct = <<>> THEN <<>> ELSE << [hd EXCEPT !.title = ct, !.kids = Clean(hd.kids)] >>) \o Clean(Tail(f))

(* the importer's precondition; lb = page of the previous sibling, else of the parent, else 0 *)
RECURSIVE Ordered(_, _)
Ordered(f, lb) == \/ f = <<>>
                  \/ /\ Head(f).page \in 1..NPages
                     /\ Head(f).page >= lb
                     /\ Ordered(Head(f).kids, Head(f).page)
                     /\ Ordered(Tail(f), Head(f).page)

RECURSIVE Size(_)
Size(f) == IF f = <<>> THEN 0 ELSE 1 + Size(Head(f).kids) + Size(Tail(f))

(* documents: [np: page count, bm: forest]; operations return [ok, doc] / forest or "none" *)
Import(doc, f, replace) ==
  IF f = <<>> \/ (~replace /\ doc.bm # <<>>) \/ ~Ordered(f, 0)
    THEN [ok |-> FALSE, doc |-> doc]
    ELSE [ok |-> TRUE, doc |-> [doc EXCEPT !.bm = f]]
Export(doc) == Clean(doc.bm)       \* <<>> means: nothing to export ("no bookmarks available")

---------------------------------------------------------------------------
(* generator: preorder node lists *)
NodeAt(i) == nodes[i]
LastAtDepth(ns, d) ==      \* index of the last node with depth d not followed by a shallower node, 0 if none
  LET c == {j \in 1..Len(ns) : ns[j].d = d /\ \A k \in j+1..Len(ns) : ns[k].d >= d}
  IN IF c = {} THEN 0 ELSE CHOOSE j \in c : \A k \in c : k <= j
SibCount(ns, d) == Cardinality({j \in 1..Len(ns) : ns[j].d = d /\ \A k \in j+1..Len(ns) : ns[k].d >= d})
LowerBound(ns, d) ==
  LET s == LastAtDepth(ns, d) IN
  IF s # 0 THEN ns[s].p
  ELSE IF d > 1 THEN ns[Len(ns)].p     \* first kid of the last node (the only possible parent in preorder)
  ELSE 1

Rot(k1, i) == ((k1 + i - 2) % NC) + 1
DeltaSeq == <<0, 1, 0, 1, 1, 0>>
RotDelta(k1, i) == DeltaSeq[((k1 + i) % Len(DeltaSeq)) + 1]

Init == nodes = <<>> /\ target \in Targets /\ mode \in Modes

(* page of a new node = lower bound + step, lower bound = page of the previous sibling, else of the parent, else 1. *)
(* "free": step in {-1, 0, 1}; pages 0 and NPages+1 (not in the document) and decreasing pages occur.              *)
(* "rot" : steps follow DeltaSeq and stay inside the document, so that every shape is importable.                  *)
(* "dup" : every item has the same title (one of DupCombos), steps follow DeltaSeq: items sharing one destination name. *)
(* "sim" : every node chooses its combination freely, steps in {0, 1} inside the document (for -simulate).         *)
AddNode ==
  /\ Len(nodes) < (IF target # 0 THEN target ELSE IF mode = "free" THEN FreeMax ELSE MaxNodes)
  /\ \E d \in 1..MaxDepth :
       /\ IF nodes = <<>> THEN d = 1 ELSE d <= nodes[Len(nodes)].d + 1
       /\ SibCount(nodes, d) < MaxSibs
       /\ LET i  == Len(nodes) + 1
              lb == LowerBound(nodes, d)
          IN IF mode = "free"
             THEN \E k \in (IF i = 1 THEN 1..NC ELSE 1..NCFree) : \E dl \in {-1, 0, 1} :
                    /\ lb + dl >= 0 /\ lb + dl <= NPages + 1
                    /\ nodes' = Append(nodes, [d |-> d, k |-> k, p |-> lb + dl])
             ELSE IF mode = "sim"
             THEN \E k \in 1..NC : \E dl \in {0, 1} :
                    nodes' = Append(nodes, [d |-> d, k |-> k, p |-> IF lb + dl <= NPages THEN lb + dl ELSE lb])
             ELSE IF mode = "dup"
             THEN \E k \in (IF i = 1 THEN DupCombos ELSE {nodes[1].k}) :
                  LET dl == RotDelta(7, i + 1)
                  IN nodes' = Append(nodes, [d |-> d, k |-> k, p |-> IF lb + dl <= NPages THEN lb + dl ELSE lb])
             ELSE \E k \in (IF i = 1 THEN 1..NCRot ELSE {Rot(nodes[1].k, i)}) :
                    LET dl == RotDelta(IF i = 1 THEN k ELSE nodes[1].k, i)
                    IN nodes' = Append(nodes, [d |-> d, k |-> k, p |-> IF lb + dl <= NPages THEN lb + dl ELSE lb])
  /\ UNCHANGED <<target, mode>>
Next == AddNode
Spec == Init /\ [][Next]_vars

---------------------------------------------------------------------------
(* preorder list -> forest *)
NodeRec(n, i, kids) ==
  LET a == Combos[n.k] IN
  [title |-> Title(a.t, i), page |-> n.p, bold |-> (a.s \div 2 = 1), italic |-> (a.s % 2 = 1),
   color |-> Colour(a.c), kids |-> kids]

NextRoot(ns, lo, hi, d) ==
  LET c == {j \in (lo+1)..hi : ns[j].d = d} IN
  IF c = {} THEN hi + 1 ELSE CHOOSE j \in c : \A k \in c : j <= k

RECURSIVE Build(_, _, _, _)
Build(ns, lo, hi, d) ==
  IF lo > hi THEN <<>>
  ELSE LET nx == NextRoot(ns, lo, hi, d)
       IN << NodeRec(ns[lo], lo, Build(ns, lo + 1, nx - 1, d + 1)) >> \o Build(ns, nx, hi, d)

Tree == Build(nodes, 1, Len(nodes), 1)

RECURSIVE Depth(_)
Depth(f) == IF f = <<>> THEN 0
            ELSE LET a == 1 + Depth(Head(f).kids)
                     b == Depth(Tail(f))
                 IN IF a > b THEN a ELSE b

---------------------------------------------------------------------------
(* design properties of the model (checked by TLC on every generated forest) *)
EmptyDoc == [np |-> NPages, bm |-> <<>>]
TreeSize     == Size(Tree) = Len(nodes)
CleanIdem    == Clean(Clean(Tree)) = Clean(Tree)
CleanOrdered == Ordered(Tree, 0) => Ordered(Clean(Tree), 0)
RoundTrip ==
  LET i1 == Import(EmptyDoc, Tree, TRUE) IN
  i1.ok => LET e1 == Export(i1.doc)
               other == [np |-> NPages, bm |-> << [title |-> <<120>>, page |-> 1, bold |-> FALSE, italic |-> FALSE, color |-> <<>>, kids |-> <<>>] >>]
               i2 == Import(other, e1, TRUE)
           IN e1 # <<>> => /\ i2.ok
                           /\ Export(i2.doc) = e1
                           /\ ~Import(other, e1, FALSE).ok

Case == [n |-> Len(nodes), np |-> NPages, depth |-> Depth(Tree),
         importable |-> Ordered(Tree, 0), expimportable |-> Ordered(Clean(Tree), 0),
         tree |-> Tree, exp |-> Clean(Tree)]
EmitNow == nodes # <<>> /\ (target = 0 \/ Len(nodes) = target)
EmitCase == Emit /\ EmitNow => PrintT(<<"CASE", ToJson(Case)>>)
=============================================================================
