----------------------------- MODULE LexStrTrace -----------------------------
(* C12: judges records produced by the real code.  A record that fails is printed as a *)
(* BAD payload with the names of the failed requirements; INFO payloads are             *)
(* interoperability observations (a conforming reader, RefUnescape / RefDecodeName,     *)
(* recovers the input), not verdicts.  Record kinds:                                    *)
(*  "bytes" inp -> esc = Escape(inp), un = Unescape(esc), enc = EncodeName(inp),        *)
(*          dec = DecodeName(enc); praw/pok/prest = what the real object parser cuts    *)
(*          out of "(" esc ")" as literal string token, and how many bytes it left      *)
(*  "text"  cps -> u16 = EncodeUTF16String, esc = EscapedUTF16String, un = Unescape(esc),*)
(*          praw/pok/prest as above, lit = StringLiteralToString(esc) as UTF-8           *)
(*  "file"  inp = a name written into a real PDF as dictionary key (role "key") or name *)
(*          value (role "value") of an object that sits in an object stream (via        *)
(*          "objstm") or is a plain object (via "plain"); got = the name read back      *)
EXTENDS Lex, TLC, Json
Trace == ndJsonDeserialize("records.ndjson")
VARIABLE l
Init == l = 1
Next == l <= Len(Trace) /\ l' = l + 1
Spec == Init /\ [][Next]_l

NoNul(b) == \A i \in 1..Len(b) : b[i] # 0
(* the parser must cut exactly the escaped form out of "(" esc ")" whenever that is one well formed token *)
TokenBad(r) == ~r.eerr /\ Balanced(r.esc) /\ (~r.pok \/ r.praw # r.esc \/ r.prest # 0)
FailsBytes(r) ==
  (IF r.eerr \/ r.uerr \/ r.un # r.inp THEN {"escape-roundtrip"} ELSE {}) \cup
  (IF ~r.eerr /\ ~EscapeOK(r.esc) THEN {"escape-parens"} ELSE {}) \cup
  (IF TokenBad(r) THEN {"literal-token"} ELSE {}) \cup
  (IF NoNul(r.inp) /\ ~NameCharOK(r.enc) THEN {"name-chars"} ELSE {}) \cup
  (IF NoNul(r.inp) /\ (r.derr \/ r.dec # r.inp) THEN {"name-roundtrip"} ELSE {})
FailsText(r) ==
  LET t == TextBytes(r.cps) IN
  (IF r.u16 # t THEN {"text-encode"} ELSE {}) \cup
  (IF r.eerr \/ r.uerr \/ r.un # t THEN {"text-escape-roundtrip"} ELSE {}) \cup
  (IF ~r.eerr /\ ~EscapeOK(r.esc) THEN {"text-escape-parens"} ELSE {}) \cup
  (IF TokenBad(r) THEN {"text-literal-token"} ELSE {}) \cup
  (IF r.lerr \/ r.lit # Utf8Bytes(r.cps) THEN {"text-read"} ELSE {})
FailsFile(r) == IF r.gerr \/ r.got # r.inp THEN {"name-file-roundtrip"} ELSE {}
Fails(r) == CASE r.kind = "bytes" -> FailsBytes(r) [] r.kind = "text" -> FailsText(r) [] r.kind = "file" -> FailsFile(r)
Info(r) ==
  IF r.kind = "file" THEN {} ELSE
  (IF ~r.eerr /\ RefUnescape(r.esc) # (IF r.kind = "text" THEN TextBytes(r.cps) ELSE r.inp) THEN {"ref-unescape"} ELSE {}) \cup
  (IF r.kind = "bytes" /\ NoNul(r.inp) /\ RefDecodeName(r.enc) # r.inp THEN {"ref-decode-name"} ELSE {})

Judge == l <= Len(Trace) =>
  LET r == Trace[l] f == Fails(r) i == Info(r) IN
  /\ f # {} => PrintT(<<"BAD", ToJson([why |-> f, rec |-> r])>>)
  /\ i # {} => PrintT(<<"INFO", ToJson([why |-> i, rec |-> r])>>)
TraceAccepted == TLCGet("stats").diameter = Len(Trace) + 1
=============================================================================
