------------------------------ MODULE SelTrace ------------------------------
(* Validates accept/reject decisions recorded from the real ParsePageSelection *)
(* against SelSyntax!InSyntax.  One record per step.                           *)
EXTENDS SelSyntax, Json, TLC
Trace == ndJsonDeserialize("records.ndjson")
VARIABLE l
Init == l = 1
Next == l <= Len(Trace) /\ l' = l + 1
Spec == Init /\ [][Next]_l
RecordOK == l <= Len(Trace) => (InSyntax(Trace[l].c) = Trace[l].ok)
TraceAccepted == TLCGet("stats").diameter = Len(Trace) + 1
=============================================================================
