------------------------------ MODULE ValidOps ------------------------------
(* Property C21: every successful operation on a valid input yields a valid output.       *)
(*                                                                                       *)
(* OpCatalog is the catalogue of document-transforming operations with finite parameter   *)
(* domains; one catalogue entry is a record [op, s, n, b] (string, number and flag        *)
(* parameter; unused ones are "" / 0 / FALSE).  A history is an input plus 1..MaxLen       *)
(* entries.  The input is a BATCH: the history is applied to each document of the batch in  *)
(* turn, in one process, with the SAME caller-owned description objects (n-up, watermark,  *)
(* cut, resize, zoom, box descriptions, configurations), as a caller processing several    *)
(* files would; every output of every document is validated.  The model tracks            *)
(* entries; the model tracks whether the current document is encrypted (password-         *)
(* changing operations and decryption need an encrypted document, encryption an           *)
(* unencrypted one) and that validity is preserved by every step.                         *)
(* TLC enumerates all histories of length 1 and samples longer ones (simulation); the     *)
(* harness replays them with the real API and records (op, parameters, inValid, opOk,     *)
(* outValid); Judge is the verdict on a record (see ValidOpsTrace).                       *)
EXTENDS Integers, Sequences, FiniteSets, TLC, Json

CONSTANTS Batches, MaxLen, Emit     \* Batches: set of sequences of input names

VARIABLES hist, inputs, enc, valid, done
vars == <<hist, inputs, enc, valid, done>>

(* the batches used by the configurations (a cfg file cannot spell a sequence): Batches <- one of these *)
BatchesQuick == {<<"zine", "nested5", "forma", "formb", "v20">>}
BatchesAll == {<<"zine", "nested5", "forma", "formb", "v20">>, <<"formb", "forma", "formc", "tree5">>, <<"v20", "text", "rot", "walden">>,
               <<"form", "objstm4", "simple3", "nested5">>, <<"nested5", "zine">>}
BatchesOne == {<<"simple3">>}
BatchesSim == {<<"zine", "nested5">>, <<"rot", "text">>, <<"walden", "v20">>, <<"form", "forma">>, <<"formb", "formc">>, <<"simple3", "tree5">>,
               <<"objstm4", "nested5">>, <<"v20", "zine">>}

E(op, S, N, B) == {[op |-> op, s |-> s, n |-> n, b |-> b] : s \in S, n \in N, b \in B}
No == {FALSE}

Sels == {"", "1", "1-", "odd", "l", "2-3", "!1"}

AnnotKinds == {"text", "link", "square", "circle", "line", "freetext", "polygon", "polyline",
               "highlight", "underline", "squiggly", "strikeout", "caret", "ink"}

OpCatalog ==
       E("optimize", {""}, {0}, No)
  \cup E("rotate", Sels, {90, 180, 270}, No)
  \cup E("trim", {"1", "1-", "odd", "l", "2-3", "!1"}, {0}, No)
  \cup E("collect", {"1", "2,1", "1,1", "l,1"}, {0}, No)
  \cup E("removepages", {"1", "l", "2-"}, {0}, No)
  \cup E("insertpages", {"1", "l", "odd"}, {0}, BOOLEAN)                 \* b: before
  \cup E("wmtext", {"", "scale:0.5, rot:45", "pos:tl, scale:0.3 abs, op:0.5", "mode:1, fillc:#ff0000, border:5"}, {0, 1}, BOOLEAN)   \* n=1: first page only, b: on top
  \cup E("wmimage", {"", "scale:0.3, pos:br"}, {0}, BOOLEAN)
  \cup E("wmpdf", {"", "scale:0.4, rot:90"}, {0}, BOOLEAN)
  \cup E("removewm", {""}, {0}, No)
  \cup E("annot", AnnotKinds, {0, 1, 2}, No)      \* n: class of the optional numeric entries: 0 all zero/absent,
                                                  \* 1 boundary (a length > 0 with its dependent offset 0, opacity 0), 2 all > 0
  \cup E("removeannots", {""}, {0}, No)
  \cup E("bookmarks", {""}, {1, 2}, BOOLEAN)                            \* n bookmarks, b: replace
  \cup E("removebookmarks", {""}, {0}, No)
  \cup E("attach", {""}, {0}, BOOLEAN)                                  \* b: portfolio
  \cup E("removeattach", {""}, {0}, No)
  \cup E("properties", {"k=v", "a b=v(1)"}, {0}, No)
  \cup E("removeproperties", {""}, {0}, No)
  \cup E("keywords", {"alpha", "b(e)ta,gamma"}, {0}, No)
  \cup E("removekeywords", {""}, {0}, No)
  \cup E("boxes", {"crop:[10 10 200 200]", "trim:10", "bleed:5, art:20"}, {0}, No)
  \cup E("removeboxes", {"crop", "trim,bleed"}, {0}, No)
  \cup E("crop", {"[0 0 100 100]", "10"}, {0}, No)
  \cup E("viewerpref", {""}, {1, 2, 3, 4}, No)                          \* 4: Enforce + PrintScaling AppDefault
  \cup E("resetviewerpref", {""}, {0}, No)
  \cup E("pagelayout", {""}, {0, 1, 2, 3, 4, 5}, No)
  \cup E("resetpagelayout", {""}, {0}, No)
  \cup E("pagemode", {""}, {0, 1, 2, 3, 4, 5}, No)
  \cup E("resetpagemode", {""}, {0}, No)
  \cup E("encrypt", {"aes256", "aes128", "rc4"}, {0}, No)
  \cup E("decrypt", {""}, {0}, No)
  \cup E("changeupw", {""}, {0}, No)
  \cup E("changeopw", {""}, {0}, No)
  \cup E("setperm", {""}, {0, 1, 2}, No)                                \* none / print / all
  \cup E("merge", {"create", "append", "zip"}, {0, 1, 2, 3, 4}, BOOLEAN)         \* n: the other file: 0/1 shorter/longer, nested page tree;
                                                                        \* 2/3/4 AcroForms without / with form-level DA and Q, fields with/without own DA
                                                                        \* (nested page tree, inherited attributes); b: divider page
  \cup E("split", {""}, {1, 2}, No)                                     \* span
  \cup E("splitbypagenr", {""}, {2}, No)
  \cup E("extractpages", {"1", "l"}, {0}, No)
  \cup E("nup", {"", "bo:off, ma:10"}, {2, 3, 4, 8, 9}, No)
  \cup E("grid", {""}, {12, 22, 31}, No)                                \* rows*10 + cols
  \cup E("booklet", {"", "guides:on"}, {2, 4, 6}, No)
  \cup E("resize", {"scale:0.5", "form:A5", "dim:200 300"}, {0}, No)
  \cup E("zoom", {"factor:0.5", "factor:2", "hmargin:10"}, {0}, No)
  \cup E("cut", {"hor:.5", "ver:.25 .5", "hor:.5, ver:.5"}, {0}, No)
  \cup E("ndown", {""}, {2, 3, 4}, No)
  \cup E("poster", {"f:A5", "dim:200 200", "dim:60 80"}, {0}, No)
  \cup E("formlock", {""}, {0}, No)
  \cup E("formreset", {""}, {0}, No)
  \cup E("formremove", {"firstName1"}, {0}, No)

NeedsEncrypted == {"decrypt", "changeupw", "changeopw", "setperm"}

Init == hist = <<>> /\ inputs \in Batches /\ enc = FALSE /\ valid = TRUE /\ done = FALSE

Enabled(e) == /\ (e.op \in NeedsEncrypted => enc)
              /\ (e.op = "encrypt" => ~enc)
              /\ (e.op = "merge" => ~enc)                  \* merging wants unencrypted inputs

Step == /\ Len(hist) < MaxLen
        /\ \E e \in OpCatalog :
             /\ Enabled(e)
             /\ hist' = Append(hist, e)
             /\ enc' = (IF e.op = "encrypt" THEN TRUE ELSE IF e.op = "decrypt" THEN FALSE ELSE enc)
        /\ valid' = valid                                     \* the property: a successful operation keeps the document valid
        /\ UNCHANGED <<inputs, done>>

(* the history is complete (a separate step, so that simulation prints exactly the sampled history) *)
Finish == Len(hist) = MaxLen /\ ~done /\ done' = TRUE /\ UNCHANGED <<hist, inputs, enc, valid>>

Next == Step \/ Finish
Spec == Init /\ [][Next]_vars

ValidPreserved == [][valid => valid']_vars
TypeOK == Len(hist) <= MaxLen /\ enc \in BOOLEAN

Case == [inputs |-> inputs, hist |-> hist]
EmitCase == (Emit /\ done) => PrintT(<<"CASE", ToJson(Case)>>)

(* the verdict on one recorded step of a replayed history *)
Judge(r) == (r.inValid /\ r.opOk) => r.outValid
=============================================================================
