---------------------------- MODULE LimitsTrace ----------------------------
(* Judges the records of real operations on bombs (harness/cmd/robust c09) against Limits!Broken. *)
(* A record that breaks a clause is printed as a BAD payload; every record is classified for the  *)
(* evidence (beyond / defused / over-rejected) in a CLASS payload.                                *)
EXTENDS Limits, TLC, Json

Trace == ndJsonDeserialize("records.ndjson")
VARIABLE l
Init == l = 1
Next == l <= Len(Trace) /\ l' = l + 1
Spec == Init /\ [][Next]_l

Class(r) == IF r.outcome = "skipped" THEN "skipped"
            ELSE IF Defused(r) THEN "defused"
            ELSE IF OverRejected(r) THEN "overrejected"
            ELSE IF IsBeyond(r) THEN (IF r.outcome = "ok" THEN "beyond-ok" ELSE "beyond-othererror")
            ELSE IF r.outcome = "ok" THEN "within-ok" ELSE "within-othererror"

RecordOK == l <= Len(Trace) =>
              LET r == Trace[l]
                  b == Broken(r)
                  bound == MemBoundKB(AllowedKB(r.enc, r.stages, r.lstr, r.ldec), r.inkb)
              IN /\ PrintT(<<"CLASS", ToJson([l |-> l, c |-> Class(r), bound |-> bound])>>)
                 /\ (b = {} \/ PrintT(<<"BAD", ToJson([l |-> l, why |-> b, bound |-> bound])>>))
TraceAccepted == TLCGet("stats").diameter = Len(Trace) + 1
=============================================================================
