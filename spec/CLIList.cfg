SPECIFICATION Spec
CONSTANTS
  NCmds = 1
  MultiCmds = {1}
  MaxInputs = 3
INVARIANTS FailuresNeverSucceed EmitCase
