SPECIFICATION Spec
CONSTANTS
  NObj = 3
  Lens = {7, 12}
  MaxStm = 2
  SizeRule = "highest"
INVARIANTS OffsetExact WrittenFileWellFormed
