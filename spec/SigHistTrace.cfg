SPECIFICATION Spec
INVARIANTS FixtureOK NonVacuous RecordOK
POSTCONDITION TraceAccepted
CHECK_DEADLOCK FALSE
