SPECIFICATION Spec
INVARIANTS FixtureOK RecordOK
POSTCONDITION TraceAccepted
CHECK_DEADLOCK FALSE
