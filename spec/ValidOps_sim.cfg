SPECIFICATION Spec
CONSTANTS
  Batches <- BatchesSim
  MaxLen = 3
  Emit = TRUE
INVARIANTS TypeOK EmitCase
