------------------------------ MODULE FilterGen ------------------------------
(* The configuration space of the stream filter properties C15 / C16: every state is one *)
(* case = (filter pipeline with decode parameters, input class).  TLC enumerates the      *)
(* states and prints each as a JSON case; harness/cmd/filter replays the cases into the   *)
(* real filters and FilterTrace.tla judges what they did.                                 *)
(* pipe is in Filter-array order (decode order); -1 = parameter entry absent.             *)
EXTENDS Filter, Json
CONSTANTS Prop,      \* "C15" | "C16"
          Tier       \* "quick" | "thorough"
VARIABLE case

St(f, ec, pred, colors, bpc, cols) == [f |-> f, ec |-> ec, pred |-> pred, colors |-> colors, bpc |-> bpc, cols |-> cols]
Plain(f) == St(f, -1, -1, -1, -1, -1)
LZW(ec) == St("LZW", ec, -1, -1, -1, -1)
(* the encodable filters; LZW with EarlyChange 0 and 1 *)
Kinds == {Plain("A85"), Plain("AHx"), Plain("RL"), Plain("Fl"), LZW(0), LZW(1)}
SimpleKinds == {Plain("A85"), Plain("AHx"), Plain("RL")}
Pipes1(K) == {<<a>> : a \in K}
Pipes2(K) == {<<a, b>> : a \in K, b \in K}
Pipes3(K) == {<<a, b, c>> : a \in K, b \in K, c \in K}

In(kind, n, a, b) == [kind |-> kind, n |-> n, a |-> a, b |-> b]
Around(S, d) == UNION {(x - d)..(x + d) : x \in S}
(* every case carries one edit for the decode - modify - encode levels; Cross rotates through *)
(* the edit class, CrossE takes the full product with it                                      *)
EditFor(p, i) == Edits[((Len(p) + i.n + i.a + (IF p[1].f \in {"A85", "RL"} THEN 1 ELSE 0) + (IF p[Len(p)].f \in {"AHx", "RL", "LZW"} THEN 3 ELSE 0)) % Len(Edits)) + 1]
Cross(P, I) == {[pipe |-> p, inp |-> i, edit |-> EditFor(p, i)] : p \in P, i \in I}
CrossE(P, I) == {[pipe |-> p, inp |-> i, edit |-> Edits[e]] : p \in P, i \in I, e \in DOMAIN Edits}

(* decode parameter triples (Colors, BitsPerComponent, Columns) *)
ParmFew == {<<-1, -1, -1>>, <<1, 8, 5>>, <<3, 8, 2>>, <<1, 1, 7>>, <<2, 16, 3>>, <<4, 4, 3>>}
ParmAll == {<<-1, -1, -1>>} \cup ((1..4) \X BpcValues \X (1..8))
PredAll == Predictors \cup {-1}
WithParms(f, ecs, preds, parms) == {St(f, e, p, t[1], t[2], t[3]) : e \in ecs, p \in preds, t \in parms}

(* ------------------------------------------------------------------------ C15 inputs *)
CoreIn == {In("empty", 0, 0, 0), In("run", 1, 65, 0), In("run", 128, 0, 0), In("alt", 7, 65, 66),
           In("rnd", 9, 1, 0), In("ramp", 20, 1, 0)}
BoundaryIn ==
       {In("run", n, 0, 0) : n \in {2, 3, 4, 5, 8, 127, 128, 129, 130, 255, 256, 257, 300}}         \* RunLength run limits, ASCII85 'z'
  \cup {In("run", n, 255, 0) : n \in {3, 4, 5}}                                                    \* ASCII85 largest group
  \cup {In("ramp", n, 1, 0) : n \in {2, 127, 128, 129, 130, 256, 257}}                             \* literal runs, no repeats
  \cup {In("alt", n, 0, 255) : n \in {2, 3, 128, 129}}
  \cup {In("runs", 3, 2, 1), In("runs", 2, 128, 1), In("runs", 2, 129, 2), In("runs", 2, 127, 128),
        In("runs", 2, 3, 129), In("runs", 4, 1, 1), In("runs", 2, 2, 127)}
  \cup {In("rnd", n, 2, 0) : n \in (1..10) \cup {15, 16, 17, 31, 32, 33, 63, 64, 65}}               \* ASCII85 4-byte groups
  \cup {In("rnd", 1000, 3, 0)}
(* LZW code width changes (9->10->11->12 bits, table reset): one code per byte for "uniq" inputs *)
LzwIn(d) == {In("uniq", n, 1, 0) : n \in Around({254, 766, 1790, 3838}, d)} \cup {In("uniq", n, 2, 0) : n \in {4100, 7700, 9000}}
ParmIn == {In("rnd", 24, 4, 0), In("run", 12, 0, 0), In("ramp", 7, 3, 1)}
(* inputs for a stage with a predictor: whole rows (k = 0..3 rows) and, where a row has more than one byte, partial rows *)
StRowSize(s) == RowSize(DefColors(s.colors), DefBpc(s.bpc), DefCols(s.cols))
RowAwareIn(s) ==
  IF DefPred(s.pred) < 2 THEN ParmIn
  ELSE LET rs == StRowSize(s)
       IN {In("rnd", k * rs, 4, 0) : k \in 0..3} \cup {In("run", 2 * rs, 0, 0)}
          \cup (IF rs > 1 THEN {In("rnd", rs + 1, 4, 0), In("rnd", 3 * rs - 1, 4, 0), In("ramp", 1, 3, 1)} ELSE {})
(* cases whose input depends on the parameters of the stage s of the pipeline P(s) *)
RowCases(S, P(_)) == UNION {Cross({P(s)}, RowAwareIn(s)) : s \in S}
RowCasesE(S, P(_)) == UNION {CrossE({P(s)}, {In("rnd", k * StRowSize(s), 4, 0) : k \in {1, 2}}) : s \in S}     \* 1 and 2 whole rows x every edit

(* Pipelines in which only an EARLIER stage carries decode parameters and a later stage of the same or another filter has   *)
(* none (a null entry of the DecodeParms array): every stage must be decoded with its own parameters only.  ParmStages:     *)
(* Flate with a predictor (row size 1, so that any data reaching it is whole rows, and one wider row) and LZW EarlyChange.   *)
ParmStages(preds) == WithParms("Fl", {-1}, preds, {<<-1, -1, -1>>, <<1, 1, 7>>, <<1, 8, 1>>, <<1, 8, 5>>}) \cup {LZW(0), LZW(1)}
BareKinds == {Plain("A85"), Plain("AHx"), Plain("RL"), Plain("Fl"), Plain("LZW")}
MixedPipes(preds) ==      {<<s, t>> : s \in ParmStages(preds), t \in BareKinds}
                     \cup {<<s, t, t>> : s \in ParmStages(preds), t \in {Plain("Fl"), Plain("LZW")}}
                     \cup {<<t, s, t>> : s \in ParmStages(preds), t \in {Plain("Fl"), Plain("LZW")}}
MixedIn == {In("rnd", 24, 4, 0), In("uniq", 300, 1, 0)}       \* 300 codes: EarlyChange 0 and 1 differ from the 9/10 bit switch on

C15Cases ==
  IF Tier = "quick"
  THEN      CrossE(Pipes1(Kinds), CoreIn)
       \cup Cross(Pipes2(Kinds), CoreIn)
       \cup CrossE(Pipes2(Kinds), {In("empty", 0, 0, 0), In("rnd", 9, 1, 0)})
       \cup Cross(Pipes3(Kinds), {In("empty", 0, 0, 0), In("run", 128, 0, 0), In("rnd", 9, 1, 0)})
       \cup Cross(Pipes1(Kinds \cup {Plain("LZW")}), BoundaryIn)
       \cup Cross(Pipes1({Plain("LZW"), LZW(0), LZW(1)}), LzwIn(4))
       \cup Cross(MixedPipes({2, 10, 12, 15}), MixedIn)
       \cup RowCases(WithParms("Fl", {-1}, PredAll, ParmFew), LAMBDA s : <<s>>)
       \cup RowCasesE(WithParms("Fl", {-1}, {2, 12}, {<<1, 8, 5>>, <<1, 1, 7>>, <<2, 16, 3>>, <<4, 4, 3>>}), LAMBDA s : <<s>>)
       \cup Cross(Pipes1(WithParms("LZW", {1}, PredAll, ParmFew)), ParmIn)
       \cup RowCases(WithParms("Fl", {-1}, {2, 11, 15}, {<<1, 8, 5>>, <<2, 16, 3>>, <<1, 2, 5>>}), LAMBDA s : <<Plain("A85"), s>>)
       \cup Cross({<<Plain("A85"), s>> : s \in WithParms("Fl", {-1}, {-1, 1, 2, 12, 15}, {<<1, 8, 5>>, <<2, 16, 3>>})}
                  \cup {<<s, Plain("RL")>> : s \in WithParms("Fl", {-1}, {-1, 1, 2, 12, 15}, {<<1, 8, 5>>, <<2, 16, 3>>, <<-1, -1, -1>>})}
                  \cup {<<s, Plain("AHx")>> : s \in WithParms("Fl", {-1}, {2, 12}, {<<1, 8, 5>>})},     \* 2n+1 hex characters: whole rows for n = 12, 7
                  {In("rnd", 24, 4, 0), In("run", 12, 0, 0), In("rnd", 7, 4, 0)})
  ELSE      Cross(Pipes1(Kinds) \cup Pipes2(Kinds) \cup Pipes3(Kinds), CoreIn \cup BoundaryIn)
       \cup CrossE(Pipes1(Kinds) \cup Pipes2(Kinds), CoreIn \cup {In("run", 129, 0, 0), In("rnd", 33, 2, 0), In("rnd", 1000, 3, 0)})
       \cup CrossE(Pipes3(Kinds), {In("empty", 0, 0, 0), In("rnd", 9, 1, 0)})
       \cup Cross(Pipes1({Plain("LZW"), LZW(0), LZW(1)}), CoreIn \cup BoundaryIn \cup LzwIn(12))
       \cup Cross(Pipes2({LZW(0), LZW(1)} \cup SimpleKinds) , LzwIn(2))
       \cup Cross(MixedPipes(PredAll), MixedIn \cup {In("empty", 0, 0, 0), In("run", 129, 0, 0), In("uniq", 1000, 2, 0)})
       \cup RowCases(WithParms("Fl", {-1}, PredAll, ParmAll), LAMBDA s : <<s>>)
       \cup RowCasesE(WithParms("Fl", {-1}, Predictors \ {1}, ParmFew), LAMBDA s : <<s>>)
       \cup Cross(Pipes1(WithParms("LZW", {0, 1}, PredAll, ParmAll)), ParmIn)
       \cup RowCases(WithParms("Fl", {-1}, Predictors \ {1}, ParmFew), LAMBDA s : <<Plain("A85"), s>>)
       \cup RowCases(WithParms("Fl", {-1}, Predictors \ {1}, ParmFew), LAMBDA s : <<LZW(1), Plain("RL"), s>>)
       \cup Cross(UNION {{<<k, s>>, <<s, k>>} : k \in SimpleKinds, s \in WithParms("Fl", {-1}, PredAll, ParmFew) \cup WithParms("LZW", {-1}, PredAll, ParmFew)},
                  {In("rnd", 24, 4, 0), In("run", 12, 0, 0), In("rnd", 7, 4, 0)})
       \cup Cross({<<Plain("A85"), s, Plain("RL")>> : s \in WithParms("Fl", {-1}, PredAll, ParmFew)}, {In("rnd", 24, 4, 0)})

(* ------------------------------------------------------------------------ C16 inputs *)
(* small decoded lengths D: limits and bounded lengths range over 0..D+2                 *)
TinyIn == {In("empty", 0, 0, 0), In("run", 1, 65, 0), In("rnd", 5, 5, 0), In("run", 9, 7, 0), In("alt", 6, 0, 255)}
MoreIn == {In("rnd", n, 6, 0) : n \in {2, 3, 4, 8, 13, 24}} \cup {In("run", 24, 0, 0), In("runs", 2, 3, 2), In("ramp", 17, 5, 1)}
(* groups of four zero bytes, 4-aligned or not (ASCII85 'z'), all-zero data, zero blocks at several offsets: "zeros" = n bytes, *)
(* non-zero except b zero bytes at offset a                                                                                  *)
ZeroIn == {In("run", 4, 0, 0), In("run", 8, 0, 0), In("run", 11, 0, 0), In("zeros", 11, 0, 8), In("zeros", 12, 4, 4),
           In("zeros", 13, 4, 8), In("zeros", 10, 1, 8)}
ZeroInMore == {In("run", n, 0, 0) : n \in {5, 12, 16}} \cup {In("zeros", 16, a, 8) : a \in {0, 3, 4, 8}} \cup {In("zeros", 9, 5, 4), In("zeros", 20, 8, 12)}
(* predictor stages: "rows" inputs = n whole rows of predictor-encoded data *)
RowsIn(S) == {In("rows", n, 1, 0) : n \in S}
PredStages(parms) == WithParms("Fl", {-1}, Predictors \ {1}, parms)

C16Cases ==
  IF Tier = "quick"
  THEN      Cross(Pipes1(Kinds), TinyIn \cup ZeroIn)
       \cup Cross(Pipes2(Kinds), {In("zeros", 11, 4, 4)})
       \cup Cross(Pipes2(Kinds), {In("empty", 0, 0, 0), In("rnd", 5, 5, 0)})
       \cup Cross(Pipes3({Plain("A85"), Plain("RL"), Plain("Fl"), LZW(1)}), {In("rnd", 4, 7, 0)})
       \cup Cross(Pipes1(PredStages({<<-1, -1, -1>>, <<1, 8, 4>>, <<2, 16, 1>>, <<1, 1, 7>>})), RowsIn(0..2))
       \cup Cross({<<k, s>> : k \in {Plain("A85"), Plain("RL")}, s \in PredStages({<<1, 8, 4>>})}, RowsIn({1, 2}))
  ELSE      Cross(Pipes1(Kinds) \cup Pipes2(Kinds), TinyIn \cup MoreIn \cup ZeroIn \cup ZeroInMore)
       \cup Cross(Pipes3(Kinds), {In("rnd", 4, 7, 0), In("run", 7, 9, 0), In("empty", 0, 0, 0), In("zeros", 11, 4, 4)})
       \cup Cross(Pipes1(PredStages(ParmFew \cup ({1, 3} \X BpcValues \X {1, 2, 5}) \cup {<<2, 8, 4>>, <<4, 8, 2>>, <<1, 16, 4>>})), RowsIn(0..3))
       \cup Cross({<<k, s>> : k \in Kinds, s \in PredStages({<<1, 8, 4>>, <<2, 8, 3>>})}, RowsIn({0, 1, 2}))
       \cup Cross({<<k, j, s>> : k \in SimpleKinds, j \in {Plain("Fl"), LZW(1)}, s \in PredStages({<<1, 8, 4>>})}, RowsIn({1, 2}))

Cases == IF Prop = "C15" THEN C15Cases ELSE C16Cases

Init == case \in Cases
Next == UNCHANGED case
Spec == Init /\ [][Next]_case

(* well-formedness of the generated space (checked on every state) *)
CaseOK == /\ Len(case.pipe) \in 1..3
          /\ \A k \in DOMAIN case.pipe : case.pipe[k].f \in SimpleFilters \cup OpaqueFilters
          /\ case.inp.n >= 0
EmitCase == PrintT(<<"CASE", ToJson(case)>>)
=============================================================================
