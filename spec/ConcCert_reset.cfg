\* mark-before-install (ResetCertificates in a build that bundles default certificates): TLC refutes Coherent
SPECIFICATION Spec
CONSTANTS
  Loaders = {l1, l2}
  LoadsEach = 2
  Mutation = "reset_mark_first"
INVARIANTS Coherent MutexOK
