SPECIFICATION Spec
INVARIANTS BindingOK FinalAgrees CleanFailure CleanFailureInputs Atomic HiddenOnlyNow Publishes NoEscape NeverTorn DurableOnOk
POSTCONDITION TraceAccepted
CHECK_DEADLOCK FALSE
