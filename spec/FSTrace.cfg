SPECIFICATION Spec
INVARIANTS BindingOK FinalAgrees CleanFailure CleanFailureInputs Atomic HiddenOnlyNow Publishes NoEscape
POSTCONDITION TraceAccepted
CHECK_DEADLOCK FALSE
