------------------------------- MODULE Doc32 -------------------------------
(* C32: page operations act exactly on the selected pages.                                   *)
(* Histories of page operations of the Doc machine over generated document trees (inherited   *)
(* MediaBox / CropBox / Rotate on the root and on intermediate nodes, own attributes, the      *)
(* "own box followed by inheriting siblings" shape).  Every complete history is printed as a   *)
(* JSON behaviour: the tree to build, and per step the API arguments, the outcome class and    *)
(* the expected page list.  Mode "bfs": all histories of exactly MaxLen steps over a fixed     *)
(* alphabet; mode "sim" (-simulate): random histories of 1..MaxLen steps with random           *)
(* selections / parameters.                                                                    *)
EXTENDS DocTrees, Json, Randomization

CONSTANTS Mode,      \* "bfs": all histories over the fixed alphabet | "sim": random histories (-simulate)
          Ns,        \* page counts of the initial documents
          Shapes,    \* tree shapes 1..6
          Deep,      \* bfs: shapes explored to MaxLen steps (the others: 1 step)
          MaxLen,    \* history length (sim: 1..MaxLen, chosen per behaviour)
          MaxPages,  \* steps that would exceed this many pages are disabled
          Deep3,     \* bfs: shapes additionally explored to 3 steps over the small action alphabet
          Emit
(* conf: the configuration switches (Doc!Confs) every API call of the history runs with *)
VARIABLES tree, shape, hist, len, prev, alpha, conf
vars == <<docvars, tree, shape, hist, len, prev, alpha, conf>>

---------------------------------------------------------------------------
(* argument alphabets and their API text *)
BoxText(b) == "[" \o ToString(b[1]) \o " " \o ToString(b[2]) \o " " \o ToString(b[3]) \o " " \o ToString(b[4]) \o "]"
RECURSIVE JoinStr(_, _)
JoinStr(ss, sep) == IF ss = <<>> THEN "" ELSE IF Len(ss) = 1 THEN ss[1] ELSE ss[1] \o sep \o JoinStr(Tail(ss), sep)
PB(media, crop, trim, bleed, art) == [media |-> media, crop |-> crop, trim |-> trim, bleed |-> bleed, art |-> art]
R(b) == SpecRect(b)
N0   == SpecNone
SpecText(sp) == CASE sp.k = "rect" -> BoxText(sp.r)
                  [] sp.k = "ref"  -> sp.ref
                  [] sp.k = "marg" -> IF sp.m[1] = sp.m[2] /\ sp.m[2] = sp.m[3] /\ sp.m[3] = sp.m[4] THEN ToString(sp.m[1])
                                      ELSE ToString(sp.m[1]) \o " " \o ToString(sp.m[2]) \o " " \o ToString(sp.m[3]) \o " " \o ToString(sp.m[4])
                  [] OTHER -> ""
PbText(pb) ==
  JoinStr(SelectSeq(<<IF Given(pb.media) THEN "media:" \o SpecText(pb.media) ELSE "",
                      IF Given(pb.crop)  THEN "crop:"  \o SpecText(pb.crop)  ELSE "",
                      IF Given(pb.trim)  THEN "trim:"  \o SpecText(pb.trim)  ELSE "",
                      IF Given(pb.bleed) THEN "bleed:" \o SpecText(pb.bleed) ELSE "",
                      IF Given(pb.art)   THEN "art:"   \o SpecText(pb.art)   ELSE "">>, LAMBDA s : s # ""), ", ")
(* absolute rectangles, margins relative to the parent box (all sides / top right bottom left) and box assignments *)
PBs == <<PB(N0, R(<<10, 10, 150, 150>>), N0, N0, N0),
         PB(R(<<0, 0, 300, 400>>), N0, N0, N0, N0),
         PB(N0, N0, R(<<20, 20, 100, 100>>), N0, R(<<30, 30, 90, 90>>)),
         PB(R(<<0, 0, 250, 250>>), R(<<5, 5, 240, 240>>), N0, R(<<6, 6, 200, 200>>), N0),
         PB(N0, N0, SpecMarg(10, 10, 10, 10), SpecMarg(5, 10, 15, 20), N0),
         PB(N0, N0, SpecRef("media"), N0, SpecRef("crop")),
         PB(N0, SpecMarg(12, 12, 12, 12), SpecMarg(3, 3, 3, 3), SpecRef("trim"), N0)>>
RBs == <<<<"crop">>, <<"trim">>, <<"bleed", "art">>, <<"crop", "trim", "bleed", "art">>>>
CropRect(r)   == [kind |-> "rect", r |-> r, m |-> 0]
CropMargin(m) == [kind |-> "margin", r |-> NoBox, m |-> m]
CropText(a)   == IF a.kind = "rect" THEN BoxText(a.r) ELSE ToString(a.m)
CRs == <<CropRect(<<10, 10, 120, 140>>), CropMargin(20)>>

T1(f, a)        == SelTerm(f, a, 0, "")
(* the selection alphabet of the exhaustive mode: "1", "2-3", "even", "l", "3-,!l", "5" *)
Sels == <<<<T1("n", 1)>>, <<SelTerm("rng", 2, 3, "")>>, <<T1("even", 0)>>, <<T1("l", 0)>>,
          <<T1("suf", 3), SelTerm("l", 0, 0, "!")>>, <<T1("n", 5)>>>>
SelSetAll == {Sels[i] : i \in 1..Len(Sels)}
Lists == SelSetAll \cup {<<T1("n", 2), T1("n", 1), T1("n", 2)>>, <<T1("pl", 0), T1("n", 1)>>}

(* random arguments of the simulation mode *)
RandTerms(n) == SelTerms({1, 2, 3, Max2(1, n \div 2), Max2(1, n - 1), n, n + 1})
RandSel(n)   == LET T == RandTerms(n) c == RandomElement(1..10)
                IN IF c = 1 THEN <<>> ELSE IF c <= 7 THEN <<RandomElement(T)>> ELSE <<RandomElement(T), RandomElement(T)>>
RandBoxes    == {<<10, 10, 150, 150>>, <<0, 0, 300, 400>>, <<20, 20, 100, 100>>, <<5, 5, 240, 240>>, <<30, 40, 330, 440>>}
RandBoxOpt   == IF RandomElement(1..5) <= 2 THEN R(RandomElement(RandBoxes)) ELSE N0
RandMarg     == LET m == RandomElement({3, 10, 25}) IN
                IF RandomElement(1..2) = 1 THEN SpecMarg(m, m, m, m) ELSE SpecMarg(m, m + 5, m + 10, 2 * m)
(* a relative box: nothing, margins to the parent box, or the position of another box (never the box itself) *)
RandRel(self) == LET c == RandomElement(1..6) IN
                 IF c <= 2 THEN N0 ELSE IF c <= 4 THEN RandMarg
                 ELSE SpecRef(RandomElement({"media", "crop", "trim", "bleed", "art"} \ {self}))
(* either absolute rectangles for any box, or (media untouched) a crop box and relative / assigned trim, bleed, art boxes *)
RandPB       == LET pb == IF RandomElement(1..2) = 1
                            THEN PB(RandBoxOpt, RandBoxOpt, RandBoxOpt, RandBoxOpt, RandBoxOpt)
                            ELSE PB(N0, IF RandomElement(1..3) = 1 THEN RandMarg ELSE RandBoxOpt, RandRel("trim"), RandRel("bleed"), RandRel("art"))
                IN IF pb = PB(N0, N0, N0, N0, N0) THEN PBs[5] ELSE pb
RandRB       == RandomElement({RBs[1], RBs[2], RBs[3], RBs[4], <<"crop", "trim">>, <<"art">>, <<"bleed">>})
RandCrop     == IF RandomElement(1..2) = 1 THEN CropRect(RandomElement(RandBoxes)) ELSE CropMargin(RandomElement({5, 20, 33}))

---------------------------------------------------------------------------
(* a page as printed: <<mark, blank id, rotation, media, crop, trim, bleed, art>> with effective boxes *)
PageOut(p) == <<p.mark, p.bid, p.rot, p.media, EffCrop(p), EffTrim(p), EffBleed(p), EffArt(p)>>
Out(ps) == [i \in 1..Len(ps) |-> PageOut(ps[i])]
(* bfs: every state is printed, so only its last step carries the expectation (chk); sim: only complete *)
(* behaviours are printed, every step carries it                                                        *)
StepRec(op, ts, n, txt) == [op |-> op, sel |-> SelRender(ts), n |-> n, txt |-> txt, res |-> res', chk |-> TRUE, exp |-> Out(pages')]
Strip(h) == IF Mode = "sim" THEN h ELSE [i \in 1..Len(h) |-> [h[i] EXCEPT !.chk = FALSE, !.exp = <<>>]]
Log(op, ts, n, txt) == /\ hist' = Append(Strip(hist), StepRec(op, ts, n, txt))
                       /\ prev' = [i \in 1..Len(pages) |-> <<pages[i].mark, pages[i].bid>>]
                       /\ UNCHANGED <<tree, shape, len, alpha, conf>>

Fits == Len(pages') <= MaxPages
(* stay inside the documents the model talks about (Doc!Ambig) *)
Clear == Unambiguous(pages')
(* removing the crop box of a page with its own MediaBox below a Pages node with a CropBox may or may not leave it ambiguous *)
RemoveGuard(ts, k) == "crop" \in ToSet(k) => \A i \in SelOrAll(Len(pages), ts) : ~(pages[i].omedia /\ pages[i].pcrop)

DoInsert(ts, before) == InsertBlank(ts, before) /\ Fits /\ Clear /\ Log(IF before THEN "insert_before" ELSE "insert_after", ts, 0, "")
DoRemove(ts)         == RemovePages(ts) /\ Log("remove", ts, 0, "")
DoTrim(ts)           == Trim(ts) /\ Log("trim", ts, 0, "")
DoCollect(ts)        == Collect(ts) /\ Fits /\ Log("collect", ts, 0, "")
DoRotate(ts, r)      == Rotate(ts, r) /\ Log("rotate", ts, r, "")
DoAddBoxes(ts, pb)   == AddBoxes(ts, pb) /\ Clear /\ Log("addboxes", ts, 0, PbText(pb))
DoRemoveBoxes(ts, k) == RemoveGuard(ts, k) /\ RemoveBoxes(ts, ToSet(k)) /\ Clear /\ Log("removeboxes", ts, 0, JoinStr(k, ","))
DoCrop(ts, a)        == Crop(ts, a) /\ Log("crop", ts, 0, CropText(a))

SelsAnd0 == SelSetAll \cup {<<>>}
NextFull ==
  \/ \E ts \in SelsAnd0 : DoInsert(ts, FALSE)
  \/ \E ts \in {Sels[2], Sels[4], <<>>} : DoInsert(ts, TRUE)
  \/ \E ts \in SelSetAll : DoRemove(ts)
  \/ \E ts \in SelsAnd0 : DoTrim(ts)
  \/ \E ts \in Lists : DoCollect(ts)
  \/ \E ts \in SelsAnd0 : DoRotate(ts, 90)
  \/ \E r \in {180, -90} : DoRotate(Sels[2], r)
  \/ \E ts \in {Sels[2], <<>>}, i \in 1..Len(PBs) : DoAddBoxes(ts, PBs[i])
  \/ \E ts \in {Sels[3], <<>>}, i \in 1..3 : DoRemoveBoxes(ts, RBs[i])
  \/ \E ts \in {Sels[5], <<>>}, i \in 1..Len(CRs) : DoCrop(ts, CRs[i])
  \/ DoCrop(Sels[1], CRs[1]) \/ DoRemoveBoxes(Sels[1], RBs[1])
NextSmall ==
  \/ \E ts \in {Sels[2], Sels[3]} : DoInsert(ts, FALSE) \/ DoTrim(ts) \/ DoRotate(ts, 270)
  \/ DoRemove(Sels[4])
  \/ DoCollect(<<T1("n", 2), T1("n", 1), T1("n", 2)>>)
  \/ DoAddBoxes(Sels[3], PBs[4])
  \/ DoRemoveBoxes(<<>>, RBs[4])
  \/ DoCrop(Sels[2], CRs[2])
NextSim ==
  \E ts \in {RandSel(Len(pages))} :
    \/ \E b \in BOOLEAN : DoInsert(ts, b)
    \/ ts # <<>> /\ DoRemove(ts)
    \/ DoTrim(ts)
    \/ ts # <<>> /\ DoCollect(ts)
    \/ \E r \in {RandomElement({90, 180, 270, -90, -180, 450})} : DoRotate(ts, r)
    \/ \E pb \in {RandPB} : DoAddBoxes(ts, pb)
    \/ \E k \in {RandRB} : DoRemoveBoxes(ts, k)
    \/ \E a \in {RandCrop} : DoCrop(ts, a)

Init == /\ \E n \in Ns, k \in Shapes :
             /\ shape = <<n, k>> /\ tree = Shape(n, k, "p")
             /\ \/ /\ alpha = "full" /\ len \in (IF Mode = "sim" THEN 1..MaxLen ELSE IF k \in Deep THEN {MaxLen} ELSE {1})
                   /\ conf = (IF Mode = "sim" THEN Confs[RandomElement(1..Len(Confs))] ELSE Confs[1])
                \/ alpha = "full1" /\ Mode = "bfs" /\ len = 1 /\ conf = Confs[2]
                \/ alpha = "small" /\ Mode = "bfs" /\ k \in Deep3 /\ len = 3 /\ conf = Confs[3 + (k % 2)]
        /\ DocInit(TreePages(tree)) /\ hist = <<>> /\ prev = <<>>
Next == /\ Len(hist) < len
        /\ IF Mode = "sim" THEN NextSim ELSE IF alpha = "small" THEN NextSmall ELSE NextFull
Spec == Init /\ [][Next]_vars

---------------------------------------------------------------------------
(* design properties of the model itself *)
TreesOK   == Unambiguous(pages)
PagesOK   == LET tp    == TreePages(tree)
                 marks == {tp[i].mark : i \in 1..Len(tp)}
             IN \A i \in 1..Len(pages) :
                  LET p == pages[i] IN
                  /\ p.rot \in {0, 90, 180, 270}
                  /\ (p.bid = 0 => p.mark \in marks)
                  /\ (p.bid # 0 => p.mark = "" /\ p.bid \in 1..nblank)
                  /\ IsBox(p.media)
RECURSIVE IsSubSeq(_, _)
IsSubSeq(a, b) == IF a = <<>> THEN TRUE ELSE IF b = <<>> THEN FALSE
                  ELSE IF Head(a) = Head(b) THEN IsSubSeq(Tail(a), Tail(b)) ELSE IsSubSeq(a, Tail(b))
(* the last step relates to the page list before it as the operation says *)
StepSane ==
  hist # <<>> =>
    LET s   == hist[Len(hist)]
        now == [i \in 1..Len(pages) |-> <<pages[i].mark, pages[i].bid>>]
    IN /\ s.res = "refuse" => now = prev
       /\ s.op \in {"rotate", "addboxes", "removeboxes", "crop"} => now = prev
       /\ s.op \in {"insert_before", "insert_after"} => SelectSeq(now, LAMBDA x : x \in ToSet(prev)) = prev
       /\ s.op \in {"trim", "remove"} => IsSubSeq(now, prev)
       /\ s.op = "collect" => ToSet(now) \subseteq ToSet(prev)

Case == [n |-> shape[1], k |-> shape[2], alpha |-> alpha, conf |-> conf, tree |-> tree, init |-> Out(TreePages(tree)), steps |-> hist]
EmitCase == Emit /\ hist # <<>> /\ (Mode = "sim" => Len(hist) = len) => PrintT(<<"CASE", ToJson(Case)>>)
=============================================================================
