------------------------------- MODULE Doc32 -------------------------------
(* C32: page operations act exactly on the selected pages.                                   *)
(* Histories of page operations of the Doc machine over generated document trees (inherited   *)
(* MediaBox / CropBox / Rotate on the root and on intermediate nodes, own attributes, the      *)
(* "own box followed by inheriting siblings" shape).  Every complete history is printed as a   *)
(* JSON behaviour: the tree to build, and per step the API arguments, the outcome class and    *)
(* the expected page list.  Mode "bfs": all histories of exactly MaxLen steps over a fixed     *)
(* alphabet; mode "sim" (-simulate): random histories of 1..MaxLen steps with random           *)
(* selections / parameters.                                                                    *)
EXTENDS Doc, Json, Randomization

CONSTANTS Mode, Ns, Shapes, MaxLen, MaxPages, Alpha, Emit
VARIABLES tree, hist, len
vars == <<docvars, tree, hist, len>>

---------------------------------------------------------------------------
(* document trees *)
A4 == <<0, 0, 595, 842>>
B1 == <<0, 0, 200, 300>>
B2 == <<0, 0, 400, 500>>
B3 == <<10, 20, 310, 420>>
C1 == <<10, 10, 190, 290>>
C2 == <<20, 20, 300, 300>>
C3 == <<5, 5, 100, 100>>
Pg(i, rot, media, crop) == [mark |-> "p" \o ToString(i), rot |-> rot, media |-> media, crop |-> crop]
Grp(node, rot, media, crop, ps) == [node |-> node, rot |-> rot, media |-> media, crop |-> crop, pages |-> ps]
RotCycle == <<-1, 0, 90, 180, 270>>
Cnt(n, sz, g) == Min2(sz, n - (g - 1) * sz)

Shape(n, k) ==
  CASE k = 1 ->   \* flat, everything inherited from the root
         [media |-> A4, rot |-> -1, groups |-> <<Grp(FALSE, -1, NoBox, NoBox, [i \in 1..n |-> Pg(i, -1, NoBox, NoBox)])>>]
    [] k = 2 ->   \* flat, Rotate inherited from the root, mixed own rotations
         [media |-> A4, rot |-> 90, groups |-> <<Grp(FALSE, -1, NoBox, NoBox,
                     [i \in 1..n |-> Pg(i, RotCycle[(i % 5) + 1], NoBox, NoBox)])>>]
    [] k = 3 ->   \* a page with its own MediaBox/CropBox followed by siblings inheriting theirs
         [media |-> A4, rot |-> -1, groups |-> <<Grp(FALSE, -1, NoBox, NoBox,
                     [i \in 1..n |-> Pg(i, IF i = 3 THEN 270 ELSE -1,
                                        IF i = 1 THEN B1 ELSE IF i = 4 THEN B3 ELSE NoBox,
                                        IF i = 1 THEN C1 ELSE NoBox)])>>]
    [] k = 4 ->   \* intermediate nodes of 2 pages with inherited Rotate / MediaBox
         [media |-> A4, rot |-> 90, groups |->
            [g \in 1..CeilDiv(n, 2) |->
               Grp(TRUE, IF g % 2 = 1 THEN 180 ELSE -1, IF g % 3 = 1 THEN B2 ELSE NoBox, NoBox,
                   [j \in 1..Cnt(n, 2, g) |->
                      Pg((g - 1) * 2 + j, IF j = 2 /\ g % 2 = 1 THEN 0 ELSE IF j = 1 /\ g % 4 = 0 THEN 270 ELSE -1, NoBox, NoBox)])]]
    [] k = 5 ->   \* intermediate nodes of 3 pages with inherited CropBox / MediaBox / Rotate, own boxes inside
         [media |-> A4, rot |-> -1, groups |->
            [g \in 1..CeilDiv(n, 3) |->
               Grp(TRUE, IF g % 2 = 0 THEN 270 ELSE -1, IF g % 2 = 1 THEN B2 ELSE NoBox, IF g % 3 # 2 THEN C2 ELSE NoBox,
                   [j \in 1..Cnt(n, 3, g) |->
                      Pg((g - 1) * 3 + j, -1,
                         IF j = 2 /\ g % 2 = 1 THEN B1 ELSE NoBox,
                         IF j = 2 /\ g % 2 = 1 THEN C1 ELSE IF j = 3 /\ g % 2 = 0 THEN C3 ELSE NoBox)])]]
    [] k = 6 ->   \* pages directly below the root, then nodes with MediaBox/Rotate, then a page below the root again
         LET d1   == Min2(2, n)
             rest == n - d1
             tail == IF rest >= 3 THEN 1 ELSE 0
             mid  == rest - tail
         IN [media |-> A4, rot |-> -1, groups |->
               <<Grp(FALSE, -1, NoBox, NoBox, [i \in 1..d1 |-> Pg(i, IF i = 2 THEN 90 ELSE -1, IF i = 1 THEN B3 ELSE NoBox, NoBox)])>>
               \o [g \in 1..CeilDiv(mid, 2) |->
                     Grp(TRUE, IF g % 2 = 1 THEN 90 ELSE -1, IF g % 2 = 1 THEN B2 ELSE NoBox, NoBox,
                         [j \in 1..Cnt(mid, 2, g) |-> Pg(d1 + (g - 1) * 2 + j, IF j = 2 THEN 180 ELSE -1, NoBox, NoBox)])]
               \o (IF tail = 1 THEN <<Grp(FALSE, -1, NoBox, NoBox, <<Pg(n, -1, NoBox, NoBox)>>)>> ELSE <<>>)]

---------------------------------------------------------------------------
(* argument alphabets and their API text *)
BoxText(b) == "[" \o ToString(b[1]) \o " " \o ToString(b[2]) \o " " \o ToString(b[3]) \o " " \o ToString(b[4]) \o "]"
RECURSIVE JoinStr(_, _)
JoinStr(ss, sep) == IF ss = <<>> THEN "" ELSE IF Len(ss) = 1 THEN ss[1] ELSE ss[1] \o sep \o JoinStr(Tail(ss), sep)
PB(media, crop, trim, bleed, art) == [media |-> media, crop |-> crop, trim |-> trim, bleed |-> bleed, art |-> art]
PbText(pb) ==
  JoinStr(SelectSeq(<<IF IsBox(pb.media) THEN "media:" \o BoxText(pb.media) ELSE "",
                      IF IsBox(pb.crop)  THEN "crop:"  \o BoxText(pb.crop)  ELSE "",
                      IF IsBox(pb.trim)  THEN "trim:"  \o BoxText(pb.trim)  ELSE "",
                      IF IsBox(pb.bleed) THEN "bleed:" \o BoxText(pb.bleed) ELSE "",
                      IF IsBox(pb.art)   THEN "art:"   \o BoxText(pb.art)   ELSE "">>, LAMBDA s : s # ""), ", ")
PBs == <<PB(NoBox, <<10, 10, 150, 150>>, NoBox, NoBox, NoBox),
         PB(<<0, 0, 300, 400>>, NoBox, NoBox, NoBox, NoBox),
         PB(NoBox, NoBox, <<20, 20, 100, 100>>, NoBox, <<30, 30, 90, 90>>),
         PB(<<0, 0, 250, 250>>, <<5, 5, 240, 240>>, NoBox, <<6, 6, 200, 200>>, NoBox)>>
RBs == <<<<"crop">>, <<"trim">>, <<"bleed", "art">>, <<"crop", "trim", "bleed", "art">>>>
CropRect(r)   == [kind |-> "rect", r |-> r, m |-> 0]
CropMargin(m) == [kind |-> "margin", r |-> NoBox, m |-> m]
CropText(a)   == IF a.kind = "rect" THEN BoxText(a.r) ELSE ToString(a.m)
CRs == <<CropRect(<<10, 10, 120, 140>>), CropMargin(20)>>

T1(f, a)        == SelTerm(f, a, 0, "")
(* the selection alphabet of the exhaustive mode: "1", "2-3", "even", "l", "3-,!l", "5" *)
Sels == <<<<T1("n", 1)>>, <<SelTerm("rng", 2, 3, "")>>, <<T1("even", 0)>>, <<T1("l", 0)>>,
          <<T1("suf", 3), SelTerm("l", 0, 0, "!")>>, <<T1("n", 5)>>>>
SelSetAll == {Sels[i] : i \in 1..Len(Sels)}
Lists == SelSetAll \cup {<<T1("n", 2), T1("n", 1), T1("n", 2)>>, <<T1("pl", 0), T1("n", 1)>>}

(* random arguments of the simulation mode *)
RandTerms(n) == SelTerms({1, 2, 3, Max2(1, n \div 2), Max2(1, n - 1), n, n + 1})
RandSel(n)   == LET T == RandTerms(n) c == RandomElement(1..10)
                IN IF c = 1 THEN <<>> ELSE IF c <= 7 THEN <<RandomElement(T)>> ELSE <<RandomElement(T), RandomElement(T)>>
RandBoxes    == {<<10, 10, 150, 150>>, <<0, 0, 300, 400>>, <<20, 20, 100, 100>>, <<5, 5, 240, 240>>, <<30, 40, 330, 440>>}
RandBoxOpt   == IF RandomElement(1..5) <= 2 THEN RandomElement(RandBoxes) ELSE NoBox
RandPB       == LET pb == PB(RandBoxOpt, RandBoxOpt, RandBoxOpt, RandBoxOpt, RandBoxOpt)
                IN IF pb = PB(NoBox, NoBox, NoBox, NoBox, NoBox) THEN PBs[1] ELSE pb
RandRB       == RandomElement({RBs[1], RBs[2], RBs[3], RBs[4], <<"crop", "trim">>, <<"art">>, <<"bleed">>})
RandCrop     == IF RandomElement(1..2) = 1 THEN CropRect(RandomElement(RandBoxes)) ELSE CropMargin(RandomElement({5, 20, 33}))

---------------------------------------------------------------------------
(* a page as printed: <<mark, blank id, rotation, media, crop, trim, bleed, art>> with effective boxes *)
PageOut(p) == <<p.mark, p.bid, p.rot, p.media, EffCrop(p), EffTrim(p), EffBleed(p), EffArt(p)>>
Out(ps) == [i \in 1..Len(ps) |-> PageOut(ps[i])]
StepRec(op, ts, n, txt) == [op |-> op, sel |-> SelRender(ts), n |-> n, txt |-> txt, res |-> res', exp |-> Out(pages')]
Log(op, ts, n, txt) == hist' = Append(hist, StepRec(op, ts, n, txt)) /\ UNCHANGED <<tree, len>>

Fits == Len(pages') <= MaxPages
(* histories that set a MediaBox on a page whose CropBox is inherited are outside the model (see TreeOK) *)
MediaGuard(ts, pb) == IsBox(pb.media) => \A i \in SelOrAll(Len(pages), ts) : ~pages[i].cinh

DoInsert(ts, before) == InsertBlank(ts, before) /\ Fits /\ Log(IF before THEN "insert_before" ELSE "insert_after", ts, 0, "")
DoRemove(ts)         == RemovePages(ts) /\ Log("remove", ts, 0, "")
DoTrim(ts)           == Trim(ts) /\ Log("trim", ts, 0, "")
DoCollect(ts)        == Collect(ts) /\ Fits /\ Log("collect", ts, 0, "")
DoRotate(ts, r)      == Rotate(ts, r) /\ Log("rotate", ts, r, "")
DoAddBoxes(ts, pb)   == MediaGuard(ts, pb) /\ AddBoxes(ts, pb) /\ Log("addboxes", ts, 0, PbText(pb))
DoRemoveBoxes(ts, k) == RemoveBoxes(ts, ToSet(k)) /\ Log("removeboxes", ts, 0, JoinStr(k, ","))
DoCrop(ts, a)        == Crop(ts, a) /\ Log("crop", ts, 0, CropText(a))

SelsAnd0 == SelSetAll \cup {<<>>}
NextFull ==
  \/ \E ts \in SelsAnd0, b \in BOOLEAN : DoInsert(ts, b)
  \/ \E ts \in SelSetAll : DoRemove(ts)
  \/ \E ts \in SelsAnd0 : DoTrim(ts)
  \/ \E ts \in Lists : DoCollect(ts)
  \/ \E ts \in SelsAnd0 : DoRotate(ts, 90)
  \/ \E r \in {180, -90} : DoRotate(Sels[2], r)
  \/ \E ts \in {Sels[2], Sels[4], <<>>}, i \in 1..Len(PBs) : DoAddBoxes(ts, PBs[i])
  \/ \E ts \in {Sels[2], Sels[3], <<>>}, i \in 1..3 : DoRemoveBoxes(ts, RBs[i])
  \/ \E ts \in {Sels[1], Sels[5], <<>>}, i \in 1..Len(CRs) : DoCrop(ts, CRs[i])
NextSmall ==
  \/ \E ts \in {Sels[2], Sels[3]} : DoInsert(ts, FALSE) \/ DoRemove(ts) \/ DoTrim(ts) \/ DoRotate(ts, 270)
  \/ DoInsert(Sels[4], TRUE)
  \/ DoCollect(<<T1("n", 2), T1("n", 1), T1("n", 2)>>)
  \/ DoAddBoxes(Sels[3], PBs[4]) \/ DoAddBoxes(Sels[1], PBs[3])
  \/ DoRemoveBoxes(<<>>, RBs[4])
  \/ DoCrop(Sels[2], CRs[2])
NextSim ==
  \E ts \in {RandSel(Len(pages))} :
    \/ \E b \in BOOLEAN : DoInsert(ts, b)
    \/ ts # <<>> /\ DoRemove(ts)
    \/ DoTrim(ts)
    \/ ts # <<>> /\ DoCollect(ts)
    \/ \E r \in {RandomElement({90, 180, 270, -90, -180, 450})} : DoRotate(ts, r)
    \/ \E pb \in {RandPB} : DoAddBoxes(ts, pb)
    \/ \E k \in {RandRB} : DoRemoveBoxes(ts, k)
    \/ \E a \in {RandCrop} : DoCrop(ts, a)

Init == /\ \E n \in Ns, k \in Shapes : tree = Shape(n, k)
        /\ DocInit(TreePages(tree)) /\ hist = <<>>
        /\ len \in (IF Mode = "sim" THEN 1..MaxLen ELSE {MaxLen})
Next == /\ Len(hist) < len
        /\ IF Mode = "sim" THEN NextSim ELSE IF Alpha = "small" THEN NextSmall ELSE NextFull
Spec == Init /\ [][Next]_vars

---------------------------------------------------------------------------
(* design properties of the model itself *)
InitMarks == {TreePages(tree)[i].mark : i \in 1..Len(TreePages(tree))}
TreesOK   == TreeOK(tree)
PagesOK   == \A i \in 1..Len(pages) :
               /\ pages[i].rot \in {0, 90, 180, 270}
               /\ (pages[i].bid = 0 => pages[i].mark \in InitMarks)
               /\ (pages[i].bid # 0 => pages[i].mark = "" /\ pages[i].bid \in 1..nblank)
               /\ IsBox(pages[i].media)
MarksOf(o) == [i \in 1..Len(o) |-> <<o[i][1], o[i][2]>>]
RECURSIVE IsSubSeq(_, _)
IsSubSeq(a, b) == IF a = <<>> THEN TRUE ELSE IF b = <<>> THEN FALSE
                  ELSE IF Head(a) = Head(b) THEN IsSubSeq(Tail(a), Tail(b)) ELSE IsSubSeq(a, Tail(b))
(* the last step relates to the page list before it as the operation says *)
StepSane ==
  hist # <<>> =>
    LET s    == hist[Len(hist)]
        prev == IF Len(hist) = 1 THEN MarksOf(Out(TreePages(tree))) ELSE MarksOf(hist[Len(hist) - 1].exp)
        now  == MarksOf(s.exp)
    IN /\ s.res = "refuse" => now = prev
       /\ s.op \in {"rotate", "addboxes", "removeboxes", "crop"} => now = prev
       /\ s.op \in {"insert_before", "insert_after"} => SelectSeq(now, LAMBDA x : x \in ToSet(prev)) = prev
       /\ s.op \in {"trim", "remove"} => IsSubSeq(now, prev)
       /\ s.op = "collect" => ToSet(now) \subseteq ToSet(prev)

Case == [tree |-> tree, init |-> Out(TreePages(tree)), steps |-> hist]
EmitCase == Emit /\ Len(hist) = len => PrintT(<<"CASE", ToJson(Case)>>)
=============================================================================
