SPECIFICATION Spec
CONSTANTS
  Ordered = FALSE
  Base = 0
INVARIANTS InOrder Judge
POSTCONDITION TraceAccepted
CHECK_DEADLOCK FALSE
