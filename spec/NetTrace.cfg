SPECIFICATION Spec
CONSTANTS
  Chunk = 64
INVARIANTS FlowAddrOK FlowURLOK FlowClientOK ProbeOK
POSTCONDITION TraceAccepted
CHECK_DEADLOCK FALSE
