SPECIFICATION Spec
CONSTANTS
  NB = 3
  OpKinds = {"add", "addu", "addx", "rem", "sync"}
  MaxLen = 2
  MaxLevel = 6
  Inits = {"two", "wide"}
  Patterns = {"rand"}
  Keeps = {FALSE}
  Emit = "state"
INVARIANTS EmitCase
