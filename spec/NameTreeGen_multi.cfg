SPECIFICATION Spec
CONSTANTS
  NB = 5
  OpKinds = {"add", "addu", "rem", "sync"}
  MaxLen = 2
  MaxLevel = 6
  Inits = {"two", "deep", "wide"}
  Patterns = {"rand"}
  Emit = "state"
INVARIANTS EmitCase
