---------------------------- MODULE LayoutWriter ----------------------------
(* Design model of the writer's offset bookkeeping (property C18, design check).          *)
(* The file is a sequence of segments with byte lengths; a segment's true position is the *)
(* sum of the lengths before it.  The writer keeps its own running `offset` (as           *)
(* model.WriteContext.Offset), records it per object before emitting the object           *)
(* (SetWriteOffset), and finally emits the cross-reference section from those records.    *)
(* TLC checks, for every object set, configuration, write order and length choice, that   *)
(* the finished file satisfies Layout!WellFormedFile.                                     *)
EXTENDS Layout, TLC

CONSTANTS NObj,       \* object numbers 1..NObj exist before writing
          Lens,       \* possible byte lengths of an emitted object
          MaxStm,     \* members per object stream (ObjectStreamMaxObjects)
          SizeRule    \* "highest": /Size = highest entry + 1;  "table": /Size = size of the in-memory table (as pdfcpu)

VARIABLES xs, os,     \* configuration: cross-reference stream, object streams
          kind,       \* kind[n]: "plain" (may be compressed) | "stream" | "free" | "dropped" (in use, unreachable: not written)
          pc, offset, file, wtab, comp, cur, toStm, size, startx
vars == <<xs, os, kind, pc, offset, file, wtab, comp, cur, toStm, size, startx>>

Objs == 1..NObj
None == [n |-> -1, members |-> <<>>]

Init ==
  /\ xs \in BOOLEAN /\ os \in BOOLEAN /\ (os => xs)
  /\ kind \in [Objs -> {"plain", "stream", "free", "dropped"}]
  /\ pc = "header" /\ offset = 0 /\ file = <<>>
  /\ wtab = [n \in {} |-> 0] /\ comp = [n \in {} |-> 0]
  /\ cur = None /\ toStm = FALSE /\ size = NObj + 1 /\ startx = -1

Emit(seg) == /\ file' = Append(file, seg)
             /\ offset' = offset + seg.len              \* the bookkeeping step

WriteHeader ==
  /\ pc = "header"
  /\ \E l \in {15, 17} : Emit([k |-> "header", n |-> -1, len |-> l, members |-> <<>>])
  /\ pc' = "objects"
  /\ UNCHANGED <<xs, os, kind, wtab, comp, cur, toStm, size, startx>>

Todo == {n \in Objs : kind[n] \in {"plain", "stream"} /\ n \notin DOMAIN wtab}

(* writePages / writeRootEntryToObjStream switch WriteToObjectStream on; stopObjectStream switches it off *)
EnterStmMode == /\ pc = "objects" /\ ~toStm /\ Todo # {} /\ toStm' = TRUE
                /\ UNCHANGED <<xs, os, kind, pc, offset, file, wtab, comp, cur, size, startx>>

FlushSeg(l) == [k |-> "objstm", n |-> cur.n, len |-> l, members |-> cur.members]

(* stopObjectStream: the object stream is emitted as an ordinary stream object *)
Flush ==
  /\ pc = "objects" /\ toStm
  /\ IF cur = None THEN UNCHANGED <<offset, file, wtab>>
     ELSE \E l \in Lens : /\ wtab' = wtab @@ (cur.n :> offset)
                          /\ Emit(FlushSeg(l))
  /\ cur' = None /\ toStm' = FALSE
  /\ UNCHANGED <<xs, os, kind, pc, comp, size, startx>>

(* writeObject / writeStreamDictObject *)
WriteDirect(n) ==
  /\ wtab' = wtab @@ (n :> offset)                       \* SetWriteOffset before emitting
  /\ \E l \in Lens : Emit([k |-> "obj", n |-> n, len |-> l, members |-> <<>>])
  /\ UNCHANGED <<comp, cur, size, toStm>>

(* writeToObjectStream *)
WriteCompressed(n) ==
  LET c == IF cur = None THEN [n |-> size, members |-> <<>>] ELSE cur      \* startObjectStream: new object number
      c2 == [c EXCEPT !.members = Append(@, n)] IN
  /\ size' = IF cur = None THEN size + 1 ELSE size
  /\ comp' = comp @@ (n :> [stm |-> c.n, idx |-> Len(c.members)])
  /\ IF Len(c2.members) = MaxStm
       THEN \E l \in Lens :                              \* full: flush, stay in object stream mode
              /\ file' = Append(file, [k |-> "objstm", n |-> c2.n, len |-> l, members |-> c2.members])
              /\ offset' = offset + l
              /\ wtab' = (wtab @@ (n :> offset)) @@ (c2.n :> offset)
              /\ cur' = None
       ELSE /\ wtab' = wtab @@ (n :> offset)            \* fake offset of a compressed object
            /\ cur' = c2 /\ UNCHANGED <<file, offset>>
  /\ UNCHANGED toStm

WriteObj ==
  /\ pc = "objects"
  /\ \E n \in Todo :
       IF xs /\ os /\ toStm /\ kind[n] = "plain" THEN WriteCompressed(n) ELSE WriteDirect(n)
  /\ UNCHANGED <<xs, os, kind, pc, startx>>

ObjectsDone == /\ pc = "objects" /\ Todo = {} /\ ~toStm /\ cur = None
               /\ pc' = "xref"
               /\ UNCHANGED <<xs, os, kind, offset, file, wtab, comp, cur, toStm, size, startx>>

(* writeXRefStream: the stream gets a new object number and lists itself at the current offset; writeXRefTable *)
WriteXRef ==
  /\ pc = "xref"
  /\ startx' = offset
  /\ IF xs THEN /\ wtab' = wtab @@ (size :> offset)
                /\ size' = size + 1
                /\ \E l \in Lens : Emit([k |-> "xrefstm", n |-> size, len |-> l, members |-> <<>>])
           ELSE /\ \E l \in Lens : Emit([k |-> "xref", n |-> -1, len |-> l, members |-> <<>>])
                /\ UNCHANGED <<wtab, size>>
  /\ pc' = "tail"
  /\ UNCHANGED <<xs, os, kind, comp, cur, toStm>>

WriteTail ==
  /\ pc = "tail"
  /\ Emit([k |-> "tail", n |-> -1, len |-> 20, members |-> <<>>])
  /\ pc' = "done"
  /\ UNCHANGED <<xs, os, kind, wtab, comp, cur, toStm, size, startx>>

Next == WriteHeader \/ EnterStmMode \/ Flush \/ WriteObj \/ ObjectsDone \/ WriteXRef \/ WriteTail
Spec == Init /\ [][Next]_vars

-----------------------------------------------------------------------------
(* The finished file as a strict reader sees it. *)
RECURSIVE PosOf(_)
PosOf(i) == IF i = 1 THEN 0 ELSE PosOf(i - 1) + file[i - 1].len
SegAt(x) == {i \in 1..Len(file) : PosOf(i) = x /\ file[i].k \in {"obj", "objstm", "xrefstm"}}
FoundAt(x) == IF SegAt(x) = {} THEN -1 ELSE file[CHOOSE i \in SegAt(x) : TRUE].n

FreeSet == {n \in Objs : kind[n] = "free"}
NextFree(n) == IF {m \in FreeSet : m > n} = {} THEN 0 ELSE CHOOSE m \in FreeSet : m > n /\ \A k \in FreeSet : k > n => m <= k

Listed == {0} \cup FreeSet \cup {n \in DOMAIN wtab : TRUE}      \* sortedWritableKeys: free or written
Highest == CHOOSE n \in Listed : \A m \in Listed : m <= n
TypeOf(n) == IF n = 0 \/ n \in FreeSet THEN 0 ELSE IF n \in DOMAIN comp THEN 2 ELSE IF n \in DOMAIN wtab THEN 1 ELSE -1

Rec ==
  LET N == Highest + 1
      szv == IF SizeRule = "highest" THEN N ELSE size IN
  [ header |-> Len(file) >= 1 /\ file[1].k = "header",
    tail |-> file[Len(file)].k = "tail",
    startxref |-> startx,
    size |-> szv,
    secs |-> << [off |-> startx, kind |-> IF xs THEN "stream" ELSE "table", ok |-> TRUE, prev |-> -1, size |-> szv,
                 selfn |-> IF xs THEN size - 1 ELSE -1,
                 tailok |-> \E i \in 1..(Len(file) - 1) : PosOf(i) = startx /\ file[i].k \in {"xref", "xrefstm"} /\ file[i + 1].k = "tail"] >>,
    et |-> [i \in 1..N |-> TypeOf(i - 1)],
    ea |-> [i \in 1..N |-> LET n == i - 1 IN
              CASE TypeOf(n) = 0 -> NextFree(n) [] TypeOf(n) = 2 -> comp[n].stm [] TypeOf(n) = 1 -> wtab[n] [] OTHER -> 0],
    eb |-> [i \in 1..N |-> LET n == i - 1 IN
              CASE n = 0 -> MaxGen [] TypeOf(n) = 2 -> comp[n].idx [] OTHER -> 0],
    fn |-> [i \in 1..N |-> IF TypeOf(i - 1) = 1 THEN FoundAt(wtab[i - 1]) ELSE -1],
    fg |-> [i \in 1..N |-> IF TypeOf(i - 1) = 1 /\ FoundAt(wtab[i - 1]) # -1 THEN 0 ELSE -1],
    fok |-> [i \in 1..N |-> TypeOf(i - 1) = 1 /\ FoundAt(wtab[i - 1]) # -1],
    comp |-> LET cs == {n \in DOMAIN comp : TRUE}
                 seq == CHOOSE s \in [1..Cardinality(cs) -> cs] : \A i, j \in 1..Cardinality(cs) : i < j => s[i] < s[j] IN
             [i \in 1..Cardinality(cs) |->
                LET n == seq[i]
                    st == comp[n].stm
                    segs == IF st \in DOMAIN wtab THEN {j \in SegAt(wtab[st]) : file[j].k = "objstm" /\ file[j].n = st} ELSE {}
                    mem == IF segs = {} THEN <<>> ELSE file[CHOOSE j \in segs : TRUE].members IN
                [n |-> n, stm |-> st, idx |-> comp[n].idx, isobjstm |-> segs # {}, cnt |-> Len(mem), dec |-> TRUE,
                 num |-> IF comp[n].idx < Len(mem) THEN mem[comp[n].idx + 1] ELSE -1, ok |-> TRUE]],
    streams |-> <<>> ]

(* design properties *)
OffsetExact == offset = (IF file = <<>> THEN 0 ELSE PosOf(Len(file)) + file[Len(file)].len)
WrittenFileWellFormed == pc = "done" => WellFormedFile(Rec)
(* vacuity guards, checked as invariants expected to FAIL when negated: reachable interesting states *)
SomeCompressed == pc = "done" => DOMAIN comp = {}
=============================================================================
