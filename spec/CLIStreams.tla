----------------------------- MODULE CLIStreams -----------------------------
(* Stream routing table of the command line (C41).  Every stream-capable      *)
(* command x route x configuration-directory state x input validity, with the  *)
(* expected observable outcome.  CLICatalog is generated from lib/cli.py.      *)
EXTENDS Integers, Sequences, TLC, Json, CLICatalog

VARIABLES cmd, route, confdir, input
vars == <<cmd, route, confdir, input>>

Routes   == {"file-file", "stdin-file", "file-stdout", "stdin-stdout"}
ConfDirs == {"disabled", "fresh", "existing", "outdated"}   \* outdated: config.yml of another major.minor version (a warning is logged)
Inputs   == {"valid", "garbage", "empty"}

StreamCmds == {i \in 1..Len(Kinds) : Stream[i]}

(* valid input: exit 0 and the produced document equals the file-based result; document on stdout => stdout holds
   exactly that document (no log text). invalid input: non-zero exit, nothing published, stdout carries no document *)
Expect(r, inp) == IF inp = "valid" THEN [exit0 |-> TRUE, sameDoc |-> TRUE, stdoutIsDoc |-> r \in {"file-stdout", "stdin-stdout"}]
                  ELSE [exit0 |-> FALSE, sameDoc |-> FALSE, stdoutIsDoc |-> FALSE]

Init == cmd \in StreamCmds /\ route \in Routes /\ confdir \in ConfDirs /\ input \in Inputs
Next == UNCHANGED vars
Spec == Init /\ [][Next]_vars

FailuresNeverSucceed == input # "valid" => ~Expect(route, input).exit0
EmitCase == PrintT(<<"CASE", ToJson([cmd |-> cmd, route |-> route, confdir |-> confdir, input |-> input, expect |-> Expect(route, input)])>>)
=============================================================================
