------------------------------- MODULE Limits -------------------------------
(* Resource limits contract (C09): what a document may make pdfcpu materialise under configured   *)
(* ResourceLimits.  Shared by the generator of bomb configurations (LimitsGen.tla) and by the     *)
(* judge of recorded executions (LimitsTrace.tla).  All byte quantities of records are plain      *)
(* integers below 2^31 (the largest input is a few hundred MB only in the thorough tier, where    *)
(* sizes are logged in KB - see KB fields).                                                       *)
EXTENDS Integers, Sequences, FiniteSets

Filters == {"Fl", "LZW", "RL", "AHx"}
Compressing(f) == f \in {"Fl", "LZW", "RL"}
HasCompressing(pipe) == \E i \in 1..Len(pipe) : Compressing(pipe[i])

(* size / value classes relative to a limit L *)
ClassValue(cls, L) == CASE cls = "below" -> L - 1
                        [] cls = "at"    -> L
                        [] cls = "above" -> L + 1
                        [] cls = "x100"  -> 100 * L
Beyond(v, L) == v > L

(* A stream decode is beyond the decode limit iff the output of some stage of its pipeline is     *)
(* larger than the limit (every stage materialises its output).  stages = sizes after stage 1..n. *)
DecodeBeyond(stages, L) == \E i \in 1..Len(stages) : stages[i] > L
MaxOf(seq) == IF Len(seq) = 0 THEN 0 ELSE
              CHOOSE m \in {seq[i] : i \in 1..Len(seq)} : \A j \in 1..Len(seq) : seq[j] <= m

LimitKinds == {"decode", "stream", "count", "depth", "image"}

(* Operations are flows: the document is read (and validated), optionally migrated into a derived context (its   *)
(* pages extracted into a new context - what trim, collect, split and extract pages do - or merged into another  *)
(* document), and then a consumer touches the stream.  The limits are configuration, not a property of the       *)
(* context a stream was read into: every context of a flow is bound by them, in particular a stream that is      *)
(* decoded for the first time only in the derived context.  Only page level streams migrate with their pages.    *)
Derivations == {"pages", "merge"}
Consumers(cont) == CASE cont = "content" -> {"content", "optimize", "write"}
                     [] cont = "image"   -> {"images", "optimize", "write"}
                     [] OTHER            -> {}
DerivedFlows(cont) == {<<d, c>> : d \in Derivations, c \in Consumers(cont)}

Min(a, b) == IF a < b THEN a ELSE b

(* What the configured limits allow one stream to occupy, in bytes: its encoded bytes up to         *)
(* MaxStreamBytes plus the output of every decode stage up to MaxDecodeBytes each.                   *)
SumMin(stages, L) == LET f[i \in 0..Len(stages)] == IF i = 0 THEN 0 ELSE f[i - 1] + Min(stages[i], L)
                     IN f[Len(stages)]
AllowedKB(enc, stages, lstr, ldec) == (Min(enc, lstr) + SumMin(stages, ldec)) \div 1024 + 1

(* Peak memory bound in KB: c1 * (what the limits allow) + c2 * |input| + c0.  Calibrated on the      *)
(* unchanged tree over all records in which nothing beyond a limit was asked for: the worst ratios   *)
(* are image extraction (about 22 bytes of heap per decoded image byte) and a constant of about 3.3 *)
(* MB; the constants below leave about 4x head-room (the evidence states the measured maxima).       *)
MemC1 == 96
MemC2 == 64
MemC0KB == 16384
MemBoundKB(allowKB, inKB) == MemC1 * allowKB + MemC2 * inKB + MemC0KB

(* Verdict on one record (one operation on one bomb).  Fields:                                     *)
(*   fam      "decode" | "stream" | "count"                                                       *)
(*   outcome  "ok" | "error" | "skipped" | "panic" | "timeout" | "oom" | "stack-overflow" | "crash"   *)
(*   errclass "" | a member of LimitKinds | "other"                                                *)
(*   ldec, lstr   configured MaxDecodeBytes / MaxStreamBytes                                      *)
(*   matdec, matraw  largest decoded / encoded stream held in the resulting context or delivered  *)
(*   stages   sizes after each decode stage, enc = encoded size                                   *)
(*   value, limit, matcount   count family: the oversized value, its limit, what was materialised *)
(*   peakkb   sampled heap peak of the operation over the level before it;  inkb input size       *)
Broken(r) ==
  IF r.outcome = "skipped" THEN {} ELSE
     (IF r.outcome \notin {"ok", "error"} THEN {r.outcome} ELSE {})
  \cup (IF r.matdec > r.ldec THEN {"decoded-beyond-limit"} ELSE {})
  \cup (IF r.matraw > r.lstr THEN {"encoded-beyond-limit"} ELSE {})
  \cup (IF r.fam = "count" /\ r.outcome = "ok" /\ Beyond(r.value, r.limit) /\ r.matcount > r.limit
          THEN {"count-beyond-limit"} ELSE {})
  \cup (IF r.peakkb > MemBoundKB(AllowedKB(r.enc, r.stages, r.lstr, r.ldec), r.inkb) THEN {"memory"} ELSE {})

(* classification used for the evidence counts *)
IsBeyond(r) == \/ r.fam = "decode" /\ DecodeBeyond(r.stages, r.ldec)
               \/ r.fam = "stream" /\ Beyond(r.enc, r.lstr)
               \/ r.fam = "count" /\ Beyond(r.value, r.limit)
Defused(r) == IsBeyond(r) /\ r.outcome = "error" /\ r.errclass \in LimitKinds
OverRejected(r) == ~IsBeyond(r) /\ r.outcome = "error" /\ r.errclass \in LimitKinds
=============================================================================
