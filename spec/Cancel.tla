------------------------------- MODULE Cancel -------------------------------
(* Design model of a cancellable document read (C10).                                            *)
(*                                                                                                *)
(* The reader first performs up to OpenOpsM input operations without looking at the context       *)
(* (phase 0), then runs phases 1..NPhases.  A phase is a loop of 1..MaxIter units; before a unit  *)
(* the loop looks at the context (phases in Unchecked do not - they model a loop that forgot the  *)
(* check); a unit performs 0..UnitOps input operations.  Cancel may happen at any moment, also    *)
(* before the read starts (pre).  TLC explores every interleaving.                                *)
(*                                                                                                *)
(* Design properties: the read terminates; its result is done or ctxErr; a document exists iff    *)
(* the result is done; an already cancelled context yields ctxErr and no document; after the      *)
(* cancellation at most max(OpenOpsM, UnitOps) further input operations are started.              *)
EXTENDS CancelOps, Sequences, FiniteSets, TLC, Json

CONSTANTS NPhases, MaxIter, UnitOps, OpenOpsM, Unchecked, Emit

VARIABLES ph,        \* current phase 0..NPhases+1 (NPhases+1: finished)
          it,        \* unit number inside the phase
          ops,       \* operations done inside the current unit
          inUnit,    \* the loop passed its context check and is working on a unit
          cancelled, pre,
          after,     \* operations started after the cancellation
          cph,       \* phase in which the cancellation fell (-1: none)
          result, doc
vars == <<ph, it, ops, inUnit, cancelled, pre, after, cph, result, doc>>

Init == /\ pre \in BOOLEAN
        /\ cancelled = pre
        /\ ph = 0 /\ it = 1 /\ ops = 0 /\ inUnit = TRUE
        /\ after = 0 /\ cph = -1
        /\ result = "running" /\ doc = FALSE

Running == result = "running"

Op == /\ Running /\ inUnit
      /\ ops < (IF ph = 0 THEN OpenOpsM ELSE UnitOps)
      /\ ops' = ops + 1
      /\ after' = IF cancelled THEN after + 1 ELSE after
      /\ UNCHANGED <<ph, it, inUnit, cancelled, pre, cph, result, doc>>

(* the unit is complete: next unit of the same phase or next phase *)
EndUnit == /\ Running /\ inUnit
           /\ inUnit' = FALSE /\ ops' = 0
           /\ \/ ph > 0 /\ it < MaxIter /\ it' = it + 1 /\ ph' = ph
              \/ it' = 1 /\ ph' = ph + 1
           /\ UNCHANGED <<cancelled, pre, after, cph, result, doc>>

(* loop head: look at the context, then start the unit or finish the read *)
Check == /\ Running /\ ~inUnit
         /\ IF ph = NPhases + 1
              THEN (IF cancelled /\ (NPhases + 1) \notin Unchecked
                      THEN result' = "ctxErr" /\ doc' = FALSE
                      ELSE result' = "done" /\ doc' = TRUE)
                   /\ UNCHANGED inUnit
              ELSE IF cancelled /\ ph \notin Unchecked
                      THEN result' = "ctxErr" /\ doc' = FALSE /\ UNCHANGED inUnit
                      ELSE inUnit' = TRUE /\ UNCHANGED <<result, doc>>
         /\ UNCHANGED <<ph, it, ops, cancelled, pre, after, cph>>

Cancel == /\ Running /\ ~cancelled
          /\ cancelled' = TRUE /\ cph' = ph
          /\ UNCHANGED <<ph, it, ops, inUnit, pre, after, result, doc>>

Reader == Op \/ EndUnit \/ Check
Next == Reader \/ Cancel
Spec == Init /\ [][Next]_vars /\ WF_vars(Reader)

Max(a, b) == IF a > b THEN a ELSE b

TypeOK == /\ ph \in 0..(NPhases + 1) /\ it \in 1..MaxIter /\ ops \in 0..Max(UnitOps, OpenOpsM)
          /\ result \in {"running"} \cup Kinds \cup {"other"}
KindOK == ~Running => result \in Kinds
DocIffDone == doc <=> (result = "done")
CtxErrOnlyIfCancelled == result = "ctxErr" => cancelled
PreCancelled == (pre /\ ~Running) => (result = "ctxErr" /\ ~doc /\ after <= OpenOpsM)
Bounded == after <= Max(OpenOpsM, UnitOps)
Terminates == <>(~Running)

(* every finished run is a schedule class the harness has to produce: where the cancellation fell *)
Class == [pre |-> pre, cancelled |-> cancelled, phase |-> cph, result |-> result]
EmitClass == (Emit /\ ~Running) => PrintT(<<"CLASS", ToJson(Class)>>)
=============================================================================
