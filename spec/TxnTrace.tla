----------------------------- MODULE TxnTrace -----------------------------
(* Inclusion of recorded os-call traces of real batch installs                 *)
(* (font.InstallTrueTypeCollection, api.InstallFonts) in the behaviours of      *)
(* Txn.tla.  lib/txnmon.py projects every trace of harness/cmd/txn onto the     *)
(* protocol's events; steps of the protocol that make no call are silent.      *)
EXTENDS Txn, Json

CONSTANT HasCloseIn    \* the operation closes its single input between staging and commit (collections); a batch of files does not

Trace == ndJsonDeserialize("ttrace.ndjson")
VARIABLE l
tvars == <<vars, l>>

Ev == Trace[l]
Is(e) == l <= Len(Trace) /\ Ev.ev = e /\ l' = l + 1
Res == /\ Ev.r = "ok"  => faults' = faults
       /\ Ev.r = "err" => faults' = faults + 1
Member == Ev.f = i            \* the event is about the member the protocol is working on
RbMember == Ev.f = listed

Silent == /\ \/ StageDone \/ Installed
             \/ (~HasCloseIn /\ CloseIn /\ faults' = faults)
             \/ (RbRemove /\ (IF listed = 0 THEN TRUE ELSE ~committed[listed]))
             \/ (pc = "rb_restore" /\ RbRestore /\ ~hadOrig[listed])
          /\ UNCHANGED l

TMkStage   == Is("MkStage") /\ MkStage /\ Res
TStage     == Is("Stage") /\ Stage /\ Res        \* members are staged in input order, committed in name order: only counted
TCloseIn   == Is("CloseIn") /\ HasCloseIn /\ CloseIn /\ Res
TMkBackup  == Is("MkBackup") /\ MkBackup /\ Res
TLstat     == Is("Lstat") /\ Lstat /\ Res /\ Member
TBackup    == Is("Backup") /\ Backup /\ Res /\ Member
TPublish   == Is("Publish") /\ Publish /\ Res /\ Member
TSync      == Is("Sync") /\ (BackupSync \/ PublishSync \/ FinSync \/ RbSync \/ RbFinSync) /\ Res
TRbRemove  == Is("RbRemove") /\ pc = "rb_remove" /\ listed > 0 /\ committed[listed] /\ RbMember /\ RbRemove /\ Res
TRbRestore == Is("RbRestore") /\ pc = "rb_restore" /\ hadOrig[listed] /\ RbMember /\ RbRestore /\ Res
TRmBackup  == Is("RmBackup") /\ (FinRmBackup \/ RbRmBackup) /\ Res
TRmStage   == Is("RmStage") /\ RmStage /\ Res

Cls(f) == tgt[f]
FinalOK == /\ (Ev.outcome = "ok") = ~err
           /\ \A f \in Files : Ev.final[f] = tgt[f]
           /\ (Ev.stage = "present") = (stageDir = "present")
           /\ (Ev.backup = "present") = (backupDir = "present")
TEnd == /\ Is("end") /\ Done /\ FinalOK
        /\ pc' = "mkstage" /\ i' = 1
        /\ tgt' = [f \in Files |-> Init0(f)] /\ bak' = [f \in Files |-> FALSE] /\ stg' = [f \in Files |-> FALSE]
        /\ committed' = [f \in Files |-> FALSE] /\ hadOrig' = [f \in Files |-> FALSE] /\ listed' = 0
        /\ stageDir' = "none" /\ backupDir' = "none"
        /\ err' = FALSE /\ installed' = FALSE /\ warn' = FALSE /\ rbFailed' = FALSE /\ faults' = 0

TraceInit == Init /\ l = 1
TraceNext == Silent \/ TMkStage \/ TStage \/ TCloseIn \/ TMkBackup \/ TLstat \/ TBackup \/ TPublish \/ TSync
             \/ TRbRemove \/ TRbRestore \/ TRmBackup \/ TRmStage \/ TEnd
TraceSpec == TraceInit /\ [][TraceNext]_tvars

ASSUME TLCSet(1, 0)
HighWater == TLCSet(1, IF l > TLCGet(1) THEN l ELSE TLCGet(1))
TraceAccepted == PrintT(<<"HIGHWATER", TLCGet(1), Len(Trace)>>) /\ TLCGet(1) = Len(Trace) + 1
=============================================================================
