SPECIFICATION Spec
CONSTANTS
  NPs = {2}
  MaxFields = 2
  Later = {"tx", "sigK"}
  IndDims = {"perms", "acro", "fields", "kids"}
  OthCfgs = {"none", "mix"}
INVARIANTS KeepDisjoint NoSigNoPerms FlagsDoNotSign Emit
