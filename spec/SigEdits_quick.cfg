SPECIFICATION Spec
CONSTANTS
  Steps = 3
  Deltas = {1, 8, 15}
  BRMax = 2
INVARIANTS ChangesValue NonZeroShift Emit
