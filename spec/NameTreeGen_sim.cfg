SPECIFICATION Spec
CONSTANTS
  NB = 12
  OpKinds = {"add", "addu", "addx", "rem", "sync"}
  MaxLen = 60
  MaxLevel = 6
  Inits = {"empty", "one", "split", "two", "deep", "wide"}
  Patterns = {"rand", "asc", "desc", "zig"}
  Keeps = {TRUE, FALSE}
  Emit = "leaf"
INVARIANTS ModelOK EmitCase
