------------------------------- MODULE SigHist -------------------------------
(* C27: validation HISTORIES.  A validator process validates one file after another;   *)
(* whatever it validated before, a tampered file is never reported valid / unmodified. *)
(*                                                                                      *)
(* For every signature profile (Kinds) and every size class of the signed ranges        *)
(* (Sizes: "small", and "large" = signed ranges above 1 MiB, obtained by padding a       *)
(* stream inside the first range) there are two genuine, correctly signed documents A   *)
(* and B of EQUAL length (they differ in one letter on the page), and of each a         *)
(* tampered copy with one bit flipped inside the first (…1) or second (…2) signed range.*)
(* A history is a non-empty sequence of such files, validated consecutively in ONE      *)
(* process.  Every reachable state is one history, printed as a case; harness/cmd/sig   *)
(* executes it and records one verdict per step; SigHistTrace judges every verdict on   *)
(* its own.                                                                             *)
EXTENDS Sig, Sequences, TLC, Json

CONSTANTS Kinds, Sizes, MaxLen

Files == {"gA", "gB", "tA1", "tA2", "tB1", "tB2"}
Tampered(f) == f \in {"tA1", "tA2", "tB1", "tB2"}

VARIABLES kind, size, hist
vars == <<kind, size, hist>>
Init == kind \in Kinds /\ size \in Sizes /\ hist = <<>>
Next == /\ Len(hist) < MaxLen
        /\ \E f \in Files : hist' = Append(hist, f)
        /\ UNCHANGED <<kind, size>>
Spec == Init /\ [][Next]_vars

(* the expectation of a step does not depend on the steps before it *)
MayClaim(h, i) == ~Tampered(h[i])
HistoryFree == \A i \in 1..Len(hist) : MayClaim(hist, i) = MayClaim(<<hist[i]>>, 1)

Case == [kind |-> kind, size |-> size, steps |-> hist,
         mayclaim |-> [i \in 1..Len(hist) |-> MayClaim(hist, i)]]
Emit == hist # <<>> => PrintT(<<"HIST", ToJson(Case)>>)
=============================================================================
