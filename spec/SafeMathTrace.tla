---------------------------- MODULE SafeMathTrace ----------------------------
(* Judges records of the real safemath.AddInt / MultiplyInt / MultiplyInt64 at their real width w      *)
(* against the mathematical definition (SafeMath!ExactAdd / ExactMul with M = 2^(w-1)-1), computed     *)
(* with limb arithmetic, and prints the case class of every record (same classes as SafeMath!AddClass  *)
(* / MulClass; "b vs M \div a" is decided by products, which is lemma DivLe of SafeMath_proofs).       *)
(* record: [fn, kind ("add"|"mul"), w, aneg, a, bneg, b, ok, rneg, r, as, bs, rs]; a, b, r = limbs of  *)
(* the absolute values.                                                                                *)
EXTENDS Limbs, Json, TLC
Trace == ndJsonDeserialize("records.ndjson")
VARIABLE l
Init == l = 1
Next == l <= Len(Trace) /\ l' = l + 1
Spec == Init /\ [][Next]_l

One == <<1>>
MaxL(w) == LPow2m1(w - 1)
Exact(rec) == IF rec.kind = "add" THEN LAdd(rec.a, rec.b) ELSE LMul(rec.a, rec.b)
Rel3(x, y) == LET c == LCmp(x, y) IN IF c < 0 THEN "lt" ELSE IF c = 0 THEN "eq" ELSE "gt"

(* M = limbs of 2^(w-1)-1, M1 = M + 1, E = limbs of the exact sum / product of the absolute values *)
InWord(M, M1, neg, x) == LValid(x) /\ (IF neg THEN ~LZero(x) /\ LLe(x, M1) ELSE LLe(x, M))
Fits(rec, M, E) == ~rec.aneg /\ ~rec.bneg /\ LLe(E, M)
JudgeME(rec, M, M1, E) ==
  /\ rec.kind \in {"add", "mul"}
  /\ InWord(M, M1, rec.aneg, rec.a) /\ InWord(M, M1, rec.bneg, rec.b)
  /\ IF Fits(rec, M, E) THEN rec.ok /\ ~rec.rneg /\ LValid(rec.r) /\ LEq(rec.r, E)
                        ELSE ~rec.ok
Judge(rec) == LET M == MaxL(rec.w) IN JudgeME(rec, M, LAdd(M, One), Exact(rec))

SignL(M, M1, neg, x) == IF neg THEN (IF LEq(x, M1) THEN "min" ELSE "neg")
                        ELSE IF LZero(x) THEN "zero" ELSE IF LEq(x, M) THEN "max" ELSE "pos"
ClassME(rec, M, M1, E) ==
  LET sa   == SignL(M, M1, rec.aneg, rec.a)
      sb   == SignL(M, M1, rec.bneg, rec.b)
      nn   == ~rec.aneg /\ ~rec.bneg
      both == nn /\ ~LZero(rec.a) /\ ~LZero(rec.b)
      c    == LCmp(E, M)
  IN IF rec.kind = "add"
     THEN <<"add", sa, sb,
            IF nn THEN (IF c < 0 THEN "lt" ELSE IF c = 0 THEN "eq" ELSE IF LEq(E, M1) THEN "eq1" ELSE "gt") ELSE "na",
            "na", "na">>
     ELSE <<"mul", sa, sb,
            IF both THEN (IF c < 0 THEN "lt" ELSE IF c = 0 THEN "eq" ELSE "gt") ELSE "na",
            IF both THEN (IF c <= 0 THEN (IF LLe(LAdd(E, rec.a), M) THEN "lt" ELSE "eq")  \* a*(b+1) <= M  |  a*b <= M < a*(b+1)
                          ELSE IF LLe(LSub(E, rec.a), M) THEN "eq1"                       \* a*(b-1) <= M < a*b
                          ELSE "gt") ELSE "na",
            IF both /\ c > 0 THEN (IF LBit(E, rec.w - 1) = 0 THEN "0" ELSE "1") ELSE "na">>
ClassOf(rec) == LET M == MaxL(rec.w) IN ClassME(rec, M, LAdd(M, One), Exact(rec))

JudgeAndClass(rec) == LET M  == MaxL(rec.w)
                          M1 == LAdd(M, One)
                          E  == Exact(rec)
                      IN JudgeME(rec, M, M1, E) /\ PrintT(<<"CLS", ToJson(ClassME(rec, M, M1, E))>>)

RecordOK == l <= Len(Trace) => JudgeAndClass(Trace[l])
TraceAccepted == TLCGet("stats").diameter = Len(Trace) + 1
=============================================================================
