SPECIFICATION Spec
CONSTANTS
  Shapes = {"leaf", "a1", "a2", "a3r", "d1", "d2r", "n2r"}
  Slice = 0
  NSlices = 1
INVARIANTS NormIdempotent NormNoNullEntries DepthBound EmitCase
