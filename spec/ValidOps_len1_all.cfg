SPECIFICATION Spec
CONSTANTS
  Batches <- BatchesAll
  MaxLen = 1
  Emit = TRUE
INVARIANTS TypeOK EmitCase
PROPERTY ValidPreserved
