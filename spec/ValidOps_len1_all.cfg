SPECIFICATION Spec
CONSTANTS
  Inputs = {"zine", "rot", "text", "walden", "form", "simple3", "nested5", "tree5", "objstm4"}
  MaxLen = 1
  Emit = TRUE
INVARIANTS TypeOK EmitCase
PROPERTY ValidPreserved
