----------------------------- MODULE LexTmpB -----------------------------
(* C12: judges records produced by the real Escape/Unescape/EncodeName/DecodeName.   *)
(* A record that fails is printed as a BAD payload with the names of the failed      *)
(* requirements; INFO payloads are interoperability observations (a conforming       *)
(* reader, RefUnescape / RefDecodeName, recovers the input), not verdicts.           *)
EXTENDS Lex, TLC, Json
Trace == ndJsonDeserialize("records.ndjson")
VARIABLE l
Init == l = 1
Next == FALSE /\ UNCHANGED l
Spec == Init /\ [][Next]_l

NoNul(b) == \A i \in 1..Len(b) : b[i] # 0
Fails(r) ==
  (IF r.eerr \/ r.uerr \/ r.un # r.inp THEN {"escape-roundtrip"} ELSE {}) \cup
  (IF ~r.eerr /\ ~EscapeOK(r.esc) THEN {"escape-parens"} ELSE {}) \cup
  (IF NoNul(r.inp) /\ ~NameCharOK(r.enc) THEN {"name-chars"} ELSE {}) \cup
  (IF NoNul(r.inp) /\ (r.derr \/ r.dec # r.inp) THEN {"name-roundtrip"} ELSE {})
Info(r) ==
  (IF ~r.eerr /\ RefUnescape(r.esc) # r.inp THEN {"ref-unescape"} ELSE {}) \cup
  (IF NoNul(r.inp) /\ RefDecodeName(r.enc) # r.inp THEN {"ref-decode-name"} ELSE {})

Judge == \A k \in 1..Len(Trace) :
  LET r == Trace[k] f == Fails(r) i == Info(r) IN
  /\ f # {} => PrintT(<<"BAD", ToJson([i |-> k, why |-> f])>>)
  /\ i # {} => PrintT(<<"INFO", ToJson([i |-> k, why |-> i])>>)
TraceAccepted == TRUE
=============================================================================
