SPECIFICATION Spec
CONSTANTS
  NB = 8
  OpKinds = {"add", "addu", "addx", "rem", "sync"}
  MaxLen = 24
  MaxLevel = 6
  Inits = {"empty", "one", "split", "two", "deep", "wide"}
  Patterns = {"rand", "asc", "desc", "zig"}
  Keeps = {TRUE, FALSE}
  Emit = "leaf"
INVARIANTS ModelOK EmitCase
