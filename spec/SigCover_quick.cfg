SPECIFICATION Spec
CONSTANTS
  AMax = 1
  Far = 1
  Shift = 1
  Wide = FALSE
INVARIANTS OnlyIdentityCovers GrowthIrrelevant Emit
