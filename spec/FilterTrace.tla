----------------------------- MODULE FilterTrace -----------------------------
(* Judges records written by harness/cmd/filter (what the real pdfcpu filters did) with  *)
(* the operators of Filter.tla.  One record per step; a record the specification does    *)
(* not accept is printed as <<"BAD", json>> (index, id, reasons) and checking goes on, so *)
(* one TLC run yields every verdict.  Prop selects the property being judged.            *)
EXTENDS Filter, Json
CONSTANTS Prop,                      \* "C15" | "C16" | "C17"
          Chunk                      \* records per chain: the chains are independent, so TLC workers share the trace
Trace == ndJsonDeserialize("records.ndjson")
VARIABLE l
(* l walks every index of the trace exactly once: chains start at 1, Chunk+1, 2*Chunk+1, ... *)
Init == l \in {k \in 1..Len(Trace) : k % Chunk = 1 \/ Chunk = 1}
Next == l < Len(Trace) /\ l % Chunk # 0 /\ l' = l + 1
Spec == Init /\ [][Next]_l

If(c, why) == IF c THEN <<>> ELSE <<why>>

(* ------------------------------------------------------------------------------ C15 *)
(* pdfcpu's documented acceptance of decode parameters: LZWDecode supports no            *)
(* predictor; FlateDecode takes the Table 8 values (other entries are ignored when no    *)
(* predictor is in effect).                                                              *)
StageAccepted(s) ==
  CASE s.f = "LZW" -> DefPred(s.pred) = 1
    [] s.f = "Fl"  -> DefPred(s.pred) = 1 \/ ParamsAllowed(s.pred, s.colors, s.bpc, s.cols)
    [] OTHER -> TRUE
PipeAccepted(pipe) == \A k \in DOMAIN pipe : StageAccepted(pipe[k])

(* The data matter too: FlateDecode with a predictor works on whole rows, so the bytes   *)
(* that reach such a stage's encoder must be a whole number of rows (lens[k] = bytes that *)
(* reached stage k, -1 = the chain stopped before it; such a stage decides nothing).      *)
PredStage(s) == s.f = "Fl" /\ DefPred(s.pred) >= 2
StageRowSize(s) == RowSize(DefColors(s.colors), DefBpc(s.bpc), DefCols(s.cols))
DataAccepted(pipe, lens) ==
  \A k \in DOMAIN pipe : (PredStage(pipe[k]) /\ lens[k] >= 0) => lens[k] % StageRowSize(pipe[k]) = 0

Verdict15(r) ==
  LET n == Len(r.pipe)
      accP == PipeAccepted(r.pipe)                                             \* the parameters are accepted
      acc == accP /\ DataAccepted(r.pipe, r.inLens)                            \* ... and the original content is encodable
      accM == acc /\ DataAccepted(r.pipe, r.modInLens)                        \* ... and so is the edited content
      rt == \* round trip, filter level: by value where the bytes are given, else the recorded equality
            /\ r.encOk /\ r.decOk /\ r.eq
            /\ (r.small => r.dec = r.orig)
      sd == /\ r.sdEncOk /\ r.sdRawEq /\ r.sdLenOk
            /\ r.sdDecOk /\ r.sdEq
      \* the stream object read back (Raw present) is decoded, edited (r.edit), re-encoded: the new Raw is the chain's
      \* encoding of the edited content, Length fits, and it decodes to the edited content
      sdM == /\ r.sdModOk /\ r.sdModEq /\ r.sdModFresh /\ r.sdModLen
             /\ (r.small => r.modDec = r.mod)
  IN  If(/\ Len(r.inLens) = n /\ Len(r.modInLens) = n /\ r.inLens[n] = r.n
         /\ (r.small => (Len(r.orig) = r.n /\ r.mod = ApplyEdit(r.edit, r.orig) /\ r.modInLens[n] = Len(r.mod))), "record-inconsistent")
      \o If(acc => rt, "roundtrip-filter")
      \o If(acc => sd, "roundtrip-streamdict")
      \o If(accM => sdM, "roundtrip-streamdict-edit")
      \* file level: the original reads back; an edit is either rejected at re-encoding (only if not accepted) or survives write + re-read
      \o If(/\ (acc => r.fstage \in {"ok", "skip", "reencode"})
            /\ (accM => r.fstage \in {"ok", "skip"}), "roundtrip-file")
      \* whatever an encoder returns without error for accepted parameters is decodable (content that is not a whole
      \* number of rows must be refused by the encoder, not turned into an undecodable stream)
      \o If(accP => (/\ (r.encOk => r.decOk)
                      /\ (r.sdEncOk => r.sdDecOk)
                      /\ (r.sdModEncOk => r.sdModOk)
                      /\ r.fstage \notin {"decode1", "decode2"}), "encoded-but-undecodable")
      \* never other bytes, accepted or not
      \o If(/\ (r.encOk /\ r.decOk) => r.eq
            /\ (r.sdEncOk /\ r.sdDecOk) => r.sdEq
            /\ (r.sdModOk => r.sdModEq)
            /\ r.fstage \notin {"differs1", "differs2"}, "silent-wrong-data")
      \* every RunLength/ASCIIHex/ASCII85 stage output is a correct encoding of its input (reference decoders)
      \o If(\A k \in DOMAIN r.obs : EncodedBy(r.obs[k].f, r.obs[k].inp, r.obs[k].out), "encoder-vs-reference")
      \* the whole pipeline decoded by the reference decoders alone
      \o If(r.small /\ r.encOk /\ AllSimple(r.pipe) => PipeEncodes(r.pipe, r.orig, r.enc), "pipeline-vs-reference")

(* ------------------------------------------------------------------------------ C16 *)
(* api "SDH": the call is a later call of a history on one StreamDict object (r.prev = the earlier  *)
(* calls).  The outcome relation is that of a call on a fresh object: decoding has no memory, apart *)
(* from what the relation allows anyway (a bounded call after a full decode returns the same prefix).*)
Verdict16(r) ==
  LET o == Outcome(r.kind, IF r.kind = "ok" THEN r.len ELSE 0)
      prefix == r.kind = "ok" => (Len(r.got) = r.len /\ PrefixOf(r.got, r.full))
  IN  If(r.D = Len(r.full) /\ r.D = r.ds[Len(r.ds)], "record-inconsistent")
      \o If(prefix, "not-a-prefix")
      \o (IF r.mode = "limit"
          THEN If(o = PipeLimitOutcome(r.ds, r.arg), "limit-outcome")
               \o If(r.kind = "ok" => (r.len = r.D /\ Within(r.len, r.arg)), "limit-length")
          ELSE IF r.api \in {"SD", "SDH"}
               THEN If(o \in BoundedOutcome(r.D, r.arg), "bounded-outcome")
               ELSE If(o \in BoundedAtLeast(r.D, r.arg), "bounded-outcome"))

(* ------------------------------------------------------------------------------ C17 *)
Verdict17(r) ==
  IF ~ParamsAllowed(r.pred, r.colors, r.bpc, r.cols) THEN <<>>       \* outside Table 8: not constrained
  ELSE LET e == PredictorDecode(r.raw, r.pred, r.colors, r.bpc, r.cols)
           co == DefColors(r.colors)
           b == DefBpc(r.bpc)
           w == DefCols(r.cols)
       IN IF ~e.ok THEN If(~r.ok, "accepted-invalid-row-filter")      \* a PNG filter type > 4 is not decodable
          ELSE IF ~r.ok THEN <<"rejected-allowed-parameters">>
          ELSE IF e.kind = "bytes" THEN If(r.out = e.v, "wrong-bytes")
          ELSE If(Len(r.out) = Len(r.raw) /\ RowsSamples(r.out, RowSize(co, b, w), b, co * w, 0) = e.v, "wrong-samples")

Verdict(r) == CASE Prop = "C15" -> Verdict15(r)
                [] Prop = "C16" -> Verdict16(r)
                [] Prop = "C17" -> Verdict17(r)

(* informational tags (not verdicts).  C16: bounded decoding at the filter.Filter interface *)
(* that returns more than min(n, D) bytes (allowed there, trimmed by StreamDict).  C15: for  *)
(* pipelines with a Flate predictor stage, which acceptance branch the record exercised.     *)
HasPredStage(pipe) == \E k \in DOMAIN pipe : PredStage(pipe[k]) /\ pipe[k].f = "Fl"
Note(r) ==
  IF Prop = "C16"
  THEN (IF r.mode = "bounded" /\ r.api = "F" /\ r.kind = "ok" /\ r.len > Min2(r.arg, r.D) THEN <<"overshoot">> ELSE <<>>)
  ELSE IF Prop = "C15" /\ HasPredStage(r.pipe) /\ PipeAccepted(r.pipe)
  THEN LET acc == DataAccepted(r.pipe, r.inLens)
           accM == acc /\ DataAccepted(r.pipe, r.modInLens)
           inner == \E k \in 1..(Len(r.pipe) - 1) : PredStage(r.pipe[k])
       IN <<IF acc THEN "pred-whole-rows" ELSE "pred-partial-rows">>
          \o (IF acc THEN <<IF accM THEN "edit-whole-rows" ELSE "edit-partial-rows">> ELSE <<>>)
          \o (IF acc /\ inner THEN <<"pred-inner-stage-accepted">> ELSE <<>>)
  ELSE <<>>

RecordOK == LET r == Trace[l]
                v == Verdict(r)
                nt == Note(r)
            IN /\ v = <<>> \/ PrintT(<<"BAD", ToJson([i |-> l, id |-> r.id, why |-> v])>>)
               /\ nt = <<>> \/ PrintT(<<"NOTE", ToJson([i |-> l, id |-> r.id, tags |-> nt])>>)
(* every record was judged *)
TraceAccepted == TLCGet("stats").distinct = Len(Trace)
=============================================================================
