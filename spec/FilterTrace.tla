----------------------------- MODULE FilterTrace -----------------------------
(* Judges records written by harness/cmd/filter (what the real pdfcpu filters did) with  *)
(* the operators of Filter.tla.  One record per step; a record the specification does    *)
(* not accept is printed as <<"BAD", json>> (index, id, reasons) and checking goes on, so *)
(* one TLC run yields every verdict.  Prop selects the property being judged.            *)
EXTENDS Filter, Json
CONSTANTS Prop,                      \* "C15" | "C16" | "C17"
          Chunk                      \* records per chain: the chains are independent, so TLC workers share the trace
Trace == ndJsonDeserialize("records.ndjson")
VARIABLE l
(* l walks every index of the trace exactly once: chains start at 1, Chunk+1, 2*Chunk+1, ... *)
Init == l \in {k \in 1..Len(Trace) : k % Chunk = 1 \/ Chunk = 1}
Next == l < Len(Trace) /\ l % Chunk # 0 /\ l' = l + 1
Spec == Init /\ [][Next]_l

If(c, why) == IF c THEN <<>> ELSE <<why>>

(* ------------------------------------------------------------------------------ C15 *)
(* pdfcpu's documented acceptance of decode parameters: LZWDecode supports no            *)
(* predictor; FlateDecode takes the Table 8 values (other entries are ignored when no    *)
(* predictor is in effect).                                                              *)
StageAccepted(s) ==
  CASE s.f = "LZW" -> DefPred(s.pred) = 1
    [] s.f = "Fl"  -> DefPred(s.pred) = 1 \/ ParamsAllowed(s.pred, s.colors, s.bpc, s.cols)
    [] OTHER -> TRUE
PipeAccepted(pipe) == \A k \in DOMAIN pipe : StageAccepted(pipe[k])

Verdict15(r) ==
  LET acc == PipeAccepted(r.pipe)
      rt == \* round trip, filter level: by value where the bytes are given, else the recorded equality
            /\ r.encOk /\ r.decOk /\ r.eq
            /\ (r.small => r.dec = r.orig)
      sd == /\ r.sdEncOk /\ r.sdRawEq /\ r.sdLenOk
            /\ r.sdDecOk /\ r.sdEq
            \* the stream object read back (Raw present) is decoded, edited (r.edit), re-encoded: the new Raw is what a
            \* fresh object with the edited content encodes to, Length fits, and it decodes to the edited content
            /\ r.sdModOk /\ r.sdModEq /\ r.sdModFresh /\ r.sdModLen
            /\ (r.small => (r.mod = ApplyEdit(r.edit, r.orig) /\ r.modDec = r.mod))
  IN  If(acc => rt, "roundtrip-filter")
      \o If(acc => sd, "roundtrip-streamdict")
      \o If(acc => r.file \in {"ok", "skip"}, "roundtrip-file")
      \* a pipeline pdfcpu does not accept must fail, never return different bytes
      \o If(~acc /\ r.encOk /\ r.decOk => r.eq, "silent-wrong-data")
      \* every RunLength/ASCIIHex/ASCII85 stage output is a correct encoding of its input (reference decoders)
      \o If(\A k \in DOMAIN r.obs : EncodedBy(r.obs[k].f, r.obs[k].inp, r.obs[k].out), "encoder-vs-reference")
      \* the whole pipeline decoded by the reference decoders alone
      \o If(r.small /\ r.encOk /\ AllSimple(r.pipe) => PipeEncodes(r.pipe, r.orig, r.enc), "pipeline-vs-reference")

(* ------------------------------------------------------------------------------ C16 *)
Verdict16(r) ==
  LET o == Outcome(r.kind, IF r.kind = "ok" THEN r.len ELSE 0)
      prefix == r.kind = "ok" => (Len(r.got) = r.len /\ PrefixOf(r.got, r.full))
  IN  If(r.D = Len(r.full) /\ r.D = r.ds[Len(r.ds)], "record-inconsistent")
      \o If(prefix, "not-a-prefix")
      \o (IF r.mode = "limit"
          THEN If(o = PipeLimitOutcome(r.ds, r.arg), "limit-outcome")
               \o If(r.kind = "ok" => (r.len = r.D /\ Within(r.len, r.arg)), "limit-length")
          ELSE IF r.api = "SD"
               THEN If(o \in BoundedOutcome(r.D, r.arg), "bounded-outcome")
               ELSE If(o \in BoundedAtLeast(r.D, r.arg), "bounded-outcome"))

(* ------------------------------------------------------------------------------ C17 *)
Verdict17(r) ==
  IF ~ParamsAllowed(r.pred, r.colors, r.bpc, r.cols) THEN <<>>       \* outside Table 8: not constrained
  ELSE LET e == PredictorDecode(r.raw, r.pred, r.colors, r.bpc, r.cols)
           co == DefColors(r.colors)
           b == DefBpc(r.bpc)
           w == DefCols(r.cols)
       IN IF ~e.ok THEN If(~r.ok, "accepted-invalid-row-filter")      \* a PNG filter type > 4 is not decodable
          ELSE IF ~r.ok THEN <<"rejected-allowed-parameters">>
          ELSE IF e.kind = "bytes" THEN If(r.out = e.v, "wrong-bytes")
          ELSE If(Len(r.out) = Len(r.raw) /\ RowsSamples(r.out, RowSize(co, b, w), b, co * w, 0) = e.v, "wrong-samples")

Verdict(r) == CASE Prop = "C15" -> Verdict15(r)
                [] Prop = "C16" -> Verdict16(r)
                [] Prop = "C17" -> Verdict17(r)

(* informational: bounded decoding at the filter.Filter interface that returns more than *)
(* min(n, D) bytes (allowed by that interface, trimmed by StreamDict)                      *)
Note(r) == Prop = "C16" /\ r.mode = "bounded" /\ r.api = "F" /\ r.kind = "ok" /\ r.len > Min2(r.arg, r.D)

RecordOK == LET r == Trace[l]
                v == Verdict(r)
            IN /\ v = <<>> \/ PrintT(<<"BAD", ToJson([i |-> l, id |-> r.id, why |-> v])>>)
               /\ ~Note(r) \/ PrintT(<<"NOTE", ToJson([i |-> l, id |-> r.id])>>)
(* every record was judged *)
TraceAccepted == TLCGet("stats").distinct = Len(Trace)
=============================================================================
