---------------------------- MODULE CancelTrace ----------------------------
(* Judges the records of real cancelled reads (harness/cmd/robust c10) against the cancellation   *)
(* contract of CancelOps.  One record per step; a record that breaks a clause is printed as a BAD *)
(* payload with the names of the broken clauses (all verdicts in one run).                        *)
EXTENDS CancelOps, Sequences, FiniteSets, TLC, Json

Trace == ndJsonDeserialize("records.ndjson")
VARIABLE l
Init == l = 1
Next == l <= Len(Trace) /\ l' = l + 1
Spec == Init /\ [][Next]_l

PreModes == {"pre", "predl", "file"}

Broken(r) ==
     (IF r.kind \in Kinds THEN {} ELSE {"kind"})
  \cup (IF r.mode \in PreModes /\ ~(r.kind = "ctxErr" /\ r.docnil /\ r.isctx /\ r.after <= OpenOps) THEN {"precancelled"} ELSE {})
  \cup (IF r.kind = "ctxErr" /\ ~(r.isctx /\ r.docnil /\ r.fired) THEN {"ctxerr"} ELSE {})
  \cup (IF r.kind = "done" /\ ~r.same THEN {"done"} ELSE {})
  \cup (IF r.fired /\ r.mode \notin PreModes /\ r.after > OpsBound(r.size) THEN {"ops"} ELSE {})
  \cup (IF r.mode \in {"timer", "gap", "det"} /\ r.fired /\ r.aftercpu > TimeBoundUs(r.fullcpu) THEN {"time"} ELSE {})

RecordOK == l <= Len(Trace) =>
              LET b == Broken(Trace[l]) IN
                b = {} \/ PrintT(<<"BAD", ToJson([l |-> l, why |-> b])>>)
TraceAccepted == TLCGet("stats").diameter = Len(Trace) + 1
=============================================================================
