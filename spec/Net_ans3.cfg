SPECIFICATION Spec
CONSTANTS
  Kinds = {"crl", "image"}
  FullKinds = {"crl", "image"}
  LiteChain = 0
  LongBound = 0
  AllowForms = {"none", "case"}
  RichAllows = {"none", "case"}
  Variant = 1
  MaxAns = 3
  ChainBound = 0
  Schemes1 = {"http"}
  Users1 = {"none"}
  Names1 = {"pki"}
  RichNames = {"pki"}
  Lits1 = FALSE
  SchemesR = {"http"}
  UsersR = {"none"}
  NamesR = {"other"}
  LitsR = FALSE
  CarrierKinds = {}
  HistBound = 0
  SameSchemes = {}
  SameUsers = {}
  SamePorts = {}
  PoolClasses = {}
  Emit = TRUE
INVARIANTS Safe RedirectsChecked EmitCase
