\* LoadUserFonts enters the Once before it takes the load mutex (lock-order inversion against ReloadUserFonts):
\* TLC must find the state where the first lookup and a reload block each other forever
SPECIFICATION Spec
CONSTANTS
  Readers = {r1, r2}
  Reloaders = {w1, w2}
  OpsR = 1
  OpsW = 1
  MaxGen = 1
  Discipline = TRUE
  Break = "once_outside"
INVARIANTS NoStuck
