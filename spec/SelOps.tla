------------------------------- MODULE SelOps -------------------------------
(* Constant-free access to the page-selection reference model spec/Sel.tla      *)
(* (C31): the operators are obtained by instantiating Sel with dummy values for  *)
(* the constants and variables that only its own state machine uses.             *)
(* Other modules write  Sel!Selected(p, ts)  after  Sel == INSTANCE SelOps  or   *)
(* EXTEND this module and use the Sel... names below.                            *)
EXTENDS Integers, Sequences, FiniteSets

SelRef == INSTANCE Sel WITH PCs <- {}, Nums <- {}, NumsLast <- {}, MaxFull <- 0, MaxTerms <- 0,
                            Emit <- FALSE, pc <- 0, terms <- <<>>

(* a term [f, a, b, neg] of Sel.tla *)
SelTerm(f, a, b, neg) == [f |-> f, a |-> a, b |-> b, neg |-> neg]
SelTerms(N)           == SelRef!Terms(N)
SelRender(ts)         == [i \in 1..Len(ts) |-> SelRef!Render(ts[i])]   \* the strings handed to the API
SelSelected(p, ts)    == SelRef!Selected(p, ts)                        \* set of pages (ordered evaluation)
SelRemaining(p, ts)   == SelRef!Remaining(p, ts)
SelCollected(p, ts)   == SelRef!Collected(p, ts)                       \* list with repetitions
SelAsc(S)             == SelRef!Asc(S)
=============================================================================
