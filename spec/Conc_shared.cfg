\* operations share one mutable process-wide object (cached stamp source, filter scratch buffer): TLC must find the race
SPECIFICATION Spec
CONSTANTS
  Readers = {r1, r2}
  Reloaders = {w1, w2}
  OpsR = 1
  OpsW = 1
  MaxGen = 1
  Discipline = TRUE
  Break = "shared_source"
INVARIANTS NoRace
