-------------------------------- MODULE CLI --------------------------------
(* Decision table of the command line's overwrite protection (C04) and of its  *)
(* stream routing (C41). CLICatalog is generated from lib/cli.py at run time:  *)
(*   Kinds[i]   \in {"file","json","dir"}   kind of explicit output of command i  *)
(*   HasIn[i], InPlace[i], Stream[i]  BOOLEAN                                      *)
EXTENDS Integers, Sequences, TLC, Json, CLICatalog

VARIABLES cmd, state, force, conf
vars == <<cmd, state, force, conf>>

(* configuration directory: disabled (-c disable) or a directory whose config.yml has every switch that has nothing to do with the
   overwrite protection turned away from its default (checkFileNameExt off, optimization off, classic xref, ...). The decision never
   depends on it. *)
Confs == {"disabled", "tweaked"}

FileStates(i) == {"absent", "present"} \cup (IF HasIn[i] THEN {"sameasinput"} ELSE {}) \cup (IF InPlace[i] THEN {"inplace"} ELSE {})
DirStates == {"empty", "nonempty", "nonemptyglob"}   \* output directories must exist; "glob": the directory name contains [ ]
States(i) == IF Kinds[i] = "dir" THEN DirStates ELSE FileStates(i)

(* the command must refuse: an explicitly named output exists (a non-empty directory) and --force is not given *)
Refuse(st, f) == ~f /\ st \in {"present", "sameasinput", "nonempty", "nonemptyglob"}
Expect(st, f) == IF Refuse(st, f) THEN "refuse"
                 ELSE IF st = "sameasinput" THEN "proceed-or-clean-failure"   \* forced aliasing may still be rejected, but cleanly
                 ELSE "proceed"

Init == cmd \in 1..Len(Kinds) /\ state \in States(cmd) /\ force \in BOOLEAN /\ conf \in Confs
Next == UNCHANGED vars
Spec == Init /\ [][Next]_vars

(* design sanity: in-place and absent outputs never need --force; refusal only ever protects something that exists *)
NeverRefuseNew == state \in {"absent", "inplace", "empty"} => Expect(state, force) = "proceed"
ForceProceeds  == force => Expect(state, force) # "refuse"

EmitCase == PrintT(<<"CASE", ToJson([cmd |-> cmd, state |-> state, force |-> force, conf |-> conf, expect |-> Expect(state, force)])>>)

(* ---- C41: stream routing ---- *)
Routes == {"file-file", "stdin-file", "file-stdout", "stdin-stdout"}
StreamCase == [c \in {i \in 1..Len(Kinds) : Stream[i]}, r \in Routes |-> TRUE]
=============================================================================
