SPECIFICATION Spec
CONSTANTS
  PWSeq <- PW3
  HAlgs = {"rc4_40", "rc4_128", "aes_128", "aes_256", "aes_256_r6"}
  DeepAlgs = {"rc4_40", "rc4_128", "aes_128", "aes_256", "aes_256_r6"}
  Reals = {0, 1, 2, 3, 4, 5, 6}
  RealLen = 2
  MaxLen = 3
  ProbeAll = TRUE
  Emit = TRUE
INVARIANTS WrongRejected ChangesNeedOwner OnlyNewWorks EmitCase
