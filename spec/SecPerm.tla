------------------------------ MODULE SecPerm ------------------------------
(* C26: the command x permission-bits x revision matrix.  A state is one /P     *)
(* value (relevant bits 4 5 10 11, surrounding bits 3 6 9 12, the unused and    *)
(* high bits as one flag) and one security handler revision.  Every state is    *)
(* printed with the expected mask / decision of every command mode (CASE, for   *)
(* the in-package binding of maskExtract / maskModify / hasNeededPermissions)   *)
(* and, where pdfcpu can produce such a document, as an end-to-end document     *)
(* request (DOC).  Steps grant one more relevant bit.                           *)
EXTENDS Sec, TLC, Json

CONSTANTS VRPairs,     \* <</V, /R>> pairs of the encryption dictionary (the decision must depend on /R only)
          Surrounds,   \* set of subsets of {3, 6, 9, 12} to combine with
          DocHi,       \* values of hi for which end-to-end documents are requested
          DocSurs,     \* surrounding-bit sets for which end-to-end documents are requested
          DocOther,    \* which settings of the two bits of the other revision layout get documents: subset of {"none", "all", "mixed"}
          E2EAlgs,     \* algorithms for which end-to-end documents are requested
          ApiAlgs,     \* algorithms for which the real file operations are run end to end
          ApiRels,     \* relevant-bit sets for which the real file operations are run end to end
          ApiSurs,     \* ... and surrounding-bit sets
          Emit

(* cfg: VRPairs <- VRQuick / VRAll.  /V 1 /R 3 (40-bit key, revision 3 permissions) and /V 2 /R 2 are legal pairings. *)
VRQuick == {<<1, 2>>, <<2, 2>>, <<1, 3>>, <<2, 3>>, <<4, 4>>, <<5, 5>>, <<5, 6>>}
VRAll   == VRQuick \cup {<<4, 2>>, <<4, 3>>, <<1, 4>>, <<2, 4>>, <<4, 5>>, <<2, 6>>, <<1, 6>>}

VARIABLES rel, sur, hi, V, R
vars == <<rel, sur, hi, V, R>>

Relevant == {4, 5, 10, 11}
B(S, k, v) == IF k \in S THEN v ELSE 0
BitsVal(S) == B(S, 3, 4) + B(S, 4, 8) + B(S, 5, 16) + B(S, 6, 32) + B(S, 9, 256) + B(S, 10, 512) + B(S, 11, 1024) + B(S, 12, 2048)
(* hi: bits 1 2 7 8 (unused, 195) and all bits from 13 up (two's complement -4096) are set *)
PVal(r, s, h) == BitsVal(r \cup s) + (IF h THEN 195 - 4096 ELSE 0)
P == PVal(rel, sur, hi)

Init == rel = {} /\ sur \in Surrounds /\ hi \in BOOLEAN /\ \E vr \in VRPairs : V = vr[1] /\ R = vr[2]
Next == \E b \in Relevant \ rel : rel' = rel \cup {b} /\ UNCHANGED <<sur, hi, V, R>>
Spec == Init /\ [][Next]_vars

ModeSeq == [i \in 1..(Len(NeedsTable) + Len(Unclassified)) |->
              IF i <= Len(NeedsTable) THEN NeedsTable[i][1] ELSE Unclassified[i - Len(NeedsTable)]]

(* ---- design properties of the reference model (a command matters only through its class) ---- *)
(* granting one more bit never takes a command away *)
Mono == \A b \in Relevant \ rel : \A nx, nm \in BOOLEAN :
           DeniedC(nx, nm, PVal(rel \cup {b}, sur, hi), R) => DeniedC(nx, nm, P, R)
Layout == LET xb == IF R = 2 THEN 5 ELSE 10
              mb == IF R = 2 THEN 4 ELSE 11
          IN \A nx, nm \in BOOLEAN : DeniedC(nx, nm, P, R) <=> ((nx /\ xb \notin rel) \/ (nm /\ mb \notin rel))
SurroundIrrelevant == \A nx, nm \in BOOLEAN : DeniedC(nx, nm, P, R) = DeniedC(nx, nm, PVal(rel, {}, FALSE), R)
ASSUME TableWellFormed == /\ Cardinality(AllModes) = Len(NeedsTable) + Len(Unclassified)   \* no mode listed twice
                          /\ Cardinality(Classified) = Len(NeedsTable)
                          /\ \A m \in AllModes \ Classified : ~NeedsExtract(m) /\ ~NeedsModify(m)

Row(m, xd, md) == LET nx == NeedsExtract(m)
                      nm == NeedsModify(m)
                  IN [m |-> m, x |-> IF nx THEN 2 ^ (ExtractBit(R) - 1) ELSE 0, y |-> IF nm THEN 2 ^ (ModifyBit(R) - 1) ELSE 0,
                      d |-> (nx /\ xd) \/ (nm /\ md), c |-> m \in Classified]
Case == LET p == P
            ms == ModeSeq
            xd == ExtractDenied(p, R)
            md == ModifyDenied(p, R)
        IN [p |-> p, v |-> V, r |-> R, rows |-> [i \in 1..Len(ms) |-> Row(ms[i], xd, md)]]
EmitCase == Emit => PrintT(<<"CASE", ToJson(Case)>>)

(* end-to-end document requests: algorithms producing revision R *)
DocAlgs == {a \in E2EAlgs : Rev(a) = R /\ AlgV(a) = V}
Doc(a) == [alg |-> a, p |-> P, api |-> (a \in ApiAlgs /\ rel \in ApiRels /\ sur \in ApiSurs)]
OtherBits == IF R = 2 THEN {10, 11} ELSE {4, 5}
OtherSetting == IF rel \cap OtherBits = {} THEN "none" ELSE IF OtherBits \subseteq rel THEN "all" ELSE "mixed"
DocWanted == OtherSetting \in DocOther
EmitDocs == (Emit /\ hi \in DocHi /\ sur \in DocSurs /\ DocWanted) => \A a \in DocAlgs : PrintT(<<"DOC", ToJson(Doc(a))>>)
=============================================================================
