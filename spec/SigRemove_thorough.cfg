SPECIFICATION Spec
CONSTANTS
  NPs = {1, 2, 3}
  MaxFields = 2
  Later = {"sigM", "sigK", "sigK2", "grp", "grp3", "grpFT", "tx"}
  IndDims = {}
  OthCfgs = {"ind1", "dir1", "mix"}
INVARIANTS KeepDisjoint NoSigNoPerms FlagsDoNotSign Emit
