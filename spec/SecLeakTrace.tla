---------------------------- MODULE SecLeakTrace ----------------------------
(* C23: judges visibility records produced by the real code: one record per      *)
(* (location, algorithm, layout, string form, user password kind): was the unique *)
(* marker placed at that location found in the encrypted output (raw bytes or any *)
(* stream after un-filtering without decrypting)?  Every rejected record is       *)
(* printed (BAD) and counted; AllAccepted fails at the end if any was rejected.   *)
EXTENDS Sec, Json, TLC
Trace == ndJsonDeserialize("records.ndjson")
VARIABLES l, bad
Judge(r) == r.visible => Leaks(r.loc, r.alg, r.emd)
TInit == l = 1 /\ bad = 0
TNext == /\ l <= Len(Trace)
         /\ l' = l + 1
         /\ bad' = IF Judge(Trace[l]) THEN bad ELSE bad + 1
TSpec == TInit /\ [][TNext]_<<l, bad>>
Report == (l <= Len(Trace) /\ ~Judge(Trace[l])) => PrintT(<<"BAD", ToJson([l |-> l])>>)
AllAccepted == l = Len(Trace) + 1 => bad = 0
TraceAccepted == TLCGet("stats").diameter = Len(Trace) + 1
=============================================================================
