SPECIFICATION Spec
CONSTANTS
  Kinds = {"crl", "image"}
  FullKinds = {"crl", "ocsp", "image"}
  LiteChain = 0
  LongBound = 0
  AllowForms = {"none", "exact", "ip"}
  RichAllows = {}
  Variant = 1
  MaxAns = 1
  ChainBound = 0
  Schemes1 = {"http"}
  Users1 = {"none"}
  Names1 = {"pki", "other"}
  RichNames = {}
  Lits1 = TRUE
  SchemesR = {"http"}
  UsersR = {"none"}
  NamesR = {"other"}
  LitsR = FALSE
  CarrierKinds = {}
  HistBound = 2
  SameSchemes = {}
  SameUsers = {}
  SamePorts = {}
  PoolClasses = {"pub4", "p10"}
  Emit = TRUE
INVARIANTS Safe RedirectsChecked EmitCase
