------------------------------ MODULE NetAddr ------------------------------
(* Reusable byte-level vocabulary for network-egress properties (C30).       *)
(*                                                                           *)
(* An address is a sequence of byte values: length 4 = IPv4, length 16 =     *)
(* IPv6 (an IPv4-mapped IPv6 address ::ffff:a.b.c.d is a 16 byte address).   *)
(* A host name / allow-list entry is a sequence of ASCII codes (TLC strings  *)
(* are atomic, so everything TLC has to look inside is an integer sequence). *)
(*                                                                           *)
(* Public(a) is the PROPERTY's notion: not loopback, private, link-local,    *)
(* multicast or unspecified (ranges from RFC 1122/1918/3927/5771/4291/4193), *)
(* evaluated on the address a connect() would really reach (mapped addresses *)
(* are unwrapped first).  GoBlocked(a) is the DESIGN's notion: what the Go   *)
(* net.IP predicates used by pdfcpu are documented to compute.  Net.tla      *)
(* checks that the design's decisions imply the property's.                  *)
EXTENDS Integers, Sequences, FiniteSets

Byte == 0..255
WellFormedAddr(a) == Len(a) \in {4, 16} /\ \A i \in 1..Len(a) : a[i] \in Byte

IsV4(a) == Len(a) = 4
IsV6(a) == Len(a) = 16
Mapped(a) == IsV6(a) /\ (\A i \in 1..10 : a[i] = 0) /\ a[11] = 255 /\ a[12] = 255
Eff(a) == IF Mapped(a) THEN <<a[13], a[14], a[15], a[16]>> ELSE a

(* ---- the property's address classes ------------------------------------ *)
Loopback4(b)  == b[1] = 127                                          \* 127.0.0.0/8
Private4(b)   == \/ b[1] = 10                                        \* 10.0.0.0/8
                 \/ (b[1] = 172 /\ b[2] \in 16..31)                  \* 172.16.0.0/12
                 \/ (b[1] = 192 /\ b[2] = 168)                       \* 192.168.0.0/16
LinkLocal4(b) == b[1] = 169 /\ b[2] = 254                            \* 169.254.0.0/16
Multicast4(b) == b[1] \in 224..239                                   \* 224.0.0.0/4
Unspec4(b)    == \A i \in 1..4 : b[i] = 0                            \* 0.0.0.0

Loopback6(b)  == (\A i \in 1..15 : b[i] = 0) /\ b[16] = 1            \* ::1
Private6(b)   == b[1] \in {252, 253}                                 \* fc00::/7
LinkLocal6(b) == b[1] = 254 /\ b[2] \in 128..191                     \* fe80::/10
Multicast6(b) == b[1] = 255                                          \* ff00::/8
Unspec6(b)    == \A i \in 1..16 : b[i] = 0                           \* ::

ClassOf(a) ==
  LET b == Eff(a) IN
  IF ~WellFormedAddr(a) THEN "malformed"
  ELSE IF IsV4(b) THEN
         (IF Loopback4(b) THEN "loopback" ELSE IF Private4(b) THEN "private"
          ELSE IF LinkLocal4(b) THEN "linklocal" ELSE IF Multicast4(b) THEN "multicast"
          ELSE IF Unspec4(b) THEN "unspecified" ELSE "public")
  ELSE   (IF Loopback6(b) THEN "loopback" ELSE IF Private6(b) THEN "private"
          ELSE IF LinkLocal6(b) THEN "linklocal" ELSE IF Multicast6(b) THEN "multicast"
          ELSE IF Unspec6(b) THEN "unspecified" ELSE "public")

Public(a) == ClassOf(a) = "public"

(* ---- the design's predicate: Go's net.IP methods as documented ---------- *)
(* every method first reduces a 16 byte IPv4-mapped address with To4()        *)
GoTo4(a) == IF IsV4(a) THEN a ELSE IF Mapped(a) THEN <<a[13], a[14], a[15], a[16]>> ELSE <<>>
GoIsLoopback(a) == LET v == GoTo4(a) IN IF v # <<>> THEN v[1] = 127
                   ELSE a = <<0,0,0,0,0,0,0,0,0,0,0,0,0,0,0,1>>
GoIsPrivate(a) == LET v == GoTo4(a) IN
                  IF v # <<>> THEN v[1] = 10 \/ (v[1] = 172 /\ (v[2] \div 16) = 1) \/ (v[1] = 192 /\ v[2] = 168)
                  ELSE IsV6(a) /\ (a[1] \div 2) = 126                 \* ip[0]&0xfe == 0xfc
GoIsLinkLocalUnicast(a) == LET v == GoTo4(a) IN IF v # <<>> THEN v[1] = 169 /\ v[2] = 254
                           ELSE IsV6(a) /\ a[1] = 254 /\ (a[2] \div 64) = 2      \* ip[1]&0xc0 == 0x80
GoIsMulticast(a) == LET v == GoTo4(a) IN IF v # <<>> THEN (v[1] \div 16) = 14
                    ELSE IsV6(a) /\ a[1] = 255
GoIsUnspecified(a) == LET v == GoTo4(a) IN IF v # <<>> THEN v = <<0,0,0,0>>
                      ELSE a = <<0,0,0,0,0,0,0,0,0,0,0,0,0,0,0,0>>
\* IsLinkLocalMulticast is subsumed by IsMulticast
GoBlocked(a) == GoIsLoopback(a) \/ GoIsPrivate(a) \/ GoIsLinkLocalUnicast(a) \/ GoIsMulticast(a) \/ GoIsUnspecified(a)

(* ---- host names ---------------------------------------------------------- *)
Lower(s) == [i \in 1..Len(s) |-> IF s[i] \in 65..90 THEN s[i] + 32 ELSE s[i]]
IsSpace(c) == c \in {32, 9, 10, 13}
RECURSIVE TrimL(_), TrimR(_)
TrimL(s) == IF s # <<>> /\ IsSpace(s[1]) THEN TrimL(SubSeq(s, 2, Len(s))) ELSE s
TrimR(s) == IF s # <<>> /\ IsSpace(s[Len(s)]) THEN TrimR(SubSeq(s, 1, Len(s) - 1)) ELSE s
StripDot(s) == IF s # <<>> /\ s[Len(s)] = 46 THEN SubSeq(s, 1, Len(s) - 1) ELSE s
\* DNS names are case-insensitive and "name." is the rooted spelling of "name"
NormHost(s) == StripDot(TrimR(TrimL(Lower(s))))
SameHost(a, b) == Lower(a) = Lower(b)
AllowListed(host, allow) ==
  /\ NormHost(host) # <<>>
  /\ \E i \in 1..Len(allow) : NormHost(allow[i]) = NormHost(host)

(* decimal spelling of small naturals / dotted quads, as ASCII codes *)
RECURSIVE Dec(_)
Dec(n) == IF n < 10 THEN <<48 + n>> ELSE Dec(n \div 10) \o <<48 + (n % 10)>>
Dotted(a) == Dec(a[1]) \o <<46>> \o Dec(a[2]) \o <<46>> \o Dec(a[3]) \o <<46>> \o Dec(a[4])

(* constructors *)
V4(a, b, c, d) == <<a, b, c, d>>
M4(a, b, c, d) == <<0,0,0,0,0,0,0,0,0,0,255,255, a, b, c, d>>
V6(g) == << g[1] \div 256, g[1] % 256, g[2] \div 256, g[2] % 256, g[3] \div 256, g[3] % 256, g[4] \div 256, g[4] % 256,
            g[5] \div 256, g[5] % 256, g[6] \div 256, g[6] % 256, g[7] \div 256, g[7] % 256, g[8] \div 256, g[8] % 256 >>
=============================================================================
