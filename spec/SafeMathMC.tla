----------------------------- MODULE SafeMathMC -----------------------------
(* TLC: all operand pairs of the word -m-1..m for every m in Maxes (one leaf state per (m, a); the         *)
(* invariants quantify over b).  Guards the transcription and the TLAPS theorems against typos and     *)
(* enumerates the case classes (for m in ClassMaxes) that the 64-bit binding has to cover.             *)
EXTENDS SafeMath, TLC, Json, FiniteSets
CONSTANTS Maxes, ClassMaxes, Emit
VARIABLES m, lo, hi          \* a range lo..hi of first operands, split until lo = hi (lets TLC's workers share the work)
vars == <<m, lo, hi>>
a == lo
Leaf == lo = hi
Init == m \in Maxes /\ lo = -m - 1 /\ hi = m
Next == /\ lo < hi
        /\ LET mid == (lo + hi) \div 2 IN (lo' = lo /\ hi' = mid) \/ (lo' = mid + 1 /\ hi' = hi)
        /\ UNCHANGED m
Spec == Init /\ [][Next]_vars

AddOK == Leaf => \A b \in Word(m) : Add(m, a, b) = ExactAdd(m, a, b) /\ MAdd(m, a, b) = ExactAdd(m, a, b)
MulOK == Leaf => \A b \in Word(m) : Mul(m, a, b) = ExactMul(m, a, b) /\ MMul(m, a, b) = ExactMul(m, a, b)
(* the property, stated directly on the machine-arithmetic transcription *)
NeverWrapped == Leaf => \A b \in Word(m) :
  /\ LET r == MAdd(m, a, b) IN (r.ok => a >= 0 /\ b >= 0 /\ r.v = a + b /\ r.v \in 0..m) /\ (~r.ok => a < 0 \/ b < 0 \/ a + b > m)
  /\ LET r == MMul(m, a, b) IN (r.ok => a >= 0 /\ b >= 0 /\ r.v = a * b /\ r.v \in 0..m) /\ (~r.ok => a < 0 \/ b < 0 \/ a * b > m)
EmitClass == Leaf /\ Emit /\ m \in ClassMaxes =>
               PrintT(<<"CLS", ToJson({AddClass(m, a, b) : b \in Word(m)} \cup {MulClass(m, a, b) : b \in Word(m)})>>)
EmitCount == Leaf /\ Emit => PrintT(<<"PAIRS", ToJson(Cardinality(Word(m)))>>)
=============================================================================
