--------------------------- MODULE SafeMath_proofs ---------------------------
EXTENDS SafeMath, TLAPS

LEMMA DivLe == ASSUME NEW M \in Nat, NEW a \in Nat, a > 0, NEW b \in Nat
               PROVE  (b <= M \div a) <=> (a * b <= M)
<1> DEFINE q == M \div a
<1> DEFINE r == M % a
<1>1. q \in Nat /\ r \in 0..(a - 1) /\ M = a * q + r
  BY Z3
<1> HIDE DEF q, r
<1>2. ASSUME b <= q PROVE a * b <= M
  <2>1. q - b \in Nat BY <1>1, <1>2
  <2>2. a * (q - b) >= 0 BY <2>1, Z3
  <2>3. a * (q - b) = a * q - a * b BY <1>1, Z3
  <2> QED BY <1>1, <2>2, <2>3, Z3
<1>3. ASSUME a * b <= M PROVE b <= q
  <2>1. SUFFICES ASSUME b >= q + 1 PROVE FALSE BY <1>1
  <2>2. b - (q + 1) \in Nat BY <1>1, <2>1
  <2>3. a * (b - (q + 1)) >= 0 BY <2>2, Z3
  <2>4. a * (b - (q + 1)) = a * b - a * q - a BY <1>1, Z3
  <2> QED BY <1>1, <1>3, <2>3, <2>4, Z3
<1> QED BY <1>2, <1>3 DEF q

THEOREM AddExact == \A M \in Nat \ {0} : \A a, b \in Int : Add(M, a, b) = ExactAdd(M, a, b)
BY DEF Add, ExactAdd, Val, Ovf

THEOREM MulExact == \A M \in Nat \ {0} : \A a, b \in Int : Mul(M, a, b) = ExactMul(M, a, b)
<1> SUFFICES ASSUME NEW M \in Nat \ {0}, NEW a \in Int, NEW b \in Int
             PROVE Mul(M, a, b) = ExactMul(M, a, b)
  OBVIOUS
<1>1. CASE a < 0 \/ b < 0 BY <1>1 DEF Mul, ExactMul
<1>2. CASE a = 0 /\ b >= 0 BY <1>2 DEF Mul, ExactMul
<1>3. CASE a > 0 /\ b >= 0
  <2>1. (b <= M \div a) <=> (a * b <= M) BY <1>3, DivLe
  <2>2. M \div a \in Int BY <1>3
  <2> QED BY <1>3, <2>1, <2>2 DEF Mul, ExactMul
<1> QED BY <1>1, <1>2, <1>3

LEMMA WrapId == ASSUME NEW M \in Nat, NEW x \in Int, -M - 1 <= x, x <= M
                PROVE  Wrap(M, x) = x
<1> DEFINE y == x + M + 1
<1> DEFINE m == 2 * M + 2
<1>1. y \in Nat /\ m \in Nat /\ m > 0 /\ y < m OBVIOUS
<1>2. y % m = y BY <1>1, Z3
<1> QED BY <1>2 DEF Wrap

LEMMA DivRange == ASSUME NEW M \in Nat, NEW a \in Nat, a > 0
                  PROVE  M \div a \in Nat /\ M \div a <= M
<1> DEFINE q == M \div a
<1> DEFINE r == M % a
<1>1. q \in Nat /\ r \in 0..(a - 1) /\ M = a * q + r BY Z3
<1> HIDE DEF q, r
<1>2. (a - 1) * q >= 0 BY <1>1, Z3
<1>3. (a - 1) * q = a * q - q BY <1>1, Z3
<1> QED BY <1>1, <1>2, <1>3, Z3 DEF q

THEOREM MAddExact == \A M \in Nat \ {0} : \A a, b \in Word(M) : MAdd(M, a, b) = ExactAdd(M, a, b)
<1> SUFFICES ASSUME NEW M \in Nat \ {0}, NEW a \in Word(M), NEW b \in Word(M)
             PROVE MAdd(M, a, b) = ExactAdd(M, a, b)
  OBVIOUS
<1>0. a \in Int /\ b \in Int /\ -M - 1 <= a /\ a <= M /\ -M - 1 <= b /\ b <= M BY DEF Word
<1>1. CASE a < 0 \/ b < 0 BY <1>1, <1>0 DEF MAdd, ExactAdd
<1>2. CASE a >= 0 /\ b >= 0
  <2>1. Wrap(M, M - b) = M - b BY <1>0, <1>2, WrapId
  <2>2. CASE a + b <= M
    <3>1. Wrap(M, a + b) = a + b BY <1>0, <1>2, <2>2, WrapId
    <3> QED BY <1>0, <1>2, <2>1, <2>2, <3>1 DEF MAdd, ExactAdd
  <2>3. CASE a + b > M BY <1>0, <1>2, <2>1, <2>3 DEF MAdd, ExactAdd
  <2> QED BY <1>0, <2>2, <2>3
<1> QED BY <1>0, <1>1, <1>2

THEOREM MMulExact == \A M \in Nat \ {0} : \A a, b \in Word(M) : MMul(M, a, b) = ExactMul(M, a, b)
<1> SUFFICES ASSUME NEW M \in Nat \ {0}, NEW a \in Word(M), NEW b \in Word(M)
             PROVE MMul(M, a, b) = ExactMul(M, a, b)
  OBVIOUS
<1>0. a \in Int /\ b \in Int /\ -M - 1 <= a /\ a <= M /\ -M - 1 <= b /\ b <= M BY DEF Word
<1>1. CASE a < 0 \/ b < 0 BY <1>1, <1>0 DEF MMul, ExactMul
<1>2. CASE a = 0 /\ b >= 0
  <2>1. Wrap(M, 0) = 0 BY WrapId
  <2>2. a * b = 0 BY <1>2, <1>0
  <2> QED BY <1>2, <1>0, <2>1, <2>2 DEF MMul, ExactMul
<1>3. CASE a > 0 /\ b >= 0
  <2>1. TDiv(M, a) = M \div a BY <1>3 DEF TDiv
  <2>2. M \div a \in Nat /\ M \div a <= M BY <1>3, <1>0, DivRange
  <2>3. Wrap(M, M \div a) = M \div a BY <2>2, WrapId
  <2>4. (b <= M \div a) <=> (a * b <= M) BY <1>3, <1>0, DivLe
  <2>5. CASE a * b <= M
    <3>1. a * b >= 0 BY <1>3, <1>0, Z3
    <3>2. a * b \in Int BY <1>0
    <3>3. Wrap(M, a * b) = a * b BY <2>5, <3>1, <3>2, WrapId
    <3> QED BY <1>3, <1>0, <2>1, <2>2, <2>3, <2>4, <2>5, <3>3 DEF MMul, ExactMul
  <2>6. CASE a * b > M BY <1>3, <1>0, <2>1, <2>2, <2>3, <2>4, <2>6 DEF MMul, ExactMul
  <2>7. a * b \in Int BY <1>0
  <2> QED BY <2>5, <2>6, <2>7
<1> QED BY <1>0, <1>1, <1>2, <1>3
=============================================================================
