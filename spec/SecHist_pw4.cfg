SPECIFICATION Spec
CONSTANTS
  PWSeq <- PW4
  HAlgs = {"rc4_40", "rc4_128", "aes_128", "aes_256", "aes_256_r6"}
  DeepAlgs = {"rc4_40", "rc4_128", "aes_128", "aes_256", "aes_256_r6"}
  Reals = {0}
  RealLen = 2
  MaxLen = 3
  ProbeAll = FALSE
  Emit = TRUE
INVARIANTS WrongRejected ChangesNeedOwner OnlyNewWorks EmitCase
