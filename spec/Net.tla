--------------------------------- MODULE Net ---------------------------------
(* C30 - network fetches never reach private or local addresses.             *)
(*                                                                           *)
(* Design model of pdfcpu's guarded fetch (revocation: CRL / OCSP, and the   *)
(* remote image of an image box):                                            *)
(*                                                                           *)
(*   Fetch(url) -> ValidateURL -> Dial(host) -> Resolve(answers) ->          *)
(*   ValidateIPs -> Connect(ip)* -> Response \in {body, redirect(url')} ->   *)
(*   CheckRedirect -> ValidateURL -> ...                                     *)
(*                                                                           *)
(* The environment chooses the URL classes, the resolver's answers, the      *)
(* allow-list spelling and the responses.  TLC explores every behaviour      *)
(* within the cfg bounds, checks the invariant Safe (every connect attempt   *)
(* of the design is permitted by the property) and prints every terminal     *)
(* state as a JSON case (EmitCase): the inputs plus, per hop, the set `may`  *)
(* of addresses the PROPERTY permits a connect to and the sequence `pred`    *)
(* the DESIGN attempts.  The cases are replayed into the real guards.        *)
EXTENDS NetAddr, TLC, Json

CONSTANTS
  Kinds,        \* subset of {"crl", "ocsp", "image"}
  AllowForms,   \* subset of {"none", "exact", "case", "dot", "ip", "parent"}
  Variant,      \* 1..3 : which representative of every address class
  MaxAns,       \* answer sequences of length 0..MaxAns for rich hops (<= 3)
  ChainBound,   \* max number of redirects explored
  Schemes1, Users1, Names1, RichNames, Lits1,    \* alphabet of the first URL
  SchemesR, UsersR, NamesR, LitsR,               \* alphabet of redirect targets
  CarrierKinds, \* subset of {"name", "allow", "lit"}: which permitted hops may answer with a redirect
  RichAllows,   \* allow-list spellings under which a rich name gets the long answer sequences
  FullKinds,    \* kinds explored with the full alphabets; the others ("lite") get LiteURL and LiteChain
  LiteChain,
  LongBound,    \* 0, or: one chain of the plain name carrier is followed up to LongBound redirects (redirect limit)
  HistBound,    \* number of EARLIER fetches of the same process (0 = every fetch in a fresh process); a case is then a
                \* history of HistBound + 1 fetches, each with its own configuration (allow-list)
  SameSchemes, SameUsers, SamePorts,   \* redirect targets that KEEP the host of the redirecting hop and change only
                \* scheme / userinfo / port (the path always changes); an empty set switches them off
  PoolClasses,  \* {} = every address class, else the classes the resolver answers / literals are drawn from
  Emit

VARIABLES kind, allow, phase, cur, done,
          hist   \* the fetches the process has completed before the current one (their emitted form)
vars == <<kind, allow, phase, cur, done, hist>>

Rev == {"crl", "ocsp"}
MaxRequests == 10       \* revocationRedirect: len(via) >= 10 stops; the image client has no bound of its own

(* ---- address classes: 3 representatives each (typical, low edge, high edge) ---- *)
Rep == [
  pub4  |-> << V4(93,184,216,34), V4(11,0,0,0),      V4(9,255,255,255) >>,
  loop4 |-> << V4(127,0,0,1),     V4(127,0,0,0),     V4(127,255,255,255) >>,
  p10   |-> << V4(10,1,2,3),      V4(10,0,0,0),      V4(10,255,255,255) >>,
  p172  |-> << V4(172,20,1,1),    V4(172,16,0,0),    V4(172,31,255,255) >>,
  p192  |-> << V4(192,168,1,1),   V4(192,168,0,0),   V4(192,168,255,255) >>,
  ll4   |-> << V4(169,254,169,254), V4(169,254,0,0), V4(169,254,255,255) >>,
  mc4   |-> << V4(230,1,1,1),     V4(224,0,0,1),     V4(239,255,255,255) >>,
  un4   |-> << V4(0,0,0,0),       V4(0,0,0,0),       V4(0,0,0,0) >>,
  edge4 |-> << V4(172,32,0,0),    V4(172,15,255,255), V4(192,169,0,0) >>,       \* just outside the blocked ranges
  edgb4 |-> << V4(169,255,0,0),   V4(126,255,255,255), V4(223,255,255,255) >>,
  grey4 |-> << V4(100,64,0,1),    V4(255,255,255,255), V4(0,1,2,3) >>,          \* CGNAT, broadcast, 0/8: not named by the property
  pub6  |-> << V6(<<8193,18528,18528,0,0,0,0,34952>>), V6(<<9734,18176,18176,0,0,0,0,4369>>), V6(<<10752,5200,16385,2075,0,0,0,8206>>) >>,
  loop6 |-> << V6(<<0,0,0,0,0,0,0,1>>), V6(<<0,0,0,0,0,0,0,1>>), V6(<<0,0,0,0,0,0,0,1>>) >>,
  ula6  |-> << V6(<<64786,13398,30874,0,0,0,0,1>>), V6(<<64512,0,0,0,0,0,0,0>>), V6(<<65023,65535,65535,65535,65535,65535,65535,65535>>) >>,
  ll6   |-> << V6(<<65152,0,0,0,0,0,0,1>>), V6(<<65152,0,0,0,0,0,0,0>>), V6(<<65215,65535,65535,65535,65535,65535,65535,65535>>) >>,
  mc6   |-> << V6(<<65282,0,0,0,0,0,0,1>>), V6(<<65280,0,0,0,0,0,0,0>>), V6(<<65294,0,0,0,0,0,0,1>>) >>,
  un6   |-> << V6(<<0,0,0,0,0,0,0,0>>), V6(<<0,0,0,0,0,0,0,0>>), V6(<<0,0,0,0,0,0,0,0>>) >>,
  edge6 |-> << V6(<<65216,0,0,0,0,0,0,1>>), V6(<<64511,65535,65535,65535,65535,65535,65535,65535>>), V6(<<65151,65535,65535,65535,65535,65535,65535,65535>>) >>,
  grey6 |-> << V6(<<100,65435,0,0,0,0,2561,515>>), V6(<<8194,2561,515,0,0,0,0,1>>), V6(<<0,0,0,0,0,0,2561,515>>) >>,  \* NAT64 / 6to4 / v4-compatible of 10.1.2.3
  mpub  |-> << M4(93,184,216,34), M4(11,0,0,0),      M4(9,255,255,255) >>,
  mloop |-> << M4(127,0,0,1),     M4(127,0,0,0),     M4(127,255,255,255) >>,
  mpriv |-> << M4(10,1,2,3),      M4(172,16,0,0),    M4(192,168,255,255) >>,
  mll   |-> << M4(169,254,169,254), M4(169,254,0,0), M4(169,254,255,255) >>,
  mmc   |-> << M4(230,1,1,1),     M4(224,0,0,1),     M4(239,255,255,255) >>,
  mun   |-> << M4(0,0,0,0),       M4(0,0,0,0),       M4(0,0,0,0) >> ]

Classes == DOMAIN Rep
A(c) == Rep[c][Variant]
Pool == { A(c) : c \in (IF PoolClasses = {} THEN Classes ELSE PoolClasses) }
AllReps == UNION { { Rep[c][v] : v \in 1..3 } : c \in Classes }

(* ---- host names (ASCII codes) ---- *)
Name == [
  pki    |-> <<112,107,105,46,118,101,114,105,102,46,116,101,115,116>>,        \* "pki.verif.test"  (the allow-listed PKI host)
  PKI    |-> <<80,75,73,46,86,101,114,105,102,46,84,69,83,84>>,                \* "PKI.Verif.TEST"
  pkidot |-> <<112,107,105,46,118,101,114,105,102,46,116,101,115,116,46>>,     \* "pki.verif.test."
  PKIdot |-> <<80,107,105,46,86,69,82,73,70,46,116,101,115,116,46>>,           \* "Pki.VERIF.test."
  other  |-> <<105,109,103,46,118,101,114,105,102,46,116,101,115,116>>,        \* "img.verif.test"
  sub    |-> <<120,46,112,107,105,46,118,101,114,105,102,46,116,101,115,116>>, \* "x.pki.verif.test"
  hex    |-> <<48,120,55,102,46,48,46,48,46,49>>,                              \* "0x7f.0.0.1"
  dec    |-> <<50,49,51,48,55,48,54,52,51,51>>,                                \* "2130706433"
  oct    |-> <<48,49,55,55,46,48,46,48,46,49>>,                                \* "0177.0.0.1"
  short  |-> <<49,50,55,46,49>>,                                               \* "127.1"
  empty  |-> <<>> ]
ParentName == <<118,101,114,105,102,46,116,101,115,116>>                       \* "verif.test"
\* Go's resolver answers all-numeric names with "no such host" without a query; a libc resolver would read them as
\* inet_aton spellings, which after resolution is the literal case (the guards validate the RESOLVED addresses).
Unresolvable == {"dec", "oct", "short"}

AllowIP == A("p10")
AllowList(f) ==
  CASE f = "exact"  -> << Name.pki >>
    [] f = "case"   -> << Name.PKI >>
    [] f = "dot"    -> << Name.PKIdot >>
    [] f = "ip"     -> << Dotted(AllowIP) >>
    [] f = "parent" -> << ParentName >>
    [] OTHER        -> << >>                  \* "none", "unset"

(* ---- URLs ---- *)
SchemeOK(s) == s \in {"http", "https", "HTTP"}       \* url.Parse lower-cases the scheme
Cred == {"user", "userpass"}                          \* "empty" is the spelling http://@host/ : no credentials, but pdfcpu refuses it too
BadCombo(s, u) == ~SchemeOK(s) \/ u # "none"
\* port: "" (the scheme's default) or "8080"; rel: "abs" = a URL of the environment's choosing, "same" = the
\* redirecting hop's own host again
U5(s, u, f, a, p, r) == [scheme |-> s, user |-> u, form |-> f, addr |-> a, port |-> p, rel |-> r,
                         host |-> IF f = "lit" THEN (IF IsV4(a) THEN Dotted(a) ELSE <<>>) ELSE Name[f]]
U(s, u, f, a) == U5(s, u, f, a, "", "abs")
SameTargets(h) == { U5(t[1], t[2], h.form, h.addr, t[3], "same") : t \in SameSchemes \X SameUsers \X SamePorts }
\* the plain combination (http, no userinfo) gets every host; every other combination - refused or not - a small host
\* alphabet, because the host is looked at independently of scheme and userinfo
Plain(s, u) == s = "http" /\ u = "none"
URLSet(Schemes, Users, Names, Lits) ==
     { U(t[1], t[2], t[3], <<>>) :
         t \in { x \in Schemes \X Users \X Names : Plain(x[1], x[2]) \/ x[3] \in {"pki", "empty"} } }
\cup { U(t[1], t[2], "lit", t[3]) :
         t \in { x \in Schemes \X Users \X Lits : Plain(x[1], x[2]) \/ x[3] \in {A("pub4"), A("p10"), A("mpriv"), A("ula6")} } }
URLs1 == URLSet(Schemes1, Users1, Names1, IF Lits1 THEN Pool ELSE {})
URLsR == URLSet(SchemesR, UsersR, NamesR, IF LitsR THEN Pool ELSE {})

Seqs(S, n) ==
  UNION { IF k = 0 THEN {<<>>}
          ELSE IF k = 1 THEN { <<a>> : a \in S }
          ELSE IF k = 2 THEN { <<a, b>> : a \in S, b \in S } \ { <<a, a>> : a \in S }
          ELSE { s \in { <<a, b, c>> : a \in S, b \in S, c \in S } : s[1] # s[2] /\ s[1] # s[3] /\ s[2] # s[3] }
        : k \in 0..n }

(* ---- the design's decisions ---- *)
DesignURLOK(k, u) ==
  /\ SchemeOK(u.scheme)
  /\ u.user = "none"                                   \* u.User != nil is refused
  /\ u.form # "empty"
  /\ (k = "image" /\ u.form = "lit") => ~GoBlocked(u.addr)    \* rejectPrivateImageBoxHost (literal hosts only)

DesignAllowed(k, u, al) == k \in Rev /\ AllowListed(u.host, AllowList(al))
Permit(k, h, al) ==
  /\ h.answers # <<>>
  /\ DesignAllowed(k, h, al) \/ \A i \in 1..Len(h.answers) : ~GoBlocked(h.answers[i])
\* every dial attempt of the model fails, so the revocation guard walks the whole answer list; the image guard dials answers[1] only
Attempts(k, h) == IF k \in Rev THEN h.answers ELSE <<h.answers[1]>>

Hop(u) == [scheme |-> u.scheme, user |-> u.user, form |-> u.form, addr |-> u.addr, host |-> u.host,
           port |-> u.port, rel |-> u.rel, answers |-> <<>>, conn |-> <<>>, st |-> "new"]
\* n = request number of this hop (1 = the URL of the document / certificate)
Enter(k, u, n) ==
  LET h == Hop(u) IN
  IF n > 1 /\ k \in Rev /\ n > MaxRequests THEN [h |-> [h EXCEPT !.st = "toomany"], p |-> "done"]
  ELSE IF k = "image" /\ n = 1 /\ ~SchemeOK(u.scheme) THEN [h |-> [h EXCEPT !.st = "local"], p |-> "done"]   \* a file name, never fetched
  ELSE IF ~DesignURLOK(k, u) THEN [h |-> [h EXCEPT !.st = "badurl"], p |-> "done"]
  ELSE IF u.form = "lit" THEN [h |-> [h EXCEPT !.answers = <<u.addr>>], p |-> "check"]
  ELSE [h |-> h, p |-> "resolve"]

NoHop == Hop(U("none", "none", "empty", <<>>))
Init == kind = "none" /\ allow = "unset" /\ phase = "start" /\ cur = NoHop /\ done = <<>> /\ hist = <<>>

LiteURL(u) == u.scheme \in {"http", "https", "ftp"} /\ u.user \in {"none", "userpass"} /\ u.form \in {"pki", "lit"}
Start == /\ phase = "start"
         /\ \E k \in Kinds, u \in URLs1 :
              /\ k \in FullKinds \/ LiteURL(u)
              /\ hist # <<>> => ((k \in Rev) <=> (hist[1].kind \in Rev))   \* one process = one package: revocation or image box
              /\ LET e == Enter(k, u, 1) IN kind' = k /\ cur' = e.h /\ phase' = e.p
         /\ UNCHANGED <<allow, done, hist>>

\* the allow-list spelling (configuration) is chosen lazily, the first time it can make a difference: before the
\* resolver answers for a host that some spelling would allow-list
NeedsAllow == kind \in Rev /\ \E f \in AllowForms : AllowListed(cur.host, AllowList(f))
PickAllow == /\ phase \in {"resolve", "check"} /\ allow = "unset" /\ NeedsAllow
             /\ \E f \in AllowForms : allow' = f
             /\ UNCHANGED <<kind, phase, cur, done, hist>>

AnswersFor(h, n) ==
  IF h.form \in Unresolvable THEN {<<>>}
  ELSE IF n > ChainBound + 1 THEN { <<A("pub4")>> }           \* the long chain
  ELSE IF h.rel = "same" THEN { done[Len(done)].answers, <<A("p10")>> }   \* the same answer again, or the name has been re-pointed
  ELSE IF n = 1 /\ h.scheme = "http" /\ h.form \in RichNames /\ kind \in FullKinds /\ allow \in RichAllows \cup {"unset"}
       THEN Seqs(Pool, MaxAns)
  ELSE Seqs(Pool, 1)

Resolve == /\ phase = "resolve" /\ (allow # "unset" \/ ~NeedsAllow)
           /\ \E a \in AnswersFor(cur, Len(done) + 1) : cur' = [cur EXCEPT !.answers = a]
           /\ phase' = "check"
           /\ UNCHANGED <<kind, allow, done, hist>>

Check == /\ phase = "check" /\ (allow # "unset" \/ ~NeedsAllow)
         /\ IF Permit(kind, cur, allow)
            THEN cur' = [cur EXCEPT !.conn = Attempts(kind, cur), !.st = "connected"] /\ phase' = "respond"
            ELSE cur' = [cur EXCEPT !.st = IF cur.answers = <<>> THEN "noresolve" ELSE "blocked"] /\ phase' = "done"
         /\ UNCHANGED <<kind, allow, done, hist>>

Body == phase = "respond" /\ phase' = "done" /\ UNCHANGED <<kind, allow, cur, done, hist>>

\* only a few permitted hops answer with a redirect (the carriers); every permitted hop may answer with a body
IsCarrier(h) ==
  /\ h.scheme = "http" /\ h.rel = "abs"
  /\ \/ "name"  \in CarrierKinds /\ h.form = "other" /\ h.answers = <<A("pub4")>>
     \/ "allow" \in CarrierKinds /\ h.form = "pki"   /\ h.answers = <<A("p10")>>     \* only reachable when allow-listed
     \/ "lit"   \in CarrierKinds /\ h.form = "lit"   /\ h.addr = A("pub6")
Redirect == /\ phase = "respond" /\ IsCarrier(cur)
            /\ Len(done) < (IF kind \in FullKinds THEN ChainBound ELSE LiteChain)
            /\ \E u \in URLsR \cup SameTargets(cur) :
                 LET e == Enter(kind, u, Len(done) + 2) IN cur' = e.h /\ phase' = e.p
            /\ done' = Append(done, cur)
            /\ UNCHANGED <<kind, allow, hist>>

\* the long chain: img.verif.test (public) redirects to itself again and again
NameCarrier(h) == h.scheme = "http" /\ h.user = "none" /\ h.form = "other" /\ h.answers = <<A("pub4")>>
LongRedirect == /\ phase = "respond" /\ kind \in FullKinds
                /\ Len(done) >= ChainBound /\ Len(done) < LongBound
                /\ NameCarrier(cur) /\ \A i \in 1..Len(done) : NameCarrier(done[i])
                /\ LET e == Enter(kind, U("http", "none", "other", <<>>), Len(done) + 2) IN cur' = e.h /\ phase' = e.p
                /\ done' = Append(done, cur)
                /\ UNCHANGED <<kind, allow, hist>>

(* ---- the property, stated on the design's connect attempts ---- *)
AllHops == IF phase = "start" THEN <<>> ELSE Append(done, cur)
PropAllowed(h) == kind \in Rev /\ AllowListed(h.host, AllowList(allow))
Safe ==
  \A n \in 1..Len(AllHops) :
    LET h == AllHops[n] IN
    \A i \in 1..Len(h.conn) :
      /\ Public(h.conn[i]) \/ PropAllowed(h)
      /\ SchemeOK(h.scheme) /\ h.user \notin Cred
      /\ kind \in Rev => n <= MaxRequests
      /\ \E j \in 1..Len(h.answers) : h.answers[j] = h.conn[i]       \* only resolved addresses are dialled
\* the two address predicates agree on every representative (design predicate = property predicate)
PredicatesAgree == \A a \in AllReps : WellFormedAddr(a) /\ (GoBlocked(a) <=> ~Public(a))
ASSUME PredicatesAgree
\* redirect targets are held to the same rules: a hop that is not the first one was entered through Enter, so
\* a connected hop has a valid URL whatever its position
RedirectsChecked == \A n \in 1..Len(AllHops) : AllHops[n].st = "connected" => DesignURLOK(kind, AllHops[n])

(* ---- case emission ---- *)
May(n, h) ==   \* addresses the PROPERTY permits a connect to at request n
  IF SchemeOK(h.scheme) /\ h.user \notin Cred /\ h.form # "empty" /\ h.st \notin {"toomany", "local"}
  THEN { h.answers[i] : i \in { j \in 1..Len(h.answers) : Public(h.answers[j]) \/ PropAllowed(h) } }
  ELSE {}
CaseHop(n) == LET h == AllHops[n] IN
  [scheme |-> h.scheme, user |-> h.user, form |-> h.form, addr |-> h.addr, host |-> h.host, port |-> h.port, rel |-> h.rel,
   answers |-> h.answers,
   st |-> h.st, pred |-> h.conn, may |-> May(n, h),
   classes |-> [i \in 1..Len(h.answers) |-> ClassOf(h.answers[i])]]
Fetch == [kind |-> kind, allowform |-> allow, allow |-> AllowList(allow), variant |-> Variant,
          hops |-> [n \in 1..Len(AllHops) |-> CaseHop(n)]]
\* earlier fetches of the process: the spec's verdict on the current fetch (Safe, May) never looks at them - every
\* fetch is held to the rules under ITS OWN configuration, whatever the process did before
Case == [kind |-> kind, allowform |-> allow, allow |-> AllowList(allow), variant |-> Variant,
         hops |-> [n \in 1..Len(AllHops) |-> CaseHop(n)], prev |-> hist]
EmitCase == (Emit /\ phase = "done" /\ Len(hist) = HistBound) => PrintT(<<"CASE", ToJson(Case)>>)
\* the process goes on to its next fetch, possibly under another configuration
NextFetch == /\ phase = "done" /\ Len(hist) < HistBound
             /\ hist' = Append(hist, Fetch)
             /\ kind' = "none" /\ allow' = "unset" /\ phase' = "start" /\ cur' = NoHop /\ done' = <<>>

Next == Start \/ Resolve \/ PickAllow \/ Check \/ Body \/ Redirect \/ LongRedirect \/ NextFetch
Spec == Init /\ [][Next]_vars
=============================================================================
