----------------------------- MODULE Watermarks -----------------------------
(* Adding and removing watermarks / stamps (pdfcpu "stamp|watermark add|remove").         *)
(*                                                                                        *)
(* Abstract document: np pages in a flat or nested page tree (the state and the operations *)
(* do not depend on the tree shape), page p has streams[p] content streams and an immutable*)
(* original content; the state is the set W of pages that carry a watermark.              *)
(*   Add(kind, onTop, sel, desc) : W' = W \cup Pages(sel)          (content of every page *)
(*                                 = original content + artifacts on the pages in W')      *)
(*   Remove(sel)                 : if W \cap Pages(sel) = {} the call fails and nothing    *)
(*                                 changes, else W' = W \ Pages(sel)                       *)
(*   HasWatermarks               = (W # {})                                               *)
(* A page not in W shows exactly its original content (up to whitespace and enclosing      *)
(* q .. Q pairs); after Remove(all) that is every page.                                    *)
(* Page selections and their meaning come from the C31 reference model (SelOps / Sel.tla). *)
EXTENDS Integers, Sequences, FiniteSets, TLC, Json, SelOps

CONSTANTS NPages,     \* page count of the marker document
          StreamPats, \* set of indices into StreamPatterns (content streams per page)
          Fanouts,    \* document shapes: 0 = flat page tree (all pages are kids of the root), k > 0 = nested page tree whose
                      \* intermediate /Pages nodes hold k pages each (so a selection may hit only the first or only the last subtree)
          MaxAdds,    \* 1 or 2 add steps
          Kinds,      \* subset of {"text", "image", "pdf"}
          Sels1,      \* indices into Selections usable by the first add
          Sels2,      \* ... by the second add
          SelsR,      \* ... by the first remove
          FreeDesc,   \* TRUE: the first add chooses its description freely, else descriptions rotate with the other parameters
          FreeKind2,  \* TRUE: the second add chooses its kind freely, else it is derived from the first add's kind and its own selection
          Emit

VARIABLES pat, fanout, ops, W, phase
vars == <<pat, fanout, ops, W, phase>>

AllPages == 1..NPages

StreamPatterns == << <<1, 2, 3, 1, 2, 3>>, <<3, 1, 2, 2, 1, 3>>, <<2, 2, 1, 3, 1, 1>>, <<1, 1, 1, 1, 1, 1>> >>

T(f, a, b, neg) == SelTerm(f, a, b, neg)
Selections == << <<>>,                                   \* 1: no selection = all pages
                 << T("n", 1, 0, "") >>,                 \* 2: "1"
                 << T("suf", 2, 0, "") >>,               \* 3: "2-"
                 << T("even", 0, 0, "") >>,              \* 4: "even"
                 << T("l", 0, 0, "") >>,                 \* 5: "l"
                 << T("pre", 2, 0, ""), T("n", 2, 0, "!") >>,   \* 6: "-2,!2"
                 << T("odd", 0, 0, ""), T("n", 1, 0, "n") >>    \* 7: "odd,n1"
              >>
PagesOf(s) == IF Selections[s] = <<>> THEN AllPages ELSE SelSelected(NPages, Selections[s])

(* description strings from small finite sets: position, scale, rotation, opacity *)
Descs == << [pos |-> "c",  sc |-> "0.5 rel", rot |-> "0",   op |-> "1"],
            [pos |-> "tl", sc |-> "0.3 rel", rot |-> "45",  op |-> "0.4"],
            [pos |-> "br", sc |-> "1 abs",   rot |-> "-90", op |-> "1"],
            [pos |-> "c",  sc |-> "0.8 rel", rot |-> "180", op |-> "0.75"],
            [pos |-> "l",  sc |-> "0.5 abs", rot |-> "30",  op |-> "0.1"],
            [pos |-> "tr", sc |-> "1 rel",   rot |-> "0",   op |-> "0.5"] >>
DescStr(i) == LET d == Descs[i] IN "pos:" \o d.pos \o ", scale:" \o d.sc \o ", rot:" \o d.rot \o ", op:" \o d.op

KindNo(k) == CASE k = "text" -> 0 [] k = "image" -> 1 [] k = "pdf" -> 2
KindSeq == <<"text", "image", "pdf">>
Kind2(k1, s2) == LET k == KindSeq[((KindNo(k1) + s2) % 3) + 1] IN IF k \in Kinds THEN k ELSE k1
RotDesc(k, top, s, i) == ((KindNo(k) + (IF top THEN 3 ELSE 0) + s + 2 * i) % Len(Descs)) + 1

Adds == Len(SelectSeq(ops, LAMBDA o : o.op = "add"))

Init == pat \in StreamPats /\ fanout \in Fanouts /\ ops = <<>> /\ W = {} /\ phase = "add"

Add == /\ phase = "add" /\ Adds < MaxAdds
       /\ \E top \in BOOLEAN, s \in (IF Adds = 0 THEN Sels1 ELSE Sels2) :
          \E k \in (IF Adds = 0 \/ FreeKind2 THEN Kinds ELSE {Kind2(ops[1].kind, s)}) :
          \E dsc \in (IF FreeDesc /\ Adds = 0 THEN 1..Len(Descs) ELSE {RotDesc(k, top, s, Adds)}) :
            /\ ops' = Append(ops, [op |-> "add", kind |-> k, ontop |-> top, sel |-> SelRender(Selections[s]), desc |-> DescStr(dsc),
                                   pages |-> SelAsc(PagesOf(s)), fails |-> FALSE, w |-> SelAsc(W \cup PagesOf(s))])
            /\ W' = W \cup PagesOf(s)
       /\ UNCHANGED <<pat, fanout, phase>>

RemoveStep(s) ==
  LET hit == W \cap PagesOf(s) IN
  /\ ops' = Append(ops, [op |-> "remove", kind |-> "", ontop |-> FALSE, sel |-> SelRender(Selections[s]), desc |-> "",
                         pages |-> SelAsc(PagesOf(s)), fails |-> (hit = {}), w |-> SelAsc(W \ PagesOf(s))])
  /\ W' = W \ PagesOf(s)

Remove1 == /\ phase = "add" /\ Adds >= 1
           /\ \E s \in SelsR : RemoveStep(s) /\ phase' = (IF s = 1 THEN "done" ELSE "rest")
           /\ UNCHANGED <<pat, fanout>>
(* whatever the first removal left is removed by a removal without selection *)
Remove2 == /\ phase = "rest"
           /\ RemoveStep(1) /\ phase' = "done"
           /\ UNCHANGED <<pat, fanout>>

Next == Add \/ Remove1 \/ Remove2
Spec == Init /\ [][Next]_vars

---------------------------------------------------------------------------
(* design properties *)
WInRange  == W \subseteq AllPages
CleanEnd  == phase = "done" => W = {}
LastRemoveSound == phase = "done" => \E i \in 1..Len(ops) : ops[i].op = "remove" /\ ~ops[i].fails

Case == [np |-> NPages, fanout |-> fanout, streams |-> SubSeq(StreamPatterns[pat], 1, NPages), ops |-> ops]
EmitCase == Emit /\ phase = "done" => PrintT(<<"WM", ToJson(Case)>>)
=============================================================================
