-------------------------------- MODULE Txn --------------------------------
(* Protocol specification of pdfcpu's batch installs (pkg/font/install.go       *)
(* installTrueTypeCollectionResults / commitCollectionFonts /                    *)
(* rollbackCollectionFonts; pkg/api/font.go uses the same scheme for a batch of  *)
(* font files): every member is first written into a hidden staging directory,  *)
(* then published one by one - an existing target is moved into a hidden backup  *)
(* directory first - and a failure rolls the published members back in reverse   *)
(* order.  One action per file-system call (directory syncs are one step).       *)
(* Environment: up to MaxFaults calls fail.                                      *)
EXTENDS Integers, Sequences, FiniteSets, TLC

CONSTANTS N,          \* number of members of the batch
          Pre,        \* the members whose target exists beforehand (subset of 1..N)
          MaxFaults,
          Variant     \* "asis" the code; two plausible slips for showing that the invariants bite:
                      \* "nobackup" publishes over an existing target; "listlate" puts a member on the rollback list once it is published

Files == 1..N

VARIABLES pc,        \* control state
          i,         \* member being staged / committed / rolled back
          tgt,       \* tgt[f]: "absent" | "old" | "new"    content of the target path
          bak,       \* bak[f]: the old content of f sits in the backup directory
          stg,       \* stg[f]: the new content of f sits in the staging directory
          committed, hadOrig,    \* the bookkeeping of commitCollectionFonts
          listed,    \* number of members appended to the rollback list
          stageDir, backupDir,   \* "none" | "present"
          err,       \* the operation fails
          installed, \* the batch was published (later failures are warnings)
          warn,      \* a warning was reported
          rbFailed,  \* a step of the rollback (or a cleanup whose failure is reported) failed
          faults
vars == <<pc, i, tgt, bak, stg, committed, hadOrig, listed, stageDir, backupDir, err, installed, warn, rbFailed, faults>>

Init0(f) == IF f \in Pre THEN "old" ELSE "absent"
Init == /\ pc = "mkstage" /\ i = 1
        /\ tgt = [f \in Files |-> Init0(f)] /\ bak = [f \in Files |-> FALSE] /\ stg = [f \in Files |-> FALSE]
        /\ committed = [f \in Files |-> FALSE] /\ hadOrig = [f \in Files |-> FALSE] /\ listed = 0
        /\ stageDir = "none" /\ backupDir = "none"
        /\ err = FALSE /\ installed = FALSE /\ warn = FALSE /\ rbFailed = FALSE /\ faults = 0

CanFault == faults < MaxFaults
Fault == CanFault /\ faults' = faults + 1
NoFault == UNCHANGED faults

----------------------------------------------------------------------------
(* staging *)
MkStage ==
  /\ pc = "mkstage"
  /\ \/ NoFault /\ stageDir' = "present" /\ pc' = "stage" /\ UNCHANGED err
     \/ Fault /\ err' = TRUE /\ pc' = "done" /\ UNCHANGED stageDir
  /\ UNCHANGED <<i, tgt, bak, stg, committed, hadOrig, listed, backupDir, installed, warn, rbFailed>>

(* a member is written durably into the staging directory (temp file, fsync, rename, directory sync): one step here,     *)
(* the single-file protocol is Staged.tla's business; a failure leaves at most hidden temp files inside the staging dir *)
Stage ==
  /\ pc = "stage"
  /\ \/ i <= N /\ NoFault /\ stg' = [stg EXCEPT ![i] = TRUE] /\ i' = i + 1 /\ UNCHANGED <<pc, err>>
     \/ Fault /\ err' = TRUE /\ pc' = "rmstage" /\ UNCHANGED <<stg, i>>     \* also while tidying up after the last member
  /\ UNCHANGED <<tgt, bak, committed, hadOrig, listed, stageDir, backupDir, installed, warn, rbFailed>>
StageDone ==
  /\ pc = "stage" /\ i = N + 1 /\ pc' = "closein"
  /\ UNCHANGED <<i, tgt, bak, stg, committed, hadOrig, listed, stageDir, backupDir, err, installed, warn, rbFailed, faults>>
CloseIn ==
  /\ pc = "closein"
  /\ \/ NoFault /\ pc' = "mkbackup" /\ UNCHANGED err
     \/ Fault /\ err' = TRUE /\ pc' = "rmstage"
  /\ UNCHANGED <<i, tgt, bak, stg, committed, hadOrig, listed, stageDir, backupDir, installed, warn, rbFailed>>

----------------------------------------------------------------------------
(* commit *)
MkBackup ==
  /\ pc = "mkbackup"
  /\ \/ NoFault /\ backupDir' = "present" /\ pc' = "lstat" /\ i' = 1 /\ UNCHANGED err
     \/ Fault /\ err' = TRUE /\ pc' = "rmstage" /\ UNCHANGED <<backupDir, i>>
  /\ UNCHANGED <<tgt, bak, stg, committed, hadOrig, listed, stageDir, installed, warn, rbFailed>>

StartRollback == pc' = "rb_remove" /\ err' = TRUE

Lstat ==
  /\ pc = "lstat" /\ i <= N
  /\ listed' = (IF Variant = "listlate" THEN listed ELSE i)   \* the member is on the rollback list before anything happens to it
  /\ \/ NoFault /\ pc' = (IF tgt[i] = "absent" \/ Variant = "nobackup" THEN "publish" ELSE "backup") /\ UNCHANGED err
     \/ Fault /\ StartRollback
  /\ UNCHANGED <<i, tgt, bak, stg, committed, hadOrig, stageDir, backupDir, installed, warn, rbFailed>>
Backup ==
  /\ pc = "backup"
  /\ \/ NoFault /\ tgt' = [tgt EXCEPT ![i] = "absent"] /\ bak' = [bak EXCEPT ![i] = TRUE]
        /\ hadOrig' = [hadOrig EXCEPT ![i] = TRUE] /\ pc' = "backupsync" /\ UNCHANGED err
     \/ Fault /\ StartRollback /\ UNCHANGED <<tgt, bak, hadOrig>>
  /\ UNCHANGED <<i, stg, committed, listed, stageDir, backupDir, installed, warn, rbFailed>>
BackupSync ==
  /\ pc = "backupsync"
  /\ \/ NoFault /\ pc' = "publish" /\ UNCHANGED err
     \/ Fault /\ StartRollback
  /\ UNCHANGED <<i, tgt, bak, stg, committed, hadOrig, listed, stageDir, backupDir, installed, warn, rbFailed>>
Publish ==
  /\ pc = "publish"
  /\ \/ NoFault /\ tgt' = [tgt EXCEPT ![i] = "new"] /\ stg' = [stg EXCEPT ![i] = FALSE]
        /\ committed' = [committed EXCEPT ![i] = TRUE] /\ pc' = "publishsync" /\ UNCHANGED err
        /\ listed' = (IF Variant = "listlate" THEN i ELSE listed)
     \/ Fault /\ StartRollback /\ UNCHANGED <<tgt, stg, committed, listed>>
  /\ UNCHANGED <<i, bak, hadOrig, stageDir, backupDir, installed, warn, rbFailed>>
PublishSync ==
  /\ pc = "publishsync"
  /\ \/ NoFault /\ UNCHANGED err /\ IF i = N THEN pc' = "fin_rmbackup" /\ UNCHANGED i ELSE pc' = "lstat" /\ i' = i + 1
     \/ Fault /\ StartRollback /\ UNCHANGED i
  /\ UNCHANGED <<tgt, bak, stg, committed, hadOrig, listed, stageDir, backupDir, installed, warn, rbFailed>>

(* all members are published: the backup is dropped; failures from here on are warnings *)
FinRmBackup ==
  /\ pc = "fin_rmbackup"
  /\ \/ NoFault /\ backupDir' = "none" /\ bak' = [f \in Files |-> FALSE] /\ pc' = "fin_sync" /\ UNCHANGED warn
     \/ Fault /\ warn' = TRUE /\ pc' = "installed" /\ UNCHANGED <<backupDir, bak>>
  /\ UNCHANGED <<i, tgt, stg, committed, hadOrig, listed, stageDir, err, installed, rbFailed>>
FinSync ==
  /\ pc = "fin_sync" /\ pc' = "installed"
  /\ \/ NoFault /\ UNCHANGED warn
     \/ Fault /\ warn' = TRUE
  /\ UNCHANGED <<i, tgt, bak, stg, committed, hadOrig, listed, stageDir, backupDir, err, installed, rbFailed>>
Installed ==
  /\ pc = "installed" /\ installed' = TRUE /\ pc' = "rmstage"
  /\ UNCHANGED <<i, tgt, bak, stg, committed, hadOrig, listed, stageDir, backupDir, err, warn, rbFailed, faults>>

----------------------------------------------------------------------------
(* rollback: the listed members in reverse order *)
RbRemove ==
  /\ pc = "rb_remove"
  /\ IF listed = 0 THEN pc' = "rb_sync" /\ UNCHANGED <<tgt, rbFailed, faults>>
     ELSE /\ pc' = "rb_restore"
          /\ IF committed[listed]
             THEN \/ NoFault /\ tgt' = [tgt EXCEPT ![listed] = "absent"] /\ UNCHANGED rbFailed
                  \/ Fault /\ rbFailed' = TRUE /\ UNCHANGED tgt
             ELSE UNCHANGED <<tgt, rbFailed, faults>>
  /\ UNCHANGED <<i, bak, stg, committed, hadOrig, listed, stageDir, backupDir, err, installed, warn>>
RbRestore ==
  /\ pc = "rb_restore" /\ pc' = "rb_remove" /\ listed' = listed - 1
  /\ IF hadOrig[listed]
     THEN \/ NoFault /\ tgt' = [tgt EXCEPT ![listed] = "old"] /\ bak' = [bak EXCEPT ![listed] = FALSE] /\ UNCHANGED rbFailed
          \/ Fault /\ rbFailed' = TRUE /\ UNCHANGED <<tgt, bak>>
     ELSE UNCHANGED <<tgt, bak, rbFailed, faults>>
  /\ UNCHANGED <<i, stg, committed, hadOrig, stageDir, backupDir, err, installed, warn>>
RbSync ==
  /\ pc = "rb_sync"
  /\ \/ NoFault /\ UNCHANGED rbFailed
     \/ Fault /\ rbFailed' = TRUE
  /\ pc' = (IF rbFailed' THEN "rmstage" ELSE "rb_rmbackup")      \* "font backup retained at ..."
  /\ UNCHANGED <<i, tgt, bak, stg, committed, hadOrig, listed, stageDir, backupDir, err, installed, warn>>
RbRmBackup ==
  /\ pc = "rb_rmbackup"
  /\ \/ NoFault /\ backupDir' = "none" /\ pc' = "rb_finsync" /\ UNCHANGED rbFailed
     \/ Fault /\ rbFailed' = TRUE /\ pc' = "rmstage" /\ UNCHANGED backupDir
  /\ UNCHANGED <<i, tgt, bak, stg, committed, hadOrig, listed, stageDir, err, installed, warn>>
RbFinSync ==
  /\ pc = "rb_finsync" /\ pc' = "rmstage"
  /\ \/ NoFault /\ UNCHANGED rbFailed
     \/ Fault /\ rbFailed' = TRUE
  /\ UNCHANGED <<i, tgt, bak, stg, committed, hadOrig, listed, stageDir, backupDir, err, installed, warn>>

(* deferred: the staging directory goes in every case *)
RmStage ==
  /\ pc = "rmstage" /\ pc' = "done"
  /\ \/ NoFault /\ stageDir' = "none" /\ stg' = [f \in Files |-> FALSE] /\ UNCHANGED <<warn, rbFailed>>
     \/ Fault /\ UNCHANGED <<stageDir, stg>>
        /\ IF installed THEN warn' = TRUE /\ UNCHANGED rbFailed ELSE rbFailed' = TRUE /\ UNCHANGED warn
  /\ UNCHANGED <<i, tgt, bak, committed, hadOrig, listed, backupDir, err, installed>>

Next == MkStage \/ Stage \/ StageDone \/ CloseIn \/ MkBackup \/ Lstat \/ Backup \/ BackupSync \/ Publish \/ PublishSync
        \/ FinRmBackup \/ FinSync \/ Installed \/ RbRemove \/ RbRestore \/ RbSync \/ RbRmBackup \/ RbFinSync \/ RmStage
Spec == Init /\ [][Next]_vars /\ WF_vars(Next)

----------------------------------------------------------------------------
Done == pc = "done"
TypeOK == /\ tgt \in [Files -> {"absent", "old", "new"}] /\ bak \in [Files -> BOOLEAN] /\ stg \in [Files -> BOOLEAN]
          /\ listed \in 0..N /\ faults \in 0..MaxFaults /\ stageDir \in {"none", "present"} /\ backupDir \in {"none", "present"}
(* C06: a failed batch leaves every target as it was and no hidden directory - unless a rollback / cleanup step itself failed (reported) *)
AllOrNothing == Done /\ err /\ ~rbFailed => /\ \A f \in Files : tgt[f] = Init0(f)
                                            /\ stageDir = "none" /\ backupDir = "none"
(* C06: a successful batch publishes every member; leftovers only with a warning *)
AllPublished == Done /\ ~err => /\ installed /\ \A f \in Files : tgt[f] = "new"
                                /\ (stageDir = "present" \/ backupDir = "present" => warn)
(* a failing operation never reports success and vice versa *)
ErrXorInstalled == Done => (err # installed)
(* C02 for batches: at every point (= every crash point) the previous content of an existing target is at its path or in the backup *)
NeverLost == \A f \in Pre : tgt[f] = "old" \/ bak[f] \/ (~err /\ \A g \in Files : tgt[g] = "new")
(* the backup directory exists whenever something is in it *)
BackupHoused == (\E f \in Files : bak[f]) => backupDir = "present"
(* a target never holds anything but its old or the complete new content *)
Terminates == <>Done
=============================================================================
