------------------------------- MODULE LexDate -------------------------------
(* C14 case generation: local times [y, mo, d, h, mi, s, off] (off = minutes east *)
(* of UT) to be written by the real DateString and parsed back strictly.          *)
(*   Years x DayClasses x Offs x time of day {seeded hash, and for EdgeTods (and   *)
(*   always for the years 0, 2024, 9999) also 00:00:00 and 23:59:59};  FullYears: every day of the year x FullOffs;        *)
(*   AllOffs: every whole-minute offset in -1439..1439 for one date.              *)
EXTENDS Lex, TLC, Json
CONSTANTS YearLo, YearHi, ExtraYears, FullYears, AllOffs, EdgeTods, Seed
VARIABLE c

Years == (YearLo..YearHi) \cup ExtraYears
Offs == {0, 1, -1, 30, -30, 59, -59, 60, -60, 330, -330, 720, -720, 840, -840, 1439, -1439}
FullOffs == {0, -570}
DayClasses(y) == {<<1, 1>>, <<2, 28>>, <<3, 1>>, <<6, 30>>, <<10, 15>>, <<12, 31>>} \cup (IF IsLeap(y) THEN {<<2, 29>>} ELSE {})
AllDays(y) == {<<m, d>> : m \in 1..12, d \in 1..31} \cap {md \in (1..12) \X (1..31) : md[2] <= DaysInMonth(y, md[1])}

Hash(y, md, o) == (y * 7919 + (md[1] * 100 + md[2]) * 104729 + (o + 1440) * 613 + (Seed % 10007) * 8191) % 86400
Mk(y, md, o, t) == [y |-> y, mo |-> md[1], d |-> md[2], h |-> t \div 3600, mi |-> (t \div 60) % 60, s |-> t % 60, off |-> o]
Tods(y, md, o) == {Hash(y, md, o)} \cup (IF EdgeTods \/ y \in {0, 2024, 9999} THEN {0, 86399} ELSE {})

Init == \/ \E y \in Years : \E md \in DayClasses(y) : \E o \in Offs : \E t \in Tods(y, md, o) : c = Mk(y, md, o, t)
        \/ \E y \in FullYears : \E md \in AllDays(y) : \E o \in FullOffs : c = Mk(y, md, o, Hash(y, md, o))
        \/ AllOffs /\ \E o \in -1439..1439 : c = Mk(2024, <<2, 29>>, o, Hash(2024, <<2, 29>>, o))
Next == FALSE /\ UNCHANGED c
Spec == Init /\ [][Next]_c

(* design checks of the reference calendar arithmetic *)
D2(n) == <<48 + (n \div 10), 48 + (n % 10)>>
RefDate == <<68, 58>> \o D2(c.y \div 100) \o D2(c.y % 100) \o D2(c.mo) \o D2(c.d) \o D2(c.h) \o D2(c.mi) \o D2(c.s)
             \o <<(IF c.off < 0 THEN 45 ELSE 43)>> \o D2(Abs(c.off) \div 60) \o <<39>> \o D2(Abs(c.off) % 60)
RefValid == ValidISODate(RefDate) /\ DateFields(RefDate) = c /\ ValidISODate(RefDate \o <<39>>)
CalendarOK ==
  /\ DaysFromCivil(1970, 1, 1) = 0 /\ DaysFromCivil(2000, 3, 1) = 11017 /\ DaysFromCivil(0, 1, 1) = -719528
  /\ c.d < DaysInMonth(c.y, c.mo) => DaysFromCivil(c.y, c.mo, c.d + 1) = DaysFromCivil(c.y, c.mo, c.d) + 1
  /\ (c.d = DaysInMonth(c.y, c.mo) /\ c.mo < 12) => DaysFromCivil(c.y, c.mo + 1, 1) = DaysFromCivil(c.y, c.mo, c.d) + 1
  /\ (c.mo = 12 /\ c.d = 31) => DaysFromCivil(c.y + 1, 1, 1) = DaysFromCivil(c.y, 12, 31) + 1
  /\ Instant(c)[2] \in 0..86399
EmitCase == PrintT(<<"CASE", ToJson(c)>>)
=============================================================================
