------------------------------- MODULE LexDate -------------------------------
(* C14 case generation: local times [y, mo, d, h, mi, s, off] (off = minutes east *)
(* of UT) to be written by the real DateString and parsed back strictly.          *)
(*   Years x DayClasses x Offs x time of day {seeded hash, and for EdgeTods (and   *)
(*   always for the years 0, 2024, 9999) also 00:00:00 and 23:59:59};  FullYears: every day of the year x FullOffs;        *)
(*   AllOffs: every whole-minute offset in -1439..1439 for one date.              *)
(*   Boundary instants (Instants): the zero time 0001-01-01T00:00:00Z and its      *)
(*   neighbours, the first/last second of the year range, the Unix epoch - each    *)
(*   expressed in every offset of Offs that keeps the local year in 0..9999.       *)
(*   Histories (HistLen > 0): sequences of DateString calls made by ONE process,   *)
(*   over calls = zone names x offsets (the same name with different offsets,      *)
(*   different names with the same offset, the empty name); every call of a        *)
(*   history is judged on its own.                                                 *)
(* A call is [y, mo, d, h, mi, s, off, zn, e2e]: zn = the zone name of the time's   *)
(* location, e2e = the time is also stored as modification date of an attachment   *)
(* in a real PDF and listed back.  A state is a call or [hist |-> <<calls>>].       *)
EXTENDS Lex, TLC, Json
CONSTANTS YearLo, YearHi, ExtraYears, FullYears, AllOffs, EdgeTods, Seed, E2EYears, HistLen, HistN
VARIABLE c

Years == (YearLo..YearHi) \cup ExtraYears
Offs == {0, 1, -1, 30, -30, 59, -59, 60, -60, 330, -330, 720, -720, 840, -840, 1439, -1439}
FullOffs == {0, -570}
DayClasses(y) == {<<1, 1>>, <<2, 28>>, <<3, 1>>, <<6, 30>>, <<10, 15>>, <<12, 31>>} \cup (IF IsLeap(y) THEN {<<2, 29>>} ELSE {})
AllDays(y) == {<<m, d>> : m \in 1..12, d \in 1..31} \cap {md \in (1..12) \X (1..31) : md[2] <= DaysInMonth(y, md[1])}

Hash(y, md, o) == (y * 7919 + (md[1] * 100 + md[2]) * 104729 + (o + 1440) * 613 + (Seed % 10007) * 8191) % 86400
MkZ(y, md, o, t, zn, e2e) == [y |-> y, mo |-> md[1], d |-> md[2], h |-> t \div 3600, mi |-> (t \div 60) % 60, s |-> t % 60, off |-> o,
                             zn |-> zn, e2e |-> e2e]
Mk(y, md, o, t) == MkZ(y, md, o, t, "", y \in E2EYears)

(* ---- boundary instants, given in UT as <<y, mo, d, second of day>> *)
Instants == { <<1, 1, 1, 0>>, <<1, 1, 1, 1>>, <<0, 12, 31, 86399>>, <<0, 1, 1, 0>>, <<9999, 12, 31, 86399>>,
              <<1970, 1, 1, 0>>, <<1969, 12, 31, 86399>>, <<2000, 1, 1, 0>> }
NextDay(y, mo, d) == IF d < DaysInMonth(y, mo) THEN <<y, mo, d + 1>> ELSE IF mo < 12 THEN <<y, mo + 1, 1>> ELSE <<y + 1, 1, 1>>
PrevDay(y, mo, d) == IF d > 1 THEN <<y, mo, d - 1>> ELSE IF mo > 1 THEN <<y, mo - 1, DaysInMonth(y, mo - 1)>> ELSE <<y - 1, 12, 31>>
(* the local calendar fields of the UT instant u in offset o (|o| < 1440: at most one day away) *)
LocalOf(u, o) ==
  LET tt == u[4] + o * 60
      dd == IF tt < 0 THEN PrevDay(u[1], u[2], u[3]) ELSE IF tt >= 86400 THEN NextDay(u[1], u[2], u[3]) ELSE <<u[1], u[2], u[3]>>
      t  == IF tt < 0 THEN tt + 86400 ELSE IF tt >= 86400 THEN tt - 86400 ELSE tt
  IN MkZ(dd[1], <<dd[2], dd[3]>>, o, t, "", TRUE)
ASSUME \A u \in Instants, o \in {0, 1, -1, 330, -330, 840, -840, 1439, -1439} :
         Instant(LocalOf(u, o)) = <<DaysFromCivil(u[1], u[2], u[3]), u[4]>>

(* ---- histories of calls made by one process *)
ZoneNames == <<"", "CST", "IST", "UTC">>
HistOffs == <<480, -360, 330, 0, 60>>
HCalls == {MkZ(2024, <<2, 29>>, HistOffs[o], Hash(2024, <<2, 29>>, HistOffs[o]), ZoneNames[z], FALSE) : z \in 1..(IF HistN >= 20 THEN 4 ELSE 3),
                                                                                                   o \in 1..(IF HistN >= 20 THEN 5 ELSE 4)}

Tods(y, md, o) == {Hash(y, md, o)} \cup (IF EdgeTods \/ y \in {0, 2024, 9999} THEN {0, 86399} ELSE {})

Init == \/ \E y \in Years : \E md \in DayClasses(y) : \E o \in Offs : \E t \in Tods(y, md, o) : c = Mk(y, md, o, t)
        \/ \E y \in FullYears : \E md \in AllDays(y) : \E o \in FullOffs : c = Mk(y, md, o, Hash(y, md, o))
        \/ AllOffs /\ \E o \in -1439..1439 : c = Mk(2024, <<2, 29>>, o, Hash(2024, <<2, 29>>, o))
        \/ AllOffs /\ \E u \in Instants : \E o \in Offs : LocalOf(u, o).y \in 0..9999 /\ c = LocalOf(u, o)
        \/ \E n \in 2..HistLen : \E hh \in [1..n -> HCalls] : c = [hist |-> hh]
Next == FALSE /\ UNCHANGED c
Spec == Init /\ [][Next]_c

(* design checks of the reference calendar arithmetic *)
D2(n) == <<48 + (n \div 10), 48 + (n % 10)>>
Calls == IF "hist" \in DOMAIN c THEN c.hist ELSE <<c>>
RefDateOf(x) == <<68, 58>> \o D2(x.y \div 100) \o D2(x.y % 100) \o D2(x.mo) \o D2(x.d) \o D2(x.h) \o D2(x.mi) \o D2(x.s)
             \o <<(IF x.off < 0 THEN 45 ELSE 43)>> \o D2(Abs(x.off) \div 60) \o <<39>> \o D2(Abs(x.off) % 60)
Plain(x) == [y |-> x.y, mo |-> x.mo, d |-> x.d, h |-> x.h, mi |-> x.mi, s |-> x.s, off |-> x.off]
RefValid == \A i \in 1..Len(Calls) : LET x == Calls[i] RefDate == RefDateOf(x) IN
              ValidISODate(RefDate) /\ DateFields(RefDate) = Plain(x) /\ ValidISODate(RefDate \o <<39>>)
CalOK(x) ==
  /\ DaysFromCivil(1970, 1, 1) = 0 /\ DaysFromCivil(2000, 3, 1) = 11017 /\ DaysFromCivil(0, 1, 1) = -719528
  /\ x.d < DaysInMonth(x.y, x.mo) => DaysFromCivil(x.y, x.mo, x.d + 1) = DaysFromCivil(x.y, x.mo, x.d) + 1
  /\ (x.d = DaysInMonth(x.y, x.mo) /\ x.mo < 12) => DaysFromCivil(x.y, x.mo + 1, 1) = DaysFromCivil(x.y, x.mo, x.d) + 1
  /\ (x.mo = 12 /\ x.d = 31) => DaysFromCivil(x.y + 1, 1, 1) = DaysFromCivil(x.y, 12, 31) + 1
  /\ Instant(x)[2] \in 0..86399
CalendarOK == \A i \in 1..Len(Calls) : CalOK(Calls[i])
EmitCase == PrintT(<<"CASE", ToJson(c)>>)
=============================================================================
