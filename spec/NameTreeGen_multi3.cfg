SPECIFICATION Spec
CONSTANTS
  NB = 4
  OpKinds = {"add", "addu", "addx", "rem", "sync"}
  MaxLen = 3
  MaxLevel = 6
  Inits = {"two", "deep", "wide"}
  Patterns = {"rand"}
  Keeps = {TRUE, FALSE}
  Emit = "state"
INVARIANTS EmitCase
