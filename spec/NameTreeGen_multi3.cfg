SPECIFICATION Spec
CONSTANTS
  NB = 4
  OpKinds = {"add", "addu", "rem"}
  MaxLen = 3
  MaxLevel = 6
  Inits = {"two", "deep", "wide"}
  Patterns = {"rand"}
  Emit = "state"
INVARIANTS EmitCase
