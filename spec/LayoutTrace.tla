---------------------------- MODULE LayoutTrace ----------------------------
(* Judges layout records produced by the strict parser from files written by the real   *)
(* pdfcpu writer (harness/cmd/cstruct layout) with Layout!WellFormedFile.  Every record *)
(* is judged; the defects of a rejected record are printed as a DEFECT payload.         *)
EXTENDS Layout, Json, TLC
Trace == ndJsonDeserialize("records.ndjson")
VARIABLE l
Init == l = 1
Next == l <= Len(Trace) /\ l' = l + 1
Spec == Init /\ [][Next]_l
RecordJudged ==
  l <= Len(Trace) =>
    LET d == Defects(Trace[l]) IN
    d = {} \/ PrintT(<<"DEFECT", ToJson([l |-> l, id |-> Trace[l].id, defects |-> d])>>)
TraceAccepted == TLCGet("stats").diameter = Len(Trace) + 1
=============================================================================
