SPECIFICATION Spec
CONSTANTS
  Prop = "C15"
  Tier = "quick"
INVARIANTS CaseOK EmitCase
CHECK_DEADLOCK FALSE
