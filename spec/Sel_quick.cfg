SPECIFICATION Spec
CONSTANTS
  PCs = {0,1,2,3}
  Nums = {0,1,2,3,4}
  NumsLast = {0,2,4}
  MaxFull = 2
  MaxTerms = 2
  Emit = TRUE
INVARIANTS InRange Partition LastWins EmitCase
