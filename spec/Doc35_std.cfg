SPECIFICATION Spec
CONSTANTS
  Mode = "bfs"
  Fams = {"prop"}
  MaxLen = 2
  Mix = 2
  Bases = {"bare"}
  DeepBases = {"bare"}
  Std = TRUE
  Emit = TRUE
INVARIANTS TypeOK Isolated EmitCase
