SPECIFICATION Spec
CONSTANTS
  NPhases = 3
  MaxIter = 3
  UnitOps = 3
  OpenOpsM = 2
  Unchecked = {}
  Emit = TRUE
INVARIANTS TypeOK KindOK DocIffDone CtxErrOnlyIfCancelled PreCancelled Bounded EmitClass
PROPERTY Terminates
