------------------------------ MODULE NetTrace ------------------------------
(* C30: judges records produced by the REAL pdfcpu fetch guards               *)
(* (harness/inpkg/pkg/pdfcpu/{sign,primitives}/verif_net_test.go).            *)
(*                                                                           *)
(* records.json holds flow records (one guarded fetch including its         *)
(* redirects: the requests that reached the transport, every connect attempt *)
(* a dial guard let through, the inspected client object) and probe records  *)
(* (the decision of the dial guard installed in the real client object for   *)
(* one host / resolver answer).  Every predicate is recomputed here from the *)
(* logged bytes (address bytes, host-name bytes, allow-list bytes); no       *)
(* classification made by Go is trusted.                                     *)
EXTENDS NetAddr, Json, TLC

CONSTANT Chunk              \* records judged per step (TLC's cost per BFS level dominates for long traces)
\* element 1 is the string table [t |-> "tab", strs |-> <<byte sequences>>]: records name hosts / allow-list entries by
\* their index in it; the records proper start at element 2
File == JsonDeserialize("records.json")     \* one JSON array: ndJsonDeserialize costs ~2 ms per line
Str(i) == File[1].strs[i]
Strs(is) == [j \in 1..Len(is) |-> Str(is[j])]
Trace == Tail(File)
NChunks == (Len(Trace) + Chunk - 1) \div Chunk
VARIABLE l                  \* number of the chunk being judged
Init == l = 1
Next == l <= NChunks /\ l' = l + 1
Spec == Init /\ [][Next]_l
IdxOf(n) == IF l <= NChunks THEN { k \in ((l - 1) * Chunk + 1)..(l * Chunk) : k <= n } ELSE {}

Rev == {"crl", "ocsp"}
MaxRevRequests == 11        \* at most 10 redirects

\* a connect attempt may go to a public address, or - for revocation checks only - to a host of the allow-list
AddrOK(r, host, ip) ==
  /\ WellFormedAddr(ip)
  /\ Public(ip) \/ (r.kind \in Rev /\ AllowListed(Str(host), Strs(r.allow)))

ConnAddrOK(r, c) == AddrOK(r, c.dialhost, c.ip)
\* ... on behalf of a request whose URL is http(s) without credentials, dialled for that URL's own host (no proxy),
\* and redirects are held to the same rules (every request of the chain is judged, whatever its position)
ConnURLOK(r, c) ==
  /\ c.hop \in 1..Len(r.hops)
  /\ LET h == r.hops[c.hop] IN
       /\ h.scheme \in {"http", "https"}
       /\ ~h.cred /\ ~h.auth
       /\ SameHost(Str(c.dialhost), Str(h.host))
  /\ r.kind \in Rev => c.hop <= MaxRevRequests

FlowAddrOK   == LET T == Trace IN \A k \in IdxOf(Len(T)) : T[k].t = "flow" =>
                  LET r == T[k] IN \A i \in 1..Len(r.conns) : ConnAddrOK(r, r.conns[i])
FlowURLOK    == LET T == Trace IN \A k \in IdxOf(Len(T)) : T[k].t = "flow" =>
                  LET r == T[k] IN \A i \in 1..Len(r.conns) : ConnURLOK(r, r.conns[i])
FlowClientOK == LET T == Trace IN \A k \in IdxOf(Len(T)) : T[k].t = "flow" =>
                  LET c == T[k].client IN c.proxy_nil /\ c.check_redirect /\ c.dial_guard

\* probe: a guard that lets the dial go ahead has accepted every address it then tries (the first `tried` ones)
ProbeOK == LET T == Trace IN \A k \in IdxOf(Len(T)) : T[k].t = "probe" =>
  LET r == T[k] IN
  r.permit => /\ r.tried <= Len(r.resolved)
              /\ \A i \in 1..r.tried : AddrOK(r, r.host, r.resolved[i])

TraceAccepted == TLCGet("stats").diameter = NChunks + 1
=============================================================================
