--------------------------------------------- MODULE ConcModel ---------------------------------------------
(* C40 - the SEQUENTIAL model of the user-font cache behind pdfcpu's API (pkg/font/metrics.go).                 *)
(*                                                                                                              *)
(* Abstract state:  dir   = generation currently installed in the user-font directory,                          *)
(*                  cache = generation held by the in-memory map userFontMetrics, NoGen before the first load.  *)
(* Atomic abstract operations (each concrete call must appear to take effect at ONE point between its call and  *)
(* its return; a lookup is  Load ; Read  = two such points in this order, as the code calls LoadUserFonts() and  *)
(* then reads under the read lock):                                                                             *)
(*   SetDir(g)  the user replaces the directory content                (harness, not pdfcpu)                    *)
(*   Load       LoadUserFonts():    IF cache = NoGen THEN cache := dir  (sync.Once)                             *)
(*   Reload     ReloadUserFonts():  cache := dir                                                                *)
(*   Read       UserFontNames / UserFont / IsUserFont: a function of Fonts(cache) only                          *)
(* This module is EXTENDed by Conc.tla (design model, refinement target) and ConcTrace.tla (judge of recorded    *)
(* histories of the real code).                                                                                 *)
EXTENDS Integers, FiniteSets

NoGen == -1

SeqState(dir, cache) == [dir |-> dir, cache |-> cache]

SetDirOp(s, g) == [s EXCEPT !.dir = g]
LoadOp(s)      == IF s.cache = NoGen THEN [s EXCEPT !.cache = s.dir] ELSE s
ReloadOp(s)    == [s EXCEPT !.cache = s.dir]

(* What a read returns in abstract state s, given the generation table Fonts (generation -> set of fonts).     *)
Loaded(s)            == s.cache # NoGen
NamesOf(s, Fonts)    == Fonts[s.cache]
HasFont(s, Fonts, f) == f \in Fonts[s.cache]

(* A set of fonts is COMPLETE iff it is exactly the content of some generation (never a partially filled map). *)
Complete(obs, Fonts) == \E g \in DOMAIN Fonts : obs = Fonts[g]
=================================================================================================================
