SPECIFICATION Spec
CONSTANTS
  NB = 5
  OpKinds = {"add", "addu", "rem"}
  MaxLen = 3
  MaxLevel = 6
  Inits = {"one"}
  Patterns = {"rand"}
  Emit = "state"
INVARIANTS EmitCase
