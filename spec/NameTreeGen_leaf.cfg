SPECIFICATION Spec
CONSTANTS
  NB = 3
  OpKinds = {"add", "addu", "rem", "sync"}
  MaxLen = 3
  MaxLevel = 6
  Inits = {"one", "split"}
  Patterns = {"rand"}
  Emit = "state"
INVARIANTS EmitCase
