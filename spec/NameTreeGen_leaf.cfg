SPECIFICATION Spec
CONSTANTS
  NB = 3
  OpKinds = {"addu", "rem", "sync"}
  MaxLen = 3
  MaxLevel = 6
  Inits = {"one", "split"}
  Patterns = {"rand"}
  Keeps = {TRUE, FALSE}
  Emit = "state"
INVARIANTS EmitCase
