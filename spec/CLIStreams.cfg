SPECIFICATION Spec
INVARIANTS FailuresNeverSucceed EmitCase
