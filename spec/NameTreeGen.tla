----------------------------- MODULE NameTreeGen -----------------------------
(* Generates insert/remove histories with the expected map after every step.                          *)
(* op = [op |-> "add" | "addu" | "rem", k |-> code]; for "addu" k is the level-0 code of the base.      *)
(* The value inserted by step i is 1000 + i; initial entries have value = key code.                    *)
EXTENDS NameTree, Json
CONSTANTS NB,        \* bases 1..NB
          OpKinds,   \* subset of {"add", "addu", "addx", "rem", "sync"}; "sync" = persist the document and continue on the
                     \* re-read tree; "addx" = insert a name whose value graph cannot be deleted (removing it fails)
          Keeps,     \* subset of BOOLEAN: does the caller keep (TRUE) or drop (FALSE) a tree that became empty
          MaxLen,    \* history length
          MaxLevel,  \* bound on rename levels
          Inits,     \* initial trees (names in Shapes)
          Patterns,  \* subset of {"rand", "asc", "desc", "zig"}: order in which inserts pick their base
          Emit       \* "leaf": print complete histories with the expectation of every step;
                     \* "state": print every state with the expectation of its last step only (the replayer joins prefixes);
                     \* "off": print nothing

(* initial multi-level trees: L(keys) = leaf holding the key codes, N(kids) = intermediate node *)
L(keys) == [leaf |-> keys]
N(kids) == [kids |-> kids]
Shapes == [ empty |-> L(<<>>),
            one   |-> L(<<32, 48, 64>>),
            split |-> N(<< L(<<16, 32>>), L(<<48, 64>>) >>),          \* what four inserts into an empty tree produce
            two   |-> N(<< L(<<16, 32>>), L(<<33, 48, 64>>), L(<<80, 81>>) >>),
            deep  |-> N(<< N(<< L(<<16>>), L(<<17, 32, 33>>) >>),
                           N(<< L(<<48, 49>>), L(<<50, 64>>), L(<<65, 80, 96>>) >>),
                           N(<< L(<<112, 113, 128, 144>>) >>) >>),
            wide  |-> N(<< L(<<16, 17, 18, 32, 48, 64>>), L(<<65>>), L(<<80, 96, 97, 112>>) >>) ]
RECURSIVE ShapeKeys(_)
ShapeKeys(s) == IF "leaf" \in DOMAIN s THEN s.leaf ELSE FlattenSeq([i \in 1..Len(s.kids) |-> ShapeKeys(s.kids[i])])
InitMap(name) == LET ks == ShapeKeys(Shapes[name]) IN [k \in {ks[i] : i \in 1..Len(ks)} |-> k]

VARIABLES init, pat, keep, pos, hist, m, last      \* hist = sequence of ops, m = abstract map after hist, last = expectation of the last op
vars == <<init, pat, keep, pos, hist, m, last>>

PatBase(p, i) ==   \* base of the i-th insert (i = 0, 1, ...) under pattern p
  LET j == i % NB IN
  CASE p = "asc"  -> j + 1
    [] p = "desc" -> NB - j
    [] p = "zig"  -> IF j % 2 = 0 THEN j \div 2 + 1 ELSE NB - j \div 2
    [] OTHER      -> 0
AddBases == IF pat = "rand" THEN 1..NB ELSE {PatBase(pat, pos)}

(* one abstract step: the map after op o (the i-th op) applied to mm, and the expected observation *)
(* values >= 5000 stand for value graphs whose deletion fails (dangling references): removing such a name in a     *)
(* document context returns an error and must leave the tree as it was                                            *)
Undeletable(v) == v >= 5000
RemFails(mm, o) == o.op = "rem" /\ o.k \in DOMAIN mm /\ Undeletable(mm[o.k])
StepMap(mm, o, i) == CASE o.op = "add"  -> AddPlain(mm, o.k, 1000 + i)
                       [] o.op = "addu" -> AddUniq(mm, BaseOf(o.k), 1000 + i)
                       [] o.op = "addx" -> AddPlain(mm, o.k, 5000 + i)
                       [] o.op = "rem"  -> IF RemFails(mm, o) THEN mm ELSE Del(mm, o.k)
                       [] OTHER         -> mm               \* "sync": writing and re-reading changes nothing
StepExp(mm, o, i) == LET m2 == StepMap(mm, o, i) IN
  [keys |-> SortedKeys(m2), vals |-> ValsOf(m2),
   ok    |-> IF o.op = "rem" THEN o.k \in DOMAIN mm /\ ~RemFails(mm, o) ELSE TRUE,
   empty |-> IF o.op = "rem" THEN o.k \in DOMAIN mm /\ ~RemFails(mm, o) /\ DOMAIN m2 = {} ELSE FALSE,
   fail  |-> RemFails(mm, o),
   rk    |-> IF o.op = "addu" THEN UniqKey(mm, BaseOf(o.k)) ELSE o.k]
RECURSIVE ExpsFrom(_, _, _)
ExpsFrom(mm, h, i) == IF i > Len(h) THEN <<>> ELSE <<StepExp(mm, h[i], i)>> \o ExpsFrom(StepMap(mm, h[i], i), h, i + 1)

Init == init \in Inits /\ pat \in Patterns /\ keep \in Keeps /\ pos = 0 /\ hist = <<>> /\ m = InitMap(init) /\ last = <<>>

Do(o) == hist' = Append(hist, o) /\ m' = StepMap(m, o, Len(hist) + 1) /\ last' = <<StepExp(m, o, Len(hist) + 1)>>
DoAdd  == "add" \in OpKinds /\ pos' = pos + 1 /\ \E b \in AddBases : Do([op |-> "add", k |-> Code(b, 0)])
DoAddU == "addu" \in OpKinds /\ pos' = pos + 1 /\ \E b \in AddBases : HasFree(m, b, MaxLevel) /\ Do([op |-> "addu", k |-> Code(b, 0)])
DoAddX == "addx" \in OpKinds /\ pos' = pos /\ \E b \in 1..NB, l \in 0..1 : Do([op |-> "addx", k |-> Code(b, l)])
DoRem  == "rem" \in OpKinds /\ pos' = pos /\ \E k \in {Code(b, 0) : b \in 1..NB} \cup DOMAIN m : Do([op |-> "rem", k |-> k])
(* persist + reload at any point of the history (never twice in a row) *)
DoSync == "sync" \in OpKinds /\ pos' = pos /\ (IF hist = <<>> THEN TRUE ELSE hist[Len(hist)].op # "sync") /\ Do([op |-> "sync", k |-> 0])
Next == Len(hist) < MaxLen /\ (DoAdd \/ DoAddU \/ DoAddX \/ DoRem \/ DoSync) /\ UNCHANGED <<init, pat, keep>>
Spec == Init /\ [][Next]_vars

(* design properties of the abstract model (evaluated on complete histories) *)
Exps == ExpsFrom(InitMap(init), hist, 1)
Complete == Len(hist) = MaxLen
(* the stepwise expectations end in the map the state carries; expected key lists are strictly increasing *)
ModelOK == Complete => LET e == Exps IN
             /\ Len(e) = Len(hist)
             /\ (e # <<>> => e[Len(e)].keys = SortedKeys(m) /\ e[Len(e)].vals = ValsOf(m))
             /\ \A i \in 1..Len(e) : StrictlyInc(e[i].keys)

(* "state" mode: the expectation carried by the state is the one the stepwise evaluation gives *)
LastOK == Complete /\ hist # <<>> => last = <<Exps[Len(hist)]>>

EmitCase == CASE Emit = "leaf"  -> (Complete => PrintT(<<"CASE", ToJson([init |-> init, pat |-> pat, keep |-> keep, ops |-> hist, exp |-> Exps])>>))
              [] Emit = "state" -> PrintT(<<"CASE", ToJson([init |-> init, pat |-> pat, keep |-> keep, ops |-> hist, exp |-> last])>>)
              [] OTHER          -> TRUE
ASSUME Emit # "off" => PrintT(<<"SHAPES", ToJson(Shapes)>>)
=============================================================================
