----------------------------- MODULE LexTextTrace -----------------------------
(* C13: judges records of the real text string code.                                   *)
(* unit record: EncodeUTF16String / EscapedUTF16String / StringLiteralToString /        *)
(* HexLiteralToString on one text; e2e record: the text stored in and read back from a  *)
(* real PDF (via = property | keyword | bookmark); tag names the syntax-spelling class.  *)
(* Ordered: the records must be exactly the scalar values Base, Base+1, ... in order  *)
(* (completeness of the exhaustive sweep is checked here, not assumed).                 *)
EXTENDS Lex, TLC, Json
CONSTANTS Ordered, Base
Trace == ndJsonDeserialize("records.ndjson")
VARIABLE l
Init == l = 1
Next == l <= Len(Trace) /\ l' = l + 1
Spec == Init /\ [][Next]_l

FailsUnit(r) ==
  (IF r.u16 # TextBytes(r.cps) THEN {"encode"} ELSE {}) \cup
  (IF r.eerr \/ ~EscapeOK(r.esc) \/ RefUnescape(r.esc) # TextBytes(r.cps) THEN {"stored-literal"} ELSE {}) \cup
  (IF r.lerr \/ r.lit # Utf8Bytes(r.cps) THEN {"read-literal"} ELSE {}) \cup
  (IF r.herr \/ r.hx # Utf8Bytes(r.cps) THEN {"read-hex"} ELSE {})
(* e2e text = pre copies of the code point fill, then cps, then post copies of fill; the expected UTF-8 bytes are *)
(* addressed by index so that texts of several KiB are judged in linear time.                                 *)
E2EOk(r) ==
  LET f == Utf8(r.fill)  lf == Len(f)  k == Utf8Bytes(r.cps)  lk == Len(k)  a == r.pre * lf IN
  /\ ~r.gerr
  /\ Len(r.got) = a + lk + r.post * lf
  /\ \A i \in 1..Len(r.got) :
        r.got[i] = (IF i <= a THEN f[((i - 1) % lf) + 1] ELSE IF i <= a + lk THEN k[i - a] ELSE f[((i - a - lk - 1) % lf) + 1])
FailsE2E(r) == IF E2EOk(r) THEN {} ELSE {"e2e"}
Fails(r) == IF r.kind = "unit" THEN FailsUnit(r) ELSE FailsE2E(r)

InOrder == (Ordered /\ l <= Len(Trace)) => Trace[l].kind = "unit" /\ Trace[l].cps = <<NthScalar(Base + l - 1)>>
Judge == l <= Len(Trace) =>
  LET r == Trace[l] f == Fails(r) IN
  f # {} => PrintT(<<"BAD", ToJson([why |-> f, rec |-> r])>>)
TraceAccepted == TLCGet("stats").diameter = Len(Trace) + 1
=============================================================================
