SPECIFICATION Spec
CONSTANTS
  Shapes = {11, 111, 120, 34}
  RootFirsts = {0, 1}
  Emit = TRUE
INVARIANTS StepBound NoDup StackBound EmitCase
