------------------------------- MODULE Filter -------------------------------
(* PDF stream filters (ISO 32000-1 7.4) as evaluable TLA+ over Seq(0..255).               *)
(*                                                                                        *)
(*  - reference decoders for RunLengthDecode (7.4.5), ASCIIHexDecode (7.4.2) and          *)
(*    ASCII85Decode (7.4.3), written from the standard, not from the Go code;             *)
(*  - PNG row un-filtering (RFC 2083 ch. 6: None/Sub/Up/Average/Paeth) and TIFF           *)
(*    predictor 2 (horizontal differencing) for 1,2,4,8,16 bits per component;            *)
(*  - the filter pipeline machine: a stream's Filter array <<F1,...,Fn>> is applied in    *)
(*    array order when decoding, hence Encode = enc(F1) o ... o enc(Fn);                  *)
(*  - the outcome relations for decode limits and bounded decoding.                       *)
(* Every decoder returns [ok, eod, used, out]: ok = input well formed, eod = an EOD       *)
(* marker was seen, used = index of the last byte consumed, out = decoded bytes.          *)
EXTENDS Integers, Sequences, FiniteSets, TLC

Min2(a, b) == IF a < b THEN a ELSE b
Max2(a, b) == IF a > b THEN a ELSE b
Abs(x) == IF x < 0 THEN -x ELSE x
Rep(b, n) == [k \in 1..n |-> b]
PrefixOf(p, s) == Len(p) <= Len(s) /\ p = SubSeq(s, 1, Len(p))
IsBytes(s) == \A i \in DOMAIN s : s[i] \in 0..255

(* The decoders are left folds of a step operator over the input bytes (FoldLeft has a   *)
(* native implementation; RECURSIVE operators re-evaluate their arguments in TLC).       *)
LOCAL INSTANCE SequencesExt

(* PDF white space, ISO 32000-1 Table 1 *)
WhiteSpace == {0, 9, 10, 12, 13, 32}

Res(ok, eod, used, out) == [ok |-> ok, eod |-> eod, used |-> used, out |-> out]

(* ------------------------------------------------------------------------------------ *)
(* RunLengthDecode: length byte 0..127 -> copy the next length+1 bytes literally;        *)
(* 129..255 -> copy the next byte 257-length times; 128 -> EOD.                          *)
(* state: m = "len" (a length byte is next) | "lit" (k literal bytes follow) | "rep"     *)
(* (the next byte is repeated k times) | "end" (EOD seen at index used); pos = bytes read *)
RLStep(st, c) ==
  LET p == st.pos + 1 IN
  CASE st.m = "end" -> st
    [] st.m = "len" -> IF c = 128 THEN [st EXCEPT !.m = "end", !.used = p, !.pos = p]
                       ELSE IF c < 128 THEN [st EXCEPT !.m = "lit", !.k = c + 1, !.pos = p]
                       ELSE [st EXCEPT !.m = "rep", !.k = 257 - c, !.pos = p]
    [] st.m = "lit" -> [st EXCEPT !.out = Append(@, c), !.k = @ - 1, !.m = IF st.k = 1 THEN "len" ELSE "lit", !.pos = p]
    [] st.m = "rep" -> [st EXCEPT !.out = @ \o Rep(c, st.k), !.m = "len", !.pos = p]
RunLengthDecode(s) ==
  LET st == FoldLeft(RLStep, [m |-> "len", k |-> 0, out |-> <<>>, used |-> 0, pos |-> 0], s)
  IN Res(st.m \in {"len", "end"}, st.m = "end", IF st.m = "end" THEN st.used ELSE Len(s), st.out)

(* ------------------------------------------------------------------------------------ *)
(* ASCIIHexDecode: pairs of hex digits, white space ignored, '>' is EOD, an odd number   *)
(* of digits behaves as if a 0 followed the last digit, any other character is an error. *)
HexVal(c) == IF c \in 48..57 THEN c - 48
             ELSE IF c \in 65..70 THEN c - 55
             ELSE IF c \in 97..102 THEN c - 87
             ELSE -1
AHxStep(st, c) ==         \* hi = pending high nibble or -1; m = "run" | "end" | "bad"
  LET p == st.pos + 1 IN
  IF st.m # "run" THEN st
  ELSE IF c = 62 THEN [st EXCEPT !.m = "end", !.used = p, !.pos = p]
  ELSE IF c \in WhiteSpace THEN [st EXCEPT !.pos = p]
  ELSE IF HexVal(c) < 0 THEN [st EXCEPT !.m = "bad", !.used = p, !.pos = p]
  ELSE IF st.hi < 0 THEN [st EXCEPT !.hi = HexVal(c), !.pos = p]
  ELSE [st EXCEPT !.out = Append(@, st.hi * 16 + HexVal(c)), !.hi = -1, !.pos = p]
ASCIIHexDecode(s) ==
  LET st == FoldLeft(AHxStep, [m |-> "run", hi |-> -1, out |-> <<>>, used |-> 0, pos |-> 0], s)
  IN Res(st.m # "bad", st.m = "end", IF st.m = "run" THEN Len(s) ELSE st.used,
         IF st.hi >= 0 /\ st.m # "bad" THEN Append(st.out, st.hi * 16) ELSE st.out)

(* ------------------------------------------------------------------------------------ *)
(* ASCII85Decode: groups of 5 characters '!'..'u' are the base-85 digits of 4 bytes      *)
(* (big endian); 'z' stands for 4 zero bytes (only between groups); a final group of     *)
(* k in 2..4 characters yields k-1 bytes (pad with 'u'); '~>' is EOD; white space is     *)
(* ignored.  TLC integers are 32 bit, so the group value is kept as 4 byte limbs.        *)
A85Mul(st, d) ==               \* st = [b |-> <<b1,b2,b3,b4>>, of |-> overflow]; value*85 + d
  LET v4 == st.b[4] * 85 + d
      v3 == st.b[3] * 85 + (v4 \div 256)
      v2 == st.b[2] * 85 + (v3 \div 256)
      v1 == st.b[1] * 85 + (v2 \div 256)
  IN [b |-> <<v1 % 256, v2 % 256, v3 % 256, v4 % 256>>, of |-> st.of \/ (v1 \div 256) > 0]
A85Group(g) == FoldLeft(A85Mul, [b |-> <<0, 0, 0, 0>>, of |-> FALSE], g)      \* g = 5 digits 0..84
A85Step(st, c) ==         \* g = digits of the open group; m = "run" | "tilde" ('~' seen) | "end" | "bad"
  LET p == st.pos + 1 IN
  CASE st.m \in {"end", "bad"} -> st
    [] st.m = "tilde" ->
         IF c # 62 \/ Len(st.g) = 1 THEN [st EXCEPT !.m = "bad", !.used = p, !.pos = p]
         ELSE IF st.g = <<>> THEN [st EXCEPT !.m = "end", !.used = p, !.pos = p]
         ELSE LET r == A85Group(st.g \o Rep(84, 5 - Len(st.g)))
              IN [st EXCEPT !.m = IF r.of THEN "bad" ELSE "end", !.used = p, !.pos = p,
                            !.out = @ \o SubSeq(r.b, 1, Len(st.g) - 1), !.g = <<>>]
    [] st.m = "run" ->
         IF c \in WhiteSpace THEN [st EXCEPT !.pos = p]
         ELSE IF c = 126 THEN [st EXCEPT !.m = "tilde", !.pos = p]
         ELSE IF c = 122 THEN (IF st.g = <<>> THEN [st EXCEPT !.out = @ \o <<0, 0, 0, 0>>, !.pos = p]
                               ELSE [st EXCEPT !.m = "bad", !.used = p, !.pos = p])
         ELSE IF c \in 33..117 THEN
              (IF Len(st.g) = 4
               THEN LET r == A85Group(Append(st.g, c - 33))
                    IN IF r.of THEN [st EXCEPT !.m = "bad", !.used = p, !.pos = p]
                       ELSE [st EXCEPT !.out = @ \o r.b, !.g = <<>>, !.pos = p]
               ELSE [st EXCEPT !.g = Append(@, c - 33), !.pos = p])
         ELSE [st EXCEPT !.m = "bad", !.used = p, !.pos = p]
ASCII85Decode(s) ==
  LET st == FoldLeft(A85Step, [m |-> "run", g |-> <<>>, out |-> <<>>, used |-> 0, pos |-> 0], s)
  IN Res(st.m = "end" \/ (st.m = "run" /\ st.g = <<>>), st.m = "end", IF st.m = "run" THEN Len(s) ELSE st.used, st.out)

(* ------------------------------------------------------------------------------------ *)
(* Filter names used in cases and records.                                               *)
SimpleFilters == {"A85", "AHx", "RL"}
OpaqueFilters == {"LZW", "Fl"}           \* LZW / Flate: byte level not modelled
RefDecode(f, s) == CASE f = "RL" -> RunLengthDecode(s)
                     [] f = "AHx" -> ASCIIHexDecode(s)
                     [] f = "A85" -> ASCII85Decode(s)

(* An encoder's output e for input x is correct iff the reference decoder accepts all   *)
(* of e, finds the EOD marker at its very end and yields x.                              *)
EncodedBy(f, x, e) == LET r == RefDecode(f, e) IN r.ok /\ r.eod /\ r.used = Len(e) /\ r.out = x

(* Pipeline machine.  pipe = <<st_1,...,st_n>> in Filter-array order, st.f the filter.   *)
(* Decoding applies st_1 first; encoding therefore applies st_n first.                   *)
PipeStep(st, stage) ==
  IF ~st.ok THEN st
  ELSE LET r == RefDecode(stage.f, st.out)
       IN Res(r.ok /\ r.eod /\ r.used = Len(st.out), r.eod, r.used, r.out)
RefPipeDecode(pipe, s) == FoldLeft(PipeStep, Res(TRUE, TRUE, Len(s), s), pipe)
AllSimple(pipe) == \A k \in DOMAIN pipe : pipe[k].f \in SimpleFilters
PipeEncodes(pipe, x, e) == LET r == RefPipeDecode(pipe, e) IN r.ok /\ r.out = x

(* ------------------------------------------------------------------------------------ *)
(* Edits of a decoded stream's content before it is re-encoded (decode - modify - encode). *)
(* How the edit is performed on the Go side is part of its name: "trunc0slice" re-slices   *)
(* the content to length 0 (a non-nil empty slice), "trunc0new" assigns a new empty slice, *)
(* "nilthen" first drops the content (nil) and then assigns the new one, "grow" crosses    *)
(* the 128-byte run / 4-byte group boundaries.  ApplyEdit is the content expected after    *)
(* encode, write and re-read.                                                              *)
Edits == <<"append", "prepend", "replace", "trunc1", "trunc0slice", "trunc0new", "nilthen", "grow">>
ApplyEdit(e, x) ==
  CASE e = "append"      -> x \o <<0, 128, 255, Len(x) % 256>>
    [] e = "prepend"     -> <<37, 0>> \o x
    [] e = "replace"     -> [i \in 1..Len(x) |-> IF i % 3 = 2 THEN (x[i] + 90) % 256 ELSE x[i]]
    [] e = "trunc1"      -> SubSeq(x, 1, Min2(1, Len(x)))
    [] e = "trunc0slice" -> <<>>
    [] e = "trunc0new"   -> <<>>
    [] e = "nilthen"     -> x \o <<1>>
    [] e = "grow"        -> x \o [i \in 1..131 |-> (3 * i) % 256]

(* ------------------------------------------------------------------------------------ *)
(* Decode parameters (ISO 32000-1 Table 8).  -1 stands for "entry absent".               *)
DefPred(p) == IF p = -1 THEN 1 ELSE p
DefColors(c) == IF c = -1 THEN 1 ELSE c
DefBpc(b) == IF b = -1 THEN 8 ELSE b
DefCols(c) == IF c = -1 THEN 1 ELSE c
Predictors == {1, 2, 10, 11, 12, 13, 14, 15}
BpcValues == {1, 2, 4, 8, 16}
(* Table 8: Predictor is one of 1, 2, 10..15; Colors >= 1 (PDF 1.3; 1..4 before);        *)
(* BitsPerComponent one of 1,2,4,8,16 (16 since PDF 1.5); Columns >= 1.  The table is    *)
(* shared by LZWDecode and FlateDecode, so the same combinations are allowed for both.   *)
ParamsAllowed(pred, colors, bpc, cols) ==
  /\ DefPred(pred) \in Predictors
  /\ DefColors(colors) >= 1
  /\ DefBpc(bpc) \in BpcValues
  /\ DefCols(cols) >= 1

BytesPerPixel(colors, bpc) == (colors * bpc + 7) \div 8
RowSize(colors, bpc, cols) == (colors * bpc * cols + 7) \div 8
(* encoded row length: PNG predictors prefix every row with its filter-type byte *)
RowLen(pred, colors, bpc, cols) == RowSize(colors, bpc, cols) + (IF pred >= 10 THEN 1 ELSE 0)

(* PNG (RFC 2083 6.6) *)
PaethPredictor(a, b, c) ==
  LET p == a + b - c
      pa == Abs(p - a)
      pb == Abs(p - b)
      pc == Abs(p - c)
  IN IF pa <= pb /\ pa <= pc THEN a ELSE IF pb <= pc THEN b ELSE c

(* un-filter one row: ft filter type, cur filtered bytes, prior the un-filtered previous row; *)
(* a fold over the bytes of cur, acc = the bytes un-filtered so far                           *)
PngRow(ft, cur, prior, bpp) ==
  LET Step(acc, x) ==
        LET i == Len(acc) + 1
            a == IF i > bpp THEN acc[i - bpp] ELSE 0          \* Raw(x-bpp)
            b == prior[i]                                      \* Prior(x)
            c == IF i > bpp THEN prior[i - bpp] ELSE 0        \* Prior(x-bpp)
            pr == CASE ft = 0 -> 0
                    [] ft = 1 -> a
                    [] ft = 2 -> b
                    [] ft = 3 -> (a + b) \div 2
                    [] ft = 4 -> PaethPredictor(a, b, c)
        IN Append(acc, (x + pr) % 256)
  IN FoldLeft(Step, <<>>, cur)

(* raw = rows of (filter byte, rowSize bytes); result [ok, out]; ok = FALSE on a filter type > 4 *)
PngUnfilter(raw, rowSize, bpp) ==
  LET rl == rowSize + 1
      Step(st, r) ==
        LET ft == raw[(r - 1) * rl + 1] IN
        IF ~st.ok \/ ft > 4 THEN [st EXCEPT !.ok = FALSE]
        ELSE LET row == PngRow(ft, SubSeq(raw, (r - 1) * rl + 2, r * rl), st.prior, bpp)
             IN [ok |-> TRUE, prior |-> row, out |-> st.out \o row]
      st == FoldLeft(Step, [ok |-> Len(raw) % rl = 0, prior |-> Rep(0, rowSize), out |-> <<>>], [r \in 1..(Len(raw) \div rl) |-> r])
  IN [ok |-> st.ok, out |-> st.out]

(* TIFF predictor 2 (TIFF 6.0 section 14): every sample is stored as the difference to   *)
(* the sample of the same component in the pixel to its left; samples are bpc bits wide, *)
(* packed most significant bit first (16 bit: big endian), rows padded to whole bytes.   *)
SampleAt(row, bpc, k) ==           \* k-th sample, k from 0
  IF bpc = 8 THEN row[k + 1]
  ELSE IF bpc = 16 THEN row[2 * k + 1] * 256 + row[2 * k + 2]
  ELSE LET bit == k * bpc
           shift == 8 - bpc - (bit % 8)
       IN (row[(bit \div 8) + 1] \div (2 ^ shift)) % (2 ^ bpc)
Samples(row, bpc, n) == [k \in 1..n |-> SampleAt(row, bpc, k - 1)]
TiffUndiffSamples(s, colors, bpc) ==       \* the samples of one row
  LET Step(acc, x) == LET k == Len(acc) + 1
                          left == IF k > colors THEN acc[k - colors] ELSE 0
                      IN Append(acc, (x + left) % (2 ^ bpc))
  IN FoldLeft(Step, <<>>, s)
(* the samples of all rows of a buffer of whole rows (n samples per row); undiffColors = 0: as stored *)
RowsSamples(buf, rowSize, bpc, n, undiffColors) ==
  LET Step(acc, r) ==
        LET s == Samples(SubSeq(buf, (r - 1) * rowSize + 1, r * rowSize), bpc, n)
        IN acc \o (IF undiffColors > 0 THEN TiffUndiffSamples(s, undiffColors, bpc) ELSE s)
  IN FoldLeft(Step, <<>>, [r \in 1..(Len(buf) \div rowSize) |-> r])
(* packing back (pad bits 0), for completeness *)
PackSamples(s, bpc) ==
  IF bpc = 8 THEN s
  ELSE IF bpc = 16 THEN [i \in 1..(2 * Len(s)) |-> IF i % 2 = 1 THEN s[(i + 1) \div 2] \div 256 ELSE s[i \div 2] % 256]
  ELSE LET per == 8 \div bpc
           nb == (Len(s) + per - 1) \div per
           W(i, j) == LET k == (i - 1) * per + j IN IF k <= Len(s) THEN s[k] * (2 ^ (8 - bpc * j)) ELSE 0
       IN [i \in 1..nb |-> FoldLeft(LAMBDA a, j : a + W(i, j), 0, [j \in 1..per |-> j])]
TiffUndiff(row, colors, bpc, cols) == PackSamples(TiffUndiffSamples(Samples(row, bpc, colors * cols), colors, bpc), bpc)

(* The expected result of predictor post-processing of raw (whole rows) as [ok, kind, v]: *)
(* kind "bytes": v is the byte string; kind "samples": v is the sample sequence (TIFF,    *)
(* compared sample-wise so that pad bits do not matter).                                  *)
PredictorDecode(raw, pred, colors, bpc, cols) ==
  LET p == DefPred(pred)
      co == DefColors(colors)
      b == DefBpc(bpc)
      w == DefCols(cols)
      rs == RowSize(co, b, w)
  IN IF p = 1 THEN [ok |-> TRUE, kind |-> "bytes", v |-> raw]
     ELSE IF p = 2 THEN [ok |-> Len(raw) % rs = 0, kind |-> "samples", v |-> RowsSamples(raw, rs, b, co * w, co)]
     ELSE LET r == PngUnfilter(raw, rs, BytesPerPixel(co, b)) IN [ok |-> r.ok, kind |-> "bytes", v |-> r.out]

(* ------------------------------------------------------------------------------------ *)
(* Decode limits and bounded decoding.  D = length of the full decoding.                 *)
DefaultMaxDecode == 536870912          \* 512 MiB: what a limit of 0 ("unset") stands for; L < 0 = unlimited
Within(d, L) == L < 0 \/ d <= (IF L = 0 THEN DefaultMaxDecode ELSE L)
Outcome(kind, len) == [kind |-> kind, len |-> len]
LimitOutcome(D, L) == IF Within(D, L) THEN Outcome("ok", D) ELSE Outcome("limit", 0)
(* a pipeline: the limit bounds the decoded output of every filter stage (ds = stage output lengths) *)
PipeLimitOutcome(ds, L) ==
  IF \A i \in DOMAIN ds : Within(ds[i], L) THEN Outcome("ok", ds[Len(ds)]) ELSE Outcome("limit", 0)
(* bounded to n bytes: exactly the prefix of length min(n, D); "too short" only if n > D *)
BoundedOutcome(D, n) == {Outcome("ok", Min2(n, D))} \cup (IF n > D THEN {Outcome("short", 0)} ELSE {})
(* the filter.Filter interface promises "at least n bytes": a prefix of length min(n,D)..D *)
BoundedAtLeast(D, n) == {Outcome("ok", k) : k \in Min2(n, D)..D} \cup (IF n > D THEN {Outcome("short", 0)} ELSE {})
=============================================================================
