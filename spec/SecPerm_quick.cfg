SPECIFICATION Spec
CONSTANTS
  VRPairs <- VRQuick
  Surrounds = {{}, {3, 6, 9, 12}}
  DocHi = {TRUE}
  DocSurs = {{}}
  FullDocs = FALSE
  E2EAlgs = {"rc4_40", "rc4_40_v2", "rc4_40_r3", "rc4_128_r3", "rc4_128", "aes_128", "aes_256", "aes_256_r6"}
  ApiAlgs = {"rc4_40", "rc4_40_v2", "rc4_40_r3", "rc4_128_r3", "rc4_128", "aes_128", "aes_256", "aes_256_r6"}
  ApiRels = {{}, {4}, {5}, {4, 5}, {10}, {11}, {10, 11}}
  ApiSurs = {{}}
  Emit = TRUE
INVARIANTS Mono Layout SurroundIrrelevant EmitCase EmitDocs
