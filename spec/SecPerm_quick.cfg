SPECIFICATION Spec
CONSTANTS
  VRPairs <- VRQuick
  Surrounds = {{}, {3, 6, 9, 12}}
  DocHi = {TRUE}
  DocSurs = {{}}
  DocOther = {"all"}
  E2EAlgs = {"rc4_40", "rc4_40_v2", "rc4_40_r3", "rc4_128_r3", "rc4_128", "aes_128", "aes_256", "aes_256_r6"}
  ApiAlgs = {"rc4_40", "rc4_40_v2", "rc4_40_r3", "rc4_128_r3", "rc4_128", "aes_128", "aes_256", "aes_256_r6"}
  ApiRels = {{10, 11}, {4, 10, 11}, {5, 10, 11}, {4, 5, 10, 11}, {4, 5}, {4, 5, 10}, {4, 5, 11}}
  ApiSurs = {{}}
  Emit = TRUE
INVARIANTS Mono Layout SurroundIrrelevant EmitCase EmitDocs
