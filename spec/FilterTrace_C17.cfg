SPECIFICATION Spec
CONSTANT Prop = "C17"
INVARIANT RecordOK
POSTCONDITION TraceAccepted
CHECK_DEADLOCK FALSE
