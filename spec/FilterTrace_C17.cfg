SPECIFICATION Spec
CONSTANTS
  Prop = "C17"
  Chunk = 250
INVARIANT RecordOK
POSTCONDITION TraceAccepted
CHECK_DEADLOCK FALSE
