SPECIFICATION Spec
CONSTANTS
  GraphRels = {"pagetree", "fields", "structtree", "nametree", "numtree", "xobjects"}
  FunRels = {"actionnext", "beads", "xrefprev", "xrefstmprev", "xrefstm", "extends", "length", "refchain", "refcontents", "refkids", "refannots", "pageparent", "fieldparent", "colorspace", "function", "smask", "irt"}
  MaxN = 4
  SymN = 3
  GraphMod = 127
  Decors = {"none", "dangling", "wrong", "null", "direct"}
  DecorMod = 9
  FunMod = 25
  OutTrees = {12, 13, 22, 23}
  OutTreeMod = 29
  OutlineNs = {1, 2}
  Outline1Mod = 1
  OutlineMod = 17
  DepthRels = {"pagetree", "fields", "structtree", "nametree", "numtree", "xobjects", "actionnext", "beads", "xrefprev", "extends", "length", "refchain", "pageparent", "fieldparent", "colorspace", "function", "smask", "irt", "outlinefirst", "outlinenext"}
  SynKinds = {"array", "dict", "mixed", "parens", "contentarray", "contentq", "contentdict"}
  Limit = 100
  BigDepth = 100000
  HugeDepth = 1000000
  MutTargets = {"ttf", "certpem", "certder", "p7c", "pkcs7", "json", "csv"}
  MutOps = {"trunc", "len0", "lenmax", "lenplus1", "lenminus1"}
  MutK = 60
  PdfBases = {"classic", "objstm", "encrypted", "signed", "form"}
  PdfK = 2
  PdfMod = 7
  TruncK = 40
  Seed = 1
  Emit = TRUE
INVARIANTS StepBound ExpandOnce GuardedDepth Progress EmitCase
