------------------------------ MODULE ImposeGen ------------------------------
(* Enumerates the configuration space of C34 as cases for the Go harness.                              *)
(*  booklet case: [kind |-> "booklet", k, n, btype, binding, orient, mf, folio, first, step]             *)
(*  nup case:     [kind |-> "nup" | "grid", k, n, rows, cols, first, step]   (rows = cols = 0 for n-up)  *)
(*  file case:    [kind |-> "bookletfile", ...] = a booklet case run end to end through api.BookletFile  *)
(* selected pages = first + step*(i-1), i = 1..k  (page numbers need not be contiguous)                 *)
EXTENDS Impose, TLC, Json
CONSTANTS MaxK, KStride, Ns, BTypes, Bindings, Orients, Folios, NUpNs, GridMax, NUpKs, FileKs, FileFolios, Emit
VARIABLES c
Sel(k) == [first |-> 1 + (k % 3), step |-> 1 + (k % 2)]
Ks == {k \in 1..MaxK : k <= 40 \/ k % KStride = 0}
BookletCases ==
  {[kind |-> "booklet", k |-> k, n |-> n, btype |-> bt, binding |-> b, orient |-> o, mf |-> f > 0, folio |-> f,
    rows |-> 0, cols |-> 0, first |-> Sel(k).first, step |-> Sel(k).step] :
     k \in Ks, n \in Ns, bt \in BTypes, b \in Bindings, o \in Orients, f \in {0} \cup Folios}
(* end-to-end booklet runs (api.BookletFile) for a sample of the booklet configurations *)
FileCases ==
  {[kind |-> "bookletfile", k |-> k, n |-> n, btype |-> bt, binding |-> b, orient |-> o, mf |-> f > 0, folio |-> f,
    rows |-> 0, cols |-> 0, first |-> Sel(k).first, step |-> Sel(k).step] :
     k \in FileKs, n \in Ns, bt \in BTypes, b \in Bindings, o \in Orients, f \in {0} \cup FileFolios}
NUpCases ==
  {[kind |-> "nup", k |-> k, n |-> n, btype |-> "", binding |-> "", orient |-> "", mf |-> FALSE, folio |-> 0,
    rows |-> 0, cols |-> 0, first |-> Sel(k).first, step |-> Sel(k).step] : k \in NUpKs, n \in NUpNs}
  \cup
  {[kind |-> "grid", k |-> k, n |-> r * cl, btype |-> "", binding |-> "", orient |-> "", mf |-> FALSE, folio |-> 0,
    rows |-> r, cols |-> cl, first |-> Sel(k).first, step |-> Sel(k).step] : k \in NUpKs, r \in 1..GridMax, cl \in 1..GridMax}
Init == c \in BookletCases \cup NUpCases \cup FileCases
Next == UNCHANGED c
Spec == Init /\ [][Next]_c
EmitCase == Emit => PrintT(<<"CASE", ToJson(c)>>)
=============================================================================
