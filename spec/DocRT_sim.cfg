SPECIFICATION Spec
CONSTANTS
  MaxPages = 2
  Extras = {"none", "shared", "cycle", "self", "stream", "strings", "nullref", "deep"}
  Encs = {"none", "none", "aes256", "rc4"}
  Emit = TRUE
INVARIANTS TypeOK EmitCase
PROPERTY WriteReadStutters
