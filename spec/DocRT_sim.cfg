SPECIFICATION Spec
CONSTANTS
  InEncs = {"AESV2-V2", "V2-AESV2", "AESV2-AESV2", "V2-V2"}
  MaxPages = 2
  Extras = {"none", "shared", "cycle", "self", "stream", "strings", "nullref", "deep"}
  Encs = {"none", "none", "aes256", "rc4"}
  Emit = TRUE
INVARIANTS TypeOK EmitCase
PROPERTY WriteReadStutters
