SPECIFICATION TraceSpec
CONSTANTS
  Variant = "replace"
  Decision = "okflag"
  MaxFaults = 3
  MaxWrites = 2
  AllowPanic = TRUE
CONSTRAINT HighWater
INVARIANTS TypeOK Atomic CleanFailure Publishes
POSTCONDITION TraceAccepted
CHECK_DEADLOCK FALSE
