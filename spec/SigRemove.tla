------------------------------ MODULE SigRemove ------------------------------
(* C29: removing signatures removes them all and nothing else.                        *)
(*                                                                                    *)
(* A document has np pages, a sequence of top-level AcroForm entries, optional        *)
(* /Perms entries (certification /DocMDP, usage rights /UR3) and other annotations (see Others).  *)
(* Entry shapes:                                                                      *)
(*   sigM   signature field merged with its widget on page p                          *)
(*   sigK   signature field with one separate widget kid on page p                    *)
(*   sigK2  signature field with two widget kids, on pages p and q                    *)
(*   grp    non-terminal field (no /FT) whose kids are a merged signature field on    *)
(*          page p and, if tx, a text field on page p            (depth 2)            *)
(*   grp3   non-terminal -> non-terminal -> merged signature field (depth 3)          *)
(*   grpFT  non-terminal field carrying /FT /Sig, kid inherits the type               *)
(*   tx     a text field merged with its widget on page p (not a signature)           *)
(* v: the signature field is signed (/V present); hasP: its widget(s) carry /P.       *)
(*                                                                                    *)
(* RemoveSigs: afterwards no signature dictionaries, no signature fields, no widget   *)
(* of a signature field on any page, no /Perms, no /SigFlags; every other field,      *)
(* every other annotation and all pages are unchanged.  A document without            *)
(* signatures is refused with the no-signatures error and nothing is written.         *)
EXTENDS Integers, Sequences, FiniteSets, TLC, Json

CONSTANTS NPs,        \* page counts
          MaxFields,  \* number of top-level entries
          Later,      \* shapes allowed for entries after the first (all shapes for the first)
          IndDims,    \* which of "perms", "acro", "fields", "kids" vary between direct and indirect objects
          OthCfgs     \* configurations of OTHER annotations: subset of {"none", "ind1", "dir1", "dirL", "mix"}

(* Every dictionary / array on the removal path may be stored inline or as an indirect object:       *)
(* ind is the set of those stored indirectly: catalog /Perms, catalog /AcroForm, the /Fields array,   *)
(* the /Kids arrays.  sf is the /SigFlags value of the AcroForm of a document WITHOUT signature       *)
(* fields (-1: no /SigFlags entry; a stale 1 or 3 does not make the document signed); documents with  *)
(* signature fields carry /SigFlags 3.                                                                *)
SFs == {0-1, 0, 1, 3}

Shapes == {"sigM", "sigK", "sigK2", "grp", "grp3", "grpFT", "tx"}
Ent(sh, p, q, v, hp, t) == [sh |-> sh, p |-> p, q |-> q, v |-> v, hasP |-> hp, tx |-> t]
Entries(np) ==
    {Ent(sh, p, 0, v, hp, FALSE) : sh \in {"sigM", "sigK"}, p \in 1..np, v \in BOOLEAN, hp \in BOOLEAN}
    \cup {Ent("sigK2", 1, np, v, hp, FALSE) : v \in BOOLEAN, hp \in BOOLEAN}
    \cup {Ent("grp", p, 0, TRUE, TRUE, t) : p \in 1..np, t \in BOOLEAN}
    \cup {Ent(sh, p, 0, TRUE, TRUE, FALSE) : sh \in {"grp3", "grpFT"}, p \in 1..np}
    \cup {Ent("tx", p, 0, FALSE, TRUE, FALSE) : p \in 1..np}

(* Other annotations (not widgets of signature fields) that share the pages with the signature widgets.   *)
(* An entry of a page's /Annots array may be an indirect reference or a DIRECT dictionary; both forms must  *)
(* survive the removal untouched, on the signature's page as well as on other pages.  An annotation is      *)
(* [pg, name]; the name is subtype:id, ids starting with i are stored as indirect objects, with d inline.  *)
OA(pg, name) == [pg |-> pg, name |-> name]
Others(cfg, n) ==
    CASE cfg = "none" -> {}
      [] cfg = "ind1" -> {OA(1, "link:i1")}
      [] cfg = "dir1" -> {OA(1, "link:d1")}
      [] cfg = "dirL" -> {OA(n, "text:dL")}
      [] cfg = "mix"  -> {OA(1, "link:i1"), OA(1, "text:d1"), OA(n, "link:dL")}

VARIABLES np, fields, perms, oth, ind, sf
vars == <<np, fields, perms, oth, ind, sf>>

IsSig(e)  == e.sh # "tx"
Signed(e) == IsSig(e) /\ e.v
HasSigs   == (\E i \in 1..Len(fields) : IsSig(fields[i])) \/ perms # {}
(* /DocMDP points at the signature dictionary of a signed field *)
HasSigField == \E i \in 1..Len(fields) : IsSig(fields[i])
HasAcroForm == fields # <<>> \/ sf >= 0
HasKids     == \E i \in 1..Len(fields) : fields[i].sh \notin {"sigM", "tx"}
WellFormed ==
    /\ "DocMDP" \in perms => \E i \in 1..Len(fields) : Signed(fields[i])
    (* canonical form: a dimension that does not exist in the document is not varied *)
    /\ "perms" \in ind => perms # {}
    /\ ind \cap {"acro", "fields"} # {} => HasAcroForm
    /\ "kids" \in ind => HasKids
    /\ HasSigField => sf = 3

N(i) == ToString(i)
(* fully qualified names of the terminal fields that are NOT signatures: they must survive *)
KeepFields == {"t" \o N(i) : i \in {j \in 1..Len(fields) : fields[j].sh = "tx"}}
              \cup {"g" \o N(i) \o ".t" : i \in {j \in 1..Len(fields) : fields[j].sh = "grp" /\ fields[j].tx}}
(* annotations that must survive, per page: widgets of text fields and all other annotations *)
KeepAnnots == [pg \in 1..np |->
                 {"t" \o N(i) : i \in {j \in 1..Len(fields) : fields[j].sh = "tx" /\ fields[j].p = pg}}
                 \cup {"g" \o N(i) \o ".t" : i \in {j \in 1..Len(fields) : fields[j].sh = "grp" /\ fields[j].tx /\ fields[j].p = pg}}
                 \cup {a.name : a \in {b \in Others(oth, np) : b.pg = pg}}]
(* what is there before (for the record): signature field names *)
SigFields == {(CASE fields[i].sh \in {"sigM", "sigK", "sigK2"} -> "s" \o N(i)
                 [] fields[i].sh = "grp3" -> "g" \o N(i) \o ".h.s"
                 [] OTHER -> "g" \o N(i) \o ".s") : i \in {j \in 1..Len(fields) : IsSig(fields[j])}}

Init == /\ np \in NPs
        /\ fields = <<>>
        /\ perms \in SUBSET {"DocMDP", "UR3"}
        /\ oth \in OthCfgs
        /\ ind \in SUBSET IndDims
        /\ "perms" \in ind => perms # {}
        /\ sf \in SFs
Add == /\ Len(fields) < MaxFields
       /\ \E e \in Entries(np) :
            /\ Len(fields) >= 1 => e.sh \in Later
            /\ IsSig(e) => sf = 3          \* documents with signature fields carry /SigFlags 3
            /\ fields' = Append(fields, e)
       /\ UNCHANGED <<np, perms, oth, ind, sf>>
Next == Add
Spec == Init /\ [][Next]_vars

(* design checks of the model *)
KeepDisjoint == KeepFields \cap SigFields = {}
NoSigNoPerms == ~HasSigs => perms = {} /\ \A i \in 1..Len(fields) : fields[i].sh = "tx"
(* a stale /SigFlags never turns an unsigned document into a signed one *)
FlagsDoNotSign == (~HasSigField /\ perms = {}) => ~HasSigs

Case == [np |-> np, fields |-> fields, perms |-> perms, oth |-> oth, others |-> Others(oth, np), ind |-> ind, sf |-> sf,
         outcome |-> IF HasSigs THEN "ok" ELSE "nosig",
         sigfields |-> SigFields, keepfields |-> KeepFields, keepannots |-> KeepAnnots]
Emit == WellFormed => PrintT(<<"CASE", ToJson(Case)>>)
=============================================================================
