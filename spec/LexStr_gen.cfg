SPECIFICATION Spec
CONSTANTS
  Mode = "alpha"
  MinLen = 0
  MaxLen = 3
  AlphaN = 24
  NRand = 300
  Seed = 1
  Slice = 0
  NSlices = 1
  Files = FALSE
  FileMaxLen = 2
  TextLevel = 0
INVARIANTS RefRoundTrip RefNameRoundTrip EmitCase
