SPECIFICATION Spec
CONSTANTS
  Mode = "alpha"
  MaxLen = 3
  AlphaN = 24
  NRand = 500
  Seed = 1
INVARIANTS RefRoundTrip RefNameRoundTrip EmitCase
