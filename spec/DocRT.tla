------------------------------- MODULE DocRT -------------------------------
(* Property C19: writing a document and reading it back is a stuttering step on the       *)
(* abstract document.                                                                    *)
(*                                                                                       *)
(* A document shape is built dimension by dimension (so that TLC's simulation mode draws  *)
(* uniformly random shapes and its breadth-first mode enumerates them all):               *)
(*   page tree (flat / intermediate node), inheritable page attributes (Rotate, MediaBox, *)
(*   Resources) placed on the page, the intermediate node or the root, content streams    *)
(*   (filter, split, shared between pages, indirect /Length), a free object, the input's   *)
(*   own layout (classic, or object stream + cross-reference stream), and an extra        *)
(*   object graph under the catalog (shared, cyclic, self-referencing, stream, strings    *)
(*   and names with delimiters, reference to a free object), then a writer configuration. *)
(* Abs(sh) is the abstract document: what every page shows (inheritance resolved).        *)
(* WriteRead changes only the phase; WriteReadStutters says the abstract document is the  *)
(* same afterwards.  Each finished behaviour is printed as a case with the expected       *)
(* abstract document; harness/cmd/cstruct roundtrip replays it through the real           *)
(* reader/writer.                                                                        *)
EXTENDS Integers, Sequences, FiniteSets, TLC, Json

CONSTANTS InEncs,     \* subset of {stm-str : stm, str \in {"V2", "AESV2", "Identity"}}
          MaxPages,   \* 1..2
          Extras,     \* subset of ExtraKinds
          Encs,       \* subset of {"none", "aes256", "aes128", "rc4"}
          Emit

ExtraKinds == {"none", "shared", "cycle", "self", "stream", "strings", "nullref", "deep"}

VARIABLES pc, sh, phase
vars == <<pc, sh, phase>>

Dims == <<"np", "tree", "rootrot", "midrot", "midmedia", "pagerot", "pagemedia", "res",
          "filter", "nstreams", "sharedcontent", "lenind", "free", "inencw", "inenc", "inobjstm", "extra", "xsos", "eol", "enc", "mode", "rewrite">>

Unset == [np |-> 0, tree |-> "", rootrot |-> -1, midrot |-> -1, midmedia |-> FALSE, pagerot |-> <<>>, pagemedia |-> <<>>,
          res |-> "", filter |-> "", nstreams |-> 0, sharedcontent |-> FALSE, lenind |-> FALSE, free |-> FALSE, inencw |-> 0, inenc |-> "", inobjstm |-> FALSE, extra |-> "",
          xsos |-> "", eol |-> "", enc |-> "", mode |-> "", rewrite |-> ""]

(* the values dimension d may take given the choices made so far *)
Dom(d, s) ==
  CASE d = "np"            -> 1..MaxPages
    [] d = "tree"          -> {"flat", "mid"}
    [] d = "rootrot"       -> {-1, 90}
    [] d = "midrot"        -> IF s.tree = "mid" THEN {-1, 180} ELSE {-1}
    [] d = "midmedia"      -> IF s.tree = "mid" THEN BOOLEAN ELSE {FALSE}
    [] d = "pagerot"       -> [1..s.np -> {-1, 0, 270}]
    [] d = "pagemedia"     -> [1..s.np -> BOOLEAN]
    [] d = "res"           -> {"own", "shared", "inherited", "sharedsub", "sharedsubanc"}
                              \* sharedsub: own /Resources whose /Font sub-dictionary is one shared indirect object of which
                              \* each page uses a different entry; ...anc: the root node also has a /Resources without /Font
    [] d = "filter"        -> {"none", "flate"}
    [] d = "nstreams"      -> {1, 2}
    [] d = "sharedcontent" -> IF s.np > 1 THEN BOOLEAN ELSE {FALSE}
    [] d = "lenind"        -> BOOLEAN
    [] d = "free"          -> BOOLEAN
    [] d = "inencw"        -> 1..3                        \* one in three inputs is encrypted
    [] d = "inenc"         -> IF s.inencw = 1 THEN InEncs ELSE {"none"}      \* "none", or "<StmF>-<StrF>": the input is already encrypted (standard handler V4)
                                          \* with these crypt filters for streams and strings; it is written still encrypted
    [] d = "inobjstm"      -> IF s.inenc = "none" THEN BOOLEAN ELSE {FALSE} \*                     \* the input keeps its non-stream objects in an object stream
    [] d = "extra"         -> Extras
    [] d = "xsos"          -> {"00", "10", "11"}          \* WriteXRefStream, WriteObjectStream
    [] d = "eol"           -> {"LF", "CR", "CRLF"}
    [] d = "enc"           -> IF s.inenc = "none" THEN Encs ELSE {"none"}
    [] d = "rewrite"       -> {"none", "none", "00", "10", "11"}  \* a second write under this xref/object stream configuration:
                                          \* of the SAME context after ResetWriteContext (plain), of the first output (api)
    [] d = "mode"          -> IF s.enc = "none" THEN {"plain", "api"} ELSE {"api"}   \* plain: read/validate/write; api: OptimizeFile / EncryptFile

Init == pc = 1 /\ sh = Unset /\ phase = "build"

Choose == /\ phase = "build" /\ pc <= Len(Dims)
          /\ \E v \in Dom(Dims[pc], sh) : sh' = [sh EXCEPT ![Dims[pc]] = v]
          /\ pc' = pc + 1 /\ UNCHANGED phase

Built == /\ phase = "build" /\ pc > Len(Dims)
         /\ phase' = "orig" /\ UNCHANGED <<pc, sh>>

(* the step under test: write with the chosen configuration, read the result *)
WriteRead == /\ phase = "orig"
             /\ phase' = "written" /\ UNCHANGED <<pc, sh>>
(* writing the same document once more under another writer configuration, reading that *)
WriteReadAgain == /\ phase = "written" /\ sh.rewrite # "none"
                  /\ phase' = "written2" /\ UNCHANGED <<pc, sh>>

Next == Choose \/ Built \/ WriteRead \/ WriteReadAgain
Spec == Init /\ [][Next]_vars

-----------------------------------------------------------------------------
(* The abstract document. *)
EffRot(s, p) == IF s.pagerot[p] # -1 THEN s.pagerot[p]
                ELSE IF s.tree = "mid" /\ s.midrot # -1 THEN s.midrot
                ELSE IF s.rootrot # -1 THEN s.rootrot ELSE 0
(* boxes by name: "A" on the root node, "B" on the intermediate node, "C" on the page *)
EffMedia(s, p) == IF s.pagemedia[p] THEN "C" ELSE IF s.tree = "mid" /\ s.midmedia THEN "B" ELSE "A"
Marker(s, p) == IF s.sharedcontent THEN 1 ELSE p          \* which content the page shows

Abs(s) == [pages |-> [p \in 1..s.np |-> [rot |-> EffRot(s, p), media |-> EffMedia(s, p), marker |-> Marker(s, p)]],
           extra |-> s.extra]

WriteStep == (phase = "orig" /\ phase' = "written") \/ (phase = "written" /\ phase' = "written2")
WriteReadStutters == [][WriteStep => Abs(sh') = Abs(sh)]_vars

TypeOK == /\ pc \in 1..(Len(Dims) + 1)
          /\ phase \in {"build", "orig", "written", "written2"}
          /\ (phase # "build" => \A p \in 1..sh.np : EffRot(sh, p) \in {0, 90, 180, 270} /\ EffMedia(sh, p) \in {"A", "B", "C"})

Case == [shape |-> sh, expect |-> Abs(sh)]
Final == (phase = "written" /\ sh.rewrite = "none") \/ phase = "written2"
EmitCase == (Emit /\ Final) => PrintT(<<"CASE", ToJson(Case)>>)
=============================================================================
