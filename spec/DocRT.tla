------------------------------- MODULE DocRT -------------------------------
(* Property C19: writing a document and reading it back is a stuttering step on the       *)
(* abstract document.                                                                    *)
(*                                                                                       *)
(* A document shape is built dimension by dimension (so that TLC's simulation mode draws  *)
(* uniformly random shapes and its breadth-first mode enumerates them all):               *)
(*   page tree (flat / intermediate node), inheritable page attributes (Rotate, MediaBox, *)
(*   Resources) placed on the page, the intermediate node or the root, content streams    *)
(*   (filter, split, shared between pages, indirect /Length), a free object, the input's   *)
(*   own layout (classic, or object stream + cross-reference stream), and an extra        *)
(*   object graph under the catalog (shared, cyclic, self-referencing, stream, strings    *)
(*   and names with delimiters, reference to a free object), then a writer configuration. *)
(* Abs(sh) is the abstract document: what every page shows (inheritance resolved).        *)
(* WriteRead changes only the phase; WriteReadStutters says the abstract document is the  *)
(* same afterwards.  Each finished behaviour is printed as a case with the expected       *)
(* abstract document; harness/cmd/cstruct roundtrip replays it through the real           *)
(* reader/writer.                                                                        *)
EXTENDS Integers, Sequences, FiniteSets, TLC, Json

CONSTANTS MaxPages,   \* 1..2
          Extras,     \* subset of ExtraKinds
          Encs,       \* subset of {"none", "aes256", "aes128", "rc4"}
          Emit

ExtraKinds == {"none", "shared", "cycle", "self", "stream", "strings", "nullref", "deep"}

VARIABLES pc, sh, phase
vars == <<pc, sh, phase>>

Dims == <<"np", "tree", "rootrot", "midrot", "midmedia", "pagerot", "pagemedia", "res",
          "filter", "nstreams", "sharedcontent", "lenind", "free", "inobjstm", "extra", "xsos", "eol", "enc", "mode">>

Unset == [np |-> 0, tree |-> "", rootrot |-> -1, midrot |-> -1, midmedia |-> FALSE, pagerot |-> <<>>, pagemedia |-> <<>>,
          res |-> "", filter |-> "", nstreams |-> 0, sharedcontent |-> FALSE, lenind |-> FALSE, free |-> FALSE, inobjstm |-> FALSE, extra |-> "",
          xsos |-> "", eol |-> "", enc |-> "", mode |-> ""]

(* the values dimension d may take given the choices made so far *)
Dom(d, s) ==
  CASE d = "np"            -> 1..MaxPages
    [] d = "tree"          -> {"flat", "mid"}
    [] d = "rootrot"       -> {-1, 90}
    [] d = "midrot"        -> IF s.tree = "mid" THEN {-1, 180} ELSE {-1}
    [] d = "midmedia"      -> IF s.tree = "mid" THEN BOOLEAN ELSE {FALSE}
    [] d = "pagerot"       -> [1..s.np -> {-1, 0, 270}]
    [] d = "pagemedia"     -> [1..s.np -> BOOLEAN]
    [] d = "res"           -> {"own", "shared", "inherited", "sharedsub", "sharedsubanc"}
                              \* sharedsub: own /Resources whose /Font sub-dictionary is one shared indirect object of which
                              \* each page uses a different entry; ...anc: the root node also has a /Resources without /Font
    [] d = "filter"        -> {"none", "flate"}
    [] d = "nstreams"      -> {1, 2}
    [] d = "sharedcontent" -> IF s.np > 1 THEN BOOLEAN ELSE {FALSE}
    [] d = "lenind"        -> BOOLEAN
    [] d = "free"          -> BOOLEAN
    [] d = "inobjstm"      -> BOOLEAN                     \* the input keeps its non-stream objects in an object stream
    [] d = "extra"         -> Extras
    [] d = "xsos"          -> {"00", "10", "11"}          \* WriteXRefStream, WriteObjectStream
    [] d = "eol"           -> {"LF", "CR", "CRLF"}
    [] d = "enc"           -> Encs
    [] d = "mode"          -> IF s.enc = "none" THEN {"plain", "api"} ELSE {"api"}   \* plain: read/validate/write; api: OptimizeFile / EncryptFile

Init == pc = 1 /\ sh = Unset /\ phase = "build"

Choose == /\ phase = "build" /\ pc <= Len(Dims)
          /\ \E v \in Dom(Dims[pc], sh) : sh' = [sh EXCEPT ![Dims[pc]] = v]
          /\ pc' = pc + 1 /\ UNCHANGED phase

Built == /\ phase = "build" /\ pc > Len(Dims)
         /\ phase' = "orig" /\ UNCHANGED <<pc, sh>>

(* the step under test: write with the chosen configuration, read the result *)
WriteRead == /\ phase = "orig"
             /\ phase' = "written" /\ UNCHANGED <<pc, sh>>

Next == Choose \/ Built \/ WriteRead
Spec == Init /\ [][Next]_vars

-----------------------------------------------------------------------------
(* The abstract document. *)
EffRot(s, p) == IF s.pagerot[p] # -1 THEN s.pagerot[p]
                ELSE IF s.tree = "mid" /\ s.midrot # -1 THEN s.midrot
                ELSE IF s.rootrot # -1 THEN s.rootrot ELSE 0
(* boxes by name: "A" on the root node, "B" on the intermediate node, "C" on the page *)
EffMedia(s, p) == IF s.pagemedia[p] THEN "C" ELSE IF s.tree = "mid" /\ s.midmedia THEN "B" ELSE "A"
Marker(s, p) == IF s.sharedcontent THEN 1 ELSE p          \* which content the page shows

Abs(s) == [pages |-> [p \in 1..s.np |-> [rot |-> EffRot(s, p), media |-> EffMedia(s, p), marker |-> Marker(s, p)]],
           extra |-> s.extra]

WriteReadStutters == [][phase = "orig" /\ phase' = "written" => Abs(sh') = Abs(sh)]_vars

TypeOK == /\ pc \in 1..(Len(Dims) + 1)
          /\ phase \in {"build", "orig", "written"}
          /\ (phase # "build" => \A p \in 1..sh.np : EffRot(sh, p) \in {0, 90, 180, 270} /\ EffMedia(sh, p) \in {"A", "B", "C"})

Case == [shape |-> sh, expect |-> Abs(sh)]
EmitCase == (Emit /\ phase = "written") => PrintT(<<"CASE", ToJson(Case)>>)
=============================================================================
