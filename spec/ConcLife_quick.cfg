SPECIFICATION Spec
CONSTANT MaxCalls = 3
INVARIANTS BlockedWhileClosed AllReturn LookupsComplete EmitCase
