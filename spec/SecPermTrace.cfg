SPECIFICATION Spec
INVARIANTS Report AllAccepted
POSTCONDITION TraceAccepted
CHECK_DEADLOCK FALSE
