------------------------------- MODULE LexText -------------------------------
(* C13 case generation: texts (code point sequences) to be stored as PDF text     *)
(* strings by the real code.  Single code points: the boundary set of the UTF-16  *)
(* coding plus a seeded sample of scalar values; strings: all strings of length   *)
(* 2..MaxLen over the printable boundary alphabet E2E plus seeded longer ones.    *)
(* Syntax-spelling texts: texts whose stored bytes (UTF-16BE, and the plain ASCII  *)
(* code points) spell PDF syntax - keywords, delimiters, comment starts, unbalanced*)
(* parentheses, backslash sequences - followed by a NUL / white space / other     *)
(* byte: keyword x coding (alignment in the code unit) x follower x position      *)
(* (start / middle / end of the text) x length class (short, crossing a 1 KiB     *)
(* reader buffer, several KiB).                                                   *)
(* A case is [cps, pre, post, fill, vias, unit, tag]: the text is pre copies of   *)
(* the code point fill, then cps, then post copies of fill; unit = also a unit    *)
(* record; vias = the carriers (property, keyword, bookmark) of a real PDF the     *)
(* text is stored in and read back from.                                          *)
EXTENDS Lex, TLC, Json
CONSTANTS Seed, NSample, MaxLen, PairN, NRandStr,
          SynFolN,        \* how many followers (prefix of Fols) the short syntax-spelling texts use
          SynLongFolN,    \* ... and the long ones
          SynLongAllVias  \* long texts through all carriers (else documents properties only)
VARIABLE c

Boundary == { 0, 8, 9, 10, 12, 13, 32, 40, 41, 92, 127, 128, 160, 255, 256, 2047, 2048, 4095, 4096,
              2573, 3338, 10280, 10281, 10332, 23592, 23644, 23645,    \* UTF-16 bytes 0A0D 0D0A 2828 2829 285C 5C28 5C5C 5C5D
              55295, 57344, 57345, 63743, 65279, 65533, 65534, 65535,  \* D7FF E000 E001 F8FF FEFF FFFD FFFE FFFF
              65536, 65537, 66559, 66560, 128512, 1048575, 1048576, 1113088, 1114110, 1114111 }
E2E == << 40, 92, 233, 2573, 10281, 55295, 57344, 65535, 65536, 1114111, 127, 133,   \* the first 12: quick tier strings
           65, 41, 256, 2047, 2048, 23644, 57345, 65533, 128512, 128, 159, 160, 173, 8232 >> \* ... C1 controls, NBSP, SHY, LS
E2ESet == {E2E[i] : i \in DOMAIN E2E}

LCG(x) == (x * 75 + 74) % 65537
Rnd(k) == LET x1 == LCG(((Seed % 65537) * 7919 + k * 31337) % 65537)
              x2 == LCG(x1)
          IN (x1 * 17 + (x2 % 17)) % NumScalars
Sample == {NthScalar(Rnd(k)) : k \in 1..NSample}
RECURSIVE RandStr(_, _)
RandStr(x, n) == IF n = 0 THEN <<>> ELSE <<E2E[(x % Len(E2E)) + 1]>> \o RandStr(LCG(x), n - 1)
RandCase(k) == LET x0 == LCG(((Seed % 65537) * 104729 + k * 7919) % 65537) IN RandStr(LCG(x0), MaxLen + 1 + (x0 % 4))

AllVias == <<"property", "keyword", "bookmark", "bookmarkjson">>
WS == {9, 10, 11, 12, 13, 32, 133, 160, 5760, 8232, 8233, 8239, 8287, 12288} \cup (8192..8202)
(* carriers that keep a text verbatim by design: keywords are split at , ; CR and trimmed, bookmark titles (read by api.Bookmarks resp.
   api.ExportBookmarksJSON) drop the bytes below 32 *)
ViasFor(full, all) ==
  SelectSeq(AllVias, LAMBDA v :
     CASE v = "property" -> \E i \in 1..Len(full) : full[i] \notin WS      \* the API refuses blank values (nothing is stored)
       [] v = "keyword"  -> all /\ (\A i \in 1..Len(full) : full[i] \notin {44, 59, 13}) /\ full[1] \notin WS /\ full[Len(full)] \notin WS
       [] v \in {"bookmark", "bookmarkjson"} -> all /\ (\A i \in 1..Len(full) : full[i] >= 32))
Plain(cps, e2e) == [cps |-> cps, pre |-> 0, post |-> 0, fill |-> 120, vias |-> (IF e2e THEN ViasFor(cps, TRUE) ELSE <<>>), unit |-> TRUE, tag |-> ""]

(* ---- syntax-spelling texts ---- *)
KW == << [n |-> "endobj",    b |-> <<101, 110, 100, 111, 98, 106>>],
         [n |-> "stream",    b |-> <<115, 116, 114, 101, 97, 109>>],
         [n |-> "endstream", b |-> <<101, 110, 100, 115, 116, 114, 101, 97, 109>>],
         [n |-> "obj",       b |-> <<111, 98, 106>>],
         [n |-> "xref",      b |-> <<120, 114, 101, 102>>],
         [n |-> "trailer",   b |-> <<116, 114, 97, 105, 108, 101, 114>>],
         [n |-> "startxref", b |-> <<115, 116, 97, 114, 116, 120, 114, 101, 102>>],
         [n |-> "R",         b |-> <<82>>],
         [n |-> "ref",       b |-> <<49, 32, 48, 32, 82>>],          \* 1 0 R
         [n |-> "dictend",   b |-> <<62, 62>>],
         [n |-> "dictbegin", b |-> <<60, 60>>],
         [n |-> "comment",   b |-> <<37>>],
         [n |-> "lparen",    b |-> <<40>>],
         [n |-> "rparen",    b |-> <<41>>],
         [n |-> "parens",    b |-> <<41, 40>>],
         [n |-> "backslash", b |-> <<92>>],
         [n |-> "bslparen",  b |-> <<92, 41>>],
         [n |-> "bsloctal",  b |-> <<92, 49, 48, 49>>] >>
Fols == <<0, 32, 10, 65, 13, 9, 12>>            \* the byte after the keyword: NUL SP LF 'A' CR TAB FF
Codings == <<"u16a0", "u16a1", "ascii">>        \* keyword starts at the high / at the low byte of a code unit / one byte per character
Fill == 120                                     \* 'x' (UTF-16BE 00 78)
RECURSIVE Units(_)
Units(bs) == IF bs = <<>> THEN <<>> ELSE <<bs[1] * 256 + bs[2]>> \o Units(SubSeq(bs, 3, Len(bs)))
Even(bs) == IF Len(bs) % 2 = 1 THEN bs \o <<65>> ELSE bs
Spell(b, f, coding) == CASE coding = "u16a0" -> Units(Even(b \o <<f>>))
                         [] coding = "u16a1" -> Units(Even(<<78>> \o b \o <<f>>))
                         [] coding = "ascii" -> b \o <<f>>
Rep(n) == [i \in 1..n |-> Fill]
LenClasses == <<[n |-> "short", k |-> 4], [n |-> "1k", k |-> 600], [n |-> "4k", k |-> 2100]>>
PosSplit(pos, k) == CASE pos = "start" -> <<0, k>> [] pos = "mid" -> <<k \div 2, k - (k \div 2)>> [] pos = "end" -> <<k, 0>>
F2(f) == IF f < 16 THEN "0" \o ToString(f) ELSE ToString(f)
SynCase(kw, coding, f, pos, lc) ==
  LET sp == Spell(kw.b, f, coding)
      pp == PosSplit(pos, lc.k)
      tag == kw.n \o "|" \o coding \o "|f" \o F2(f) \o "|" \o pos \o "|" \o lc.n
  IN IF lc.n = "short"
       THEN LET full == Rep(pp[1]) \o sp \o Rep(pp[2]) IN
            [cps |-> full, pre |-> 0, post |-> 0, fill |-> Fill, vias |-> ViasFor(full, TRUE), unit |-> TRUE, tag |-> tag]
       ELSE [cps |-> sp, pre |-> pp[1], post |-> pp[2], fill |-> Fill,
             vias |-> ViasFor((IF pp[1] > 0 THEN <<Fill>> ELSE <<>>) \o sp \o (IF pp[2] > 0 THEN <<Fill>> ELSE <<>>), SynLongAllVias),
             unit |-> FALSE, tag |-> tag]

Init ==
  \/ \E cp \in Boundary \cup Sample \cup E2ESet : c = Plain(<<cp>>, cp \in E2ESet)
  \/ \E n \in 2..MaxLen : \E t \in [1..n -> {E2E[i] : i \in 1..PairN}] : c = Plain(t, TRUE)
  \/ \E k \in 1..NRandStr : c = Plain(RandCase(k), TRUE)
  \/ \E k \in 1..Len(KW), cd \in 1..3, f \in 1..SynFolN, pos \in {"start", "mid", "end"} :
        c = SynCase(KW[k], Codings[cd], Fols[f], pos, LenClasses[1])
  \/ \E k \in 1..Len(KW), cd \in 1..2, f \in 1..SynLongFolN, pos \in {"start", "mid", "end"}, lc \in 2..3 :
        c = SynCase(KW[k], Codings[cd], Fols[f], pos, LenClasses[lc])
Next == FALSE /\ UNCHANGED c
Spec == Init /\ [][Next]_c

(* design checks of the reference coding *)
ScalarsOnly == \A i \in 1..Len(c.cps) : IsScalar(c.cps[i])
CodingShape == \A i \in 1..Len(c.cps) : LET u == Utf16BE(c.cps[i]) IN
                 /\ Len(u) = (IF c.cps[i] < 65536 THEN 2 ELSE 4)
                 /\ \A j \in 1..Len(u) : u[j] \in Byte
                 /\ Len(u) = 4 => (u[1] \in 216..219 /\ u[3] \in 220..223)
                 /\ \A j \in 1..Len(Utf8(c.cps[i])) : Utf8(c.cps[i])[j] \in Byte
(* a syntax-spelling text really contains keyword + follower in its reference coding (UTF-16BE resp. the code points) *)
RECURSIVE Body16(_)
Body16(cps) == IF cps = <<>> THEN <<>> ELSE Utf16BE(Head(cps)) \o Body16(Tail(cps))
Contains(hay, needle) == \E i \in 0..(Len(hay) - Len(needle)) : SubSeq(hay, i + 1, i + Len(needle)) = needle
SpellsIt == \A k \in 1..Len(KW), f \in 1..Len(Fols) :
              /\ Contains(Body16(Spell(KW[k].b, Fols[f], "u16a0")), KW[k].b \o <<Fols[f]>>)
              /\ Contains(Body16(Spell(KW[k].b, Fols[f], "u16a1")), KW[k].b \o <<Fols[f]>>)
              /\ Spell(KW[k].b, Fols[f], "ascii") = KW[k].b \o <<Fols[f]>>
ASSUME SpellsIt
EmitCase == PrintT(<<"CASE", ToJson(c)>>)
=============================================================================
