------------------------------- MODULE LexText -------------------------------
(* C13 case generation: texts (code point sequences) to be stored as PDF text     *)
(* strings by the real code.  Single code points: the boundary set of the UTF-16  *)
(* coding plus a seeded sample of scalar values; strings: all strings of length   *)
(* 2..MaxLen over the printable boundary alphabet E2E plus seeded longer ones.    *)
(* e2e = TRUE: also store/read the text through document properties, keywords and *)
(* bookmark titles of a real PDF.                                                 *)
EXTENDS Lex, TLC, Json
CONSTANTS Seed, NSample, MaxLen, PairN, NRandStr
VARIABLE c

Boundary == { 0, 8, 9, 10, 12, 13, 32, 40, 41, 92, 127, 128, 160, 255, 256, 2047, 2048, 4095, 4096,
              2573, 3338, 10280, 10281, 10332, 23592, 23644, 23645,    \* UTF-16 bytes 0A0D 0D0A 2828 2829 285C 5C28 5C5C 5C5D
              55295, 57344, 57345, 63743, 65279, 65533, 65534, 65535,  \* D7FF E000 E001 F8FF FEFF FFFD FFFE FFFF
              65536, 65537, 66559, 66560, 128512, 1048575, 1048576, 1113088, 1114110, 1114111 }
E2E == << 40, 92, 233, 2573, 10281, 55295, 57344, 65535, 65536, 1114111,       \* the first 10: quick tier strings
           65, 41, 256, 2047, 2048, 23644, 57345, 65533, 128512 >>
E2ESet == {E2E[i] : i \in DOMAIN E2E}

LCG(x) == (x * 75 + 74) % 65537
Rnd(k) == LET x1 == LCG(((Seed % 65537) * 7919 + k * 31337) % 65537)
              x2 == LCG(x1)
          IN (x1 * 17 + (x2 % 17)) % NumScalars
Sample == {NthScalar(Rnd(k)) : k \in 1..NSample}
RECURSIVE RandStr(_, _)
RandStr(x, n) == IF n = 0 THEN <<>> ELSE <<E2E[(x % Len(E2E)) + 1]>> \o RandStr(LCG(x), n - 1)
RandCase(k) == LET x0 == LCG(((Seed % 65537) * 104729 + k * 7919) % 65537) IN RandStr(LCG(x0), MaxLen + 1 + (x0 % 4))

Cases == {[cps |-> <<cp>>, e2e |-> cp \in E2ESet] : cp \in Boundary \cup Sample \cup E2ESet}
         \cup {[cps |-> t, e2e |-> TRUE] : t \in UNION {[1..n -> {E2E[i] : i \in 1..PairN}] : n \in 2..MaxLen}}
         \cup {[cps |-> RandCase(k), e2e |-> TRUE] : k \in 1..NRandStr}

Init == c \in Cases
Next == FALSE /\ UNCHANGED c
Spec == Init /\ [][Next]_c

(* design checks of the reference coding *)
ScalarsOnly == \A i \in 1..Len(c.cps) : IsScalar(c.cps[i])
CodingShape == \A i \in 1..Len(c.cps) : LET u == Utf16BE(c.cps[i]) IN
                 /\ Len(u) = (IF c.cps[i] < 65536 THEN 2 ELSE 4)
                 /\ \A j \in 1..Len(u) : u[j] \in Byte
                 /\ Len(u) = 4 => (u[1] \in 216..219 /\ u[3] \in 220..223)
                 /\ \A j \in 1..Len(Utf8(c.cps[i])) : Utf8(c.cps[i])[j] \in Byte
EmitCase == PrintT(<<"CASE", ToJson(c)>>)
=============================================================================
