SPECIFICATION Spec
CONSTANTS
  Focus = {1, 2, 3, 4, 5, 6, 7, 8, 9, 10}
  MaxSteps = 2
  Kinds2 = {"set", "subset", "refill", "same"}
  MaxV = 5
  MaxInit = 3
  FreeAll = FALSE
  Emit = TRUE
INVARIANTS InitValid OpsValid ApplyAllowed RefillIsIdentity EmitCase
