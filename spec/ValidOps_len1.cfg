SPECIFICATION Spec
CONSTANTS
  Inputs = {"zine", "nested5"}
  MaxLen = 1
  Emit = TRUE
INVARIANTS TypeOK EmitCase
PROPERTY ValidPreserved
