SPECIFICATION Spec
CONSTANTS
  Inputs = {"zine", "simple3", "text"}
  MaxLen = 1
  Emit = TRUE
INVARIANTS TypeOK EmitCase
PROPERTY ValidPreserved
