SPECIFICATION Spec
CONSTANTS
  Batches <- BatchesQuick
  MaxLen = 1
  Emit = TRUE
INVARIANTS TypeOK EmitCase
PROPERTY ValidPreserved
