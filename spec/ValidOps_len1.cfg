SPECIFICATION Spec
CONSTANTS
  Inputs = {"zine", "simple3"}
  MaxLen = 1
  Emit = TRUE
INVARIANTS TypeOK EmitCase
PROPERTY ValidPreserved
