--------------------------- MODULE ValidOpsTrace ---------------------------
(* Judges the step records of replayed operation histories (harness/cmd/cstruct valid)  *)
(* with ValidOps!Judge: inValid /\ opOk => outValid.  Rejected records are printed.      *)
EXTENDS Integers, Sequences, TLC, Json
Trace == ndJsonDeserialize("records.ndjson")
Judge(r) == (r.inValid /\ r.opOk) => r.outValid
VARIABLE l
Init == l = 1
Next == l <= Len(Trace) /\ l' = l + 1
Spec == Init /\ [][Next]_l
RecordJudged ==
  l <= Len(Trace) => (Judge(Trace[l]) \/ PrintT(<<"DEFECT", ToJson([l |-> l])>>))
TraceAccepted == TLCGet("stats").diameter = Len(Trace) + 1
=============================================================================
