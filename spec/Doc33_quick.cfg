SPECIFICATION Spec
CONSTANTS
  SplitNs = {1,2,3,4,5,6,7,8}
  Spans = {1,2,3,4,5,6,7,8,9}
  NrNs = {1,2,3,4,5,6,7,8}
  NrSampleNs = {}
  NrSamples = 0
  MergeSizes = {1,2,3}
  MergeMax = 5
  AppendMax = 2
  ZipSizes = {1,2,3,4}
  RawNs = {1,2,4,7}
  RawSpans = {1,2,3,7}
  BmNs = {3,5,6}
  SmallMax = 3
  ExtractNs = {4,6}
  Emit = TRUE
INVARIANTS PartsOK MergeOK TreesClear EmitCase
