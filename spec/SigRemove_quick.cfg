SPECIFICATION Spec
CONSTANTS
  NPs = {1, 2}
  MaxFields = 2
  Later = {"tx"}
INVARIANTS KeepDisjoint NoSigNoPerms Emit
