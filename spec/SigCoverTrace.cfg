SPECIFICATION Spec
INVARIANTS PredictOK NonVacuous RecordOK
POSTCONDITION TraceAccepted
CHECK_DEADLOCK FALSE
