SPECIFICATION Spec
CONSTANTS
  Kinds = {"crl", "ocsp", "image"}
  FullKinds = {"crl", "image"}
  LiteChain = 1
  LongBound = 12
  AllowForms = {"none", "exact", "case", "dot", "ip", "parent"}
  RichAllows = {"none", "dot"}
  Variant = 1
  MaxAns = 2
  ChainBound = 2
  Schemes1 = {"http", "https", "HTTP", "ftp", "file", "none"}
  Users1 = {"none", "user", "userpass", "empty"}
  Names1 = {"pki", "PKI", "pkidot", "PKIdot", "other", "sub", "hex", "dec", "oct", "short", "empty"}
  RichNames = {"pki"}
  Lits1 = TRUE
  SchemesR = {"http", "ftp"}
  UsersR = {"none", "userpass"}
  NamesR = {"other"}
  LitsR = TRUE
  CarrierKinds = {"name", "allow", "lit"}
  HistBound = 0
  SameSchemes = {"http", "https", "ftp"}
  SameUsers = {"none", "user", "userpass", "empty"}
  SamePorts = {"", "8080"}
  PoolClasses = {}
  Emit = TRUE
INVARIANTS Safe RedirectsChecked EmitCase
