SPECIFICATION Spec
INVARIANTS GeomOK VacuityOK RecordOK DetectOK
POSTCONDITION TraceAccepted
CHECK_DEADLOCK FALSE
