------------------------- MODULE BookmarksRobust -------------------------
(* Reading bookmarks from an arbitrary (possibly corrupt) outline graph terminates.       *)
(*                                                                                        *)
(* Objects: 0 = the outlines root dictionary, 1..n = outline item dictionaries.           *)
(* Every pointer entry (root: First, Last; item: First, Last, Next, Prev) is absent (None)*)
(* or refers to any object 0..n - cycles, self references, items shared between lists and *)
(* references back to the root included.                                                  *)
(*                                                                                        *)
(* Phase 1 ("build") chooses the pointers one by one, so that TLC enumerates every graph  *)
(* (BFS) or samples them (-simulate).  Phase 2 ("run") is the reader: a depth first walk  *)
(* First/Next that remembers the visited objects and gives up ("cycle") on the first      *)
(* object reached twice.  An object without title (the root, unless rt) is skipped with its kids.     *)
(* Design properties: the reader stops after at most 2*(n+1)+1 steps on every graph, and  *)
(* no item is listed twice.  Every finished run is printed as a case: the graph is written*)
(* as raw outline dictionaries and the real readers must return within a deadline.        *)
EXTENDS Integers, Sequences, FiniteSets, TLC, Json

CONSTANTS Shapes,      \* set of numbers 100*r + 10*n + f: n items; f = 1: all pointers free, f = 0: Last = First and no Prev on items,
                       \* f = 2: Last = First, f = 3: no Prev;
                       \* f = 4 (n >= 3): two sibling lists that may share items, with free /Prev chains - see Family4;
                       \* r = 1: the root dictionary also carries a title and a destination (it reads like an item)
          RootFirsts,  \* values for the root's First (by symmetry 0 and 1 suffice)
          Emit

None == -1

VARIABLES n, fm, rt, ptr, stack, visited, out, status, steps
vars == <<n, fm, rt, ptr, stack, visited, out, status, steps>>

NSlots == 2 + 4 * n
(* slot layout: 1 root.First, 2 root.Last, then per item i: First, Last, Next, Prev *)
Slot(i, f) == 2 + 4 * (i - 1) + f
T == {None} \cup 0..n

RootFirst == ptr[1]
FirstOf(i) == IF i = 0 THEN ptr[1] ELSE ptr[Slot(i, 1)]
NextOf(i)  == IF i = 0 THEN None ELSE ptr[Slot(i, 3)]
HasTitle(i) == i # 0 \/ rt

Init == /\ \E s \in Shapes : n = (s \div 10) % 10 /\ fm = s % 10 /\ rt = (s \div 100 = 1)
        /\ ptr = <<>> /\ stack = <<>> /\ visited = {} /\ out = <<>> /\ status = "build" /\ steps = 0

(* Family 4: item 2 heads the top level list (root.First = 2, root.Last = 1) and may be followed by item 1; item 1 is the only  *)
(* parent: its kids list starts at any other item - also one of the top level list, so that an item sits in two sibling lists - *)
(* and names item n as its Last.  Every item i >= 2 continues (Next) with nothing, itself, the next higher item or an item of   *)
(* the top level list, so that the lists end, loop onto themselves, form rings or rho shapes (a tail leading into a cycle).     *)
(* Every /Prev is free over the items: the chain walked backwards from a list's Last is absent, a self loop, a ring through     *)
(* the last item, or a rho whose cycle does not contain the item it started from.                                              *)
Items == 1..n
Family4(k) ==
  IF k = 1 THEN {2}
  ELSE IF k = 2 THEN {1}
  ELSE LET i == ((k - 3) \div 4) + 1
           f == ((k - 3) % 4) + 1
       IN IF f = 4 THEN {None} \cup Items
          ELSE IF i = 1 THEN (IF f = 1 THEN {None} \cup (Items \ {1})
                              ELSE IF f = 2 THEN (IF ptr[k - 1] = None THEN {None} ELSE {n})
                              ELSE {None})
          ELSE IF f = 3 THEN {None, i, IF i = 2 THEN 1 ELSE 2, IF i < n THEN i + 1 ELSE i}
          ELSE {None}

Choices(k) ==
  IF fm = 4 THEN Family4(k) ELSE
  IF k = 1 THEN (IF n >= 2 /\ rt THEN RootFirsts \ {0} ELSE RootFirsts)   \* a titled root that is its own first item is covered with n = 1
  ELSE IF k = 2 THEN T
  ELSE LET f == ((k - 3) % 4) + 1 IN
       IF f = 2 /\ fm \in {0, 2} THEN {ptr[k - 1]}      \* Last = First
       ELSE IF f = 4 /\ fm \in {0, 3} THEN {None}       \* no Prev
       ELSE T

Build == /\ status = "build"
         /\ Len(ptr) < NSlots
         /\ \E v \in Choices(Len(ptr) + 1) : ptr' = Append(ptr, v)
         /\ UNCHANGED <<n, fm, rt, stack, visited, out, status, steps>>

Start == /\ status = "build"
         /\ Len(ptr) = NSlots
         /\ status' = "run"
         /\ stack' = <<RootFirst>>
         /\ UNCHANGED <<n, fm, rt, ptr, visited, out, steps>>

SetTop(s, v) == [s EXCEPT ![Len(s)] = v]

Read ==
  /\ status = "run"
  /\ steps' = steps + 1
  /\ LET cur == stack[Len(stack)] IN
     IF cur = None THEN
        IF Len(stack) = 1
          THEN status' = "ok" /\ UNCHANGED <<stack, visited, out>>
          ELSE LET s == SubSeq(stack, 1, Len(stack) - 1)
                   p == s[Len(s)]
               IN /\ out' = Append(out, p)          \* the parent is complete once its kids are read
                  /\ stack' = SetTop(s, NextOf(p))
                  /\ UNCHANGED <<visited, status>>
     ELSE IF cur \in visited THEN
        status' = "cycle" /\ UNCHANGED <<stack, visited, out>>
     ELSE /\ visited' = visited \cup {cur}
          /\ UNCHANGED status
          /\ IF ~HasTitle(cur)
               THEN stack' = SetTop(stack, NextOf(cur)) /\ UNCHANGED out
               ELSE IF FirstOf(cur) # None
                      THEN stack' = Append(stack, FirstOf(cur)) /\ UNCHANGED out
                      ELSE out' = Append(out, cur) /\ stack' = SetTop(stack, NextOf(cur))
  /\ UNCHANGED <<n, fm, rt, ptr>>

Next == Build \/ Start \/ Read
Spec == Init /\ [][Next]_vars

Done == status \in {"ok", "cycle"}

(* design properties *)
StepBound == steps <= 2 * (n + 1) + 1
NoDup     == \A i, j \in 1..Len(out) : i # j => out[i] # out[j]
StackBound == Len(stack) <= n + 2
Progress  == status = "run" => ENABLED Read

Case == [n |-> n, rt |-> rt, ptr |-> ptr, status |-> status, out |-> out, steps |-> steps]
EmitCase == Emit /\ Done => PrintT(<<"GRAPH", ToJson(Case)>>)
=============================================================================
