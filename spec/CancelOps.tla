----------------------------- MODULE CancelOps -----------------------------
(* Constants of the cancellation contract of a document read (C10), shared by the design model   *)
(* (Cancel.tla) and by the judge of recorded executions (CancelTrace.tla).                        *)
(*                                                                                                *)
(* A read is a sequence of phases (open/header, locate, xref chain, object streams, dereference,  *)
(* repair); every phase is a loop over units of work (one xref section, one object stream, one    *)
(* object) and every loop looks at the Go context before it starts the next unit.  Hence after a  *)
(* cancellation the reader may at most finish the unit it is working on.                          *)
EXTENDS Integers

(* result kinds a read may end with when its context was cancelled at some point *)
Kinds == {"done", "ctxErr"}

(* Input operations (Read/Seek calls on the io.ReadSeeker) before the first look at the context:  *)
(* file size, header line, startxref search.  Measured 5 on the unchanged tree, head-room 2x.    *)
OpenOps == 10

(* Input operations one unit may need: a constant number of positioning calls plus one linear     *)
(* pass over the bytes of the unit in 4 KiB buffer reads; the unit is at most the whole input.    *)
(* Calibration on the tree with the cancellation defects of the repair path fixed: the maximum    *)
(* observed is 49 operations for a 1 MB input (bound 562), 19 for small inputs (bound >= 32).     *)
Ceil4K(size) == (size + 4095) \div 4096
OpsBound(size) == 32 + 2 * Ceil4K(size)

(* CPU time the reading thread may still consume after the cancellation, in microseconds.  This bounds the work   *)
(* of a unit that touches no input at all (scanning or parsing one huge buffered object), which the operation     *)
(* count cannot see; it is judged for timer cancellations and for cancellations after the j-th operation alike.   *)
TimeBoundUs(fullus) == IF fullus \div 4 > 100000 THEN fullus \div 4 ELSE 100000
=============================================================================
