----------------------------- MODULE SelSyntax -----------------------------
(* Recogniser for the page selection syntax over character-code sequences      *)
(* (TLC strings are atomic, so the harness logs strings as code sequences).     *)
EXTENDS Integers, Sequences

IsD(c) == c \in 48..57
AllD(s) == s # <<>> /\ \A i \in 1..Len(s) : IsD(s[i])
L == <<108>>

RECURSIVE SplitR(_, _, _, _)
SplitR(s, sep, cur, acc) ==
  IF s = <<>> THEN Append(acc, cur)
  ELSE IF Head(s) = sep THEN SplitR(Tail(s), sep, <<>>, Append(acc, cur))
  ELSE SplitR(Tail(s), sep, Append(cur, Head(s)), acc)
Split(s, sep) == SplitR(s, sep, <<>>, <<>>)

BodyOK(t) ==
  LET p == Split(t, 45) IN
  \/ Len(p) = 1 /\ (AllD(p[1]) \/ p[1] = L)
  \/ Len(p) = 2 /\ \/ p[1] = <<>> /\ (AllD(p[2]) \/ p[2] = L)      \* -#   -l
                   \/ AllD(p[1]) /\ (p[2] = <<>> \/ AllD(p[2]) \/ p[2] = L)   \* #-  #-#  #-l
                   \/ p[1] = L /\ AllD(p[2])                           \* l-#
  \/ Len(p) = 3 /\ \/ p[1] = L /\ AllD(p[2]) /\ p[3] = <<>>           \* l-#-
                   \/ p[1] = <<>> /\ p[2] = L /\ AllD(p[3])            \* -l-#
                   \/ AllD(p[1]) /\ p[2] = L /\ AllD(p[3])             \* #-l-#

Even == <<101, 118, 101, 110>>
Odd  == <<111, 100, 100>>
TermOK(t) ==
  \/ t = Even \/ t = Odd
  \/ t # <<>> /\ (IF Head(t) \in {33, 110} THEN Tail(t) # <<>> /\ BodyOK(Tail(t)) ELSE BodyOK(t))

InSyntax(s) == LET ts == Split(s, 44) IN \A i \in 1..Len(ts) : TermOK(ts[i])
=============================================================================
