SPECIFICATION Spec
CONSTANTS
  LAlgs = {"rc4_40", "rc4_128", "aes_128", "aes_256", "aes_256_r6"}
  Layouts = {"classic", "objstm"}
  EMDs = {TRUE}
  Forms = {"literal", "hex", "utf16"}
  UPWs = {"empty", "set"}
  Writes = {1, 2}
  Emit = TRUE
INVARIANTS ExceptionsExact EmitCase
