SPECIFICATION Spec
CONSTANTS
  GraphRels = {"pagetree", "fields", "structtree", "nametree", "numtree", "xobjects"}
  FunRels = {"actionnext", "beads", "xrefprev", "xrefstmprev", "xrefstm", "extends", "length", "refchain", "refcontents", "refkids", "refannots", "pageparent", "fieldparent", "colorspace", "function", "smask", "irt"}
  MaxN = 3
  SymN = 3
  GraphMod = 5
  Decors = {"none", "dangling", "wrong", "null", "direct"}
  DecorMod = 7
  FunMod = 5
  OutTrees = {23}
  OutTreeMod = 119
  OutlineNs = {1, 2}
  Outline1Mod = 7
  OutlineMod = 97
  DepthRels = {"pagetree", "fields", "structtree", "nametree", "numtree", "xobjects", "actionnext", "beads", "xrefprev", "extends", "length", "refchain", "pageparent", "fieldparent", "colorspace", "function", "smask", "irt", "outlinefirst", "outlinenext"}
  SynKinds = {"array", "dict", "mixed", "parens", "contentarray", "contentq", "contentdict"}
  Limit = 100
  BigDepth = 5000
  HugeDepth = 100000
  MutTargets = {"ttf", "certpem", "certder", "p7c", "pkcs7", "json", "csv"}
  MutOps = {"trunc", "len0", "lenmax", "lenplus1", "lenminus1"}
  MutK = 12
  PdfBases = {"classic", "objstm", "encrypted"}
  PdfK = 2
  PdfMod = 13
  TruncK = 12
  Seed = 1
  Emit = TRUE
INVARIANTS StepBound ExpandOnce GuardedDepth Progress EmitCase
