----------------------------- MODULE FormsTrace -----------------------------
(* Validates recorded executions of the real api.FillFormFile / api.ExportFormFile against      *)
(* FormsModel.  records.ndjson: one record per executed step                                     *)
(*   [kind, table, op, pre, post, result]                                                        *)
(* kind   "create": post must be the state asked of the form creator (op carries it as values)   *)
(*        "fill"  : a fill step on the generated form (field table of FormsModel)                *)
(*        "sample": refill of an exported sample form (own field table; only identity is judged) *)
(* result "ok" (output written), "noop" (refused because nothing would change), else the error.  *)
EXTENDS FormsModel

Trace == ndJsonDeserialize("records.ndjson")
VARIABLE l
Init == l = 1
Next == l <= Len(Trace) /\ l' = l + 1
Spec == Init /\ [][Next]_l

States(r) == Len(r.pre) = NF /\ Len(r.post) = NF /\ Len(r.op) = NF

Judge(r) ==
  CASE r.kind = "create" -> /\ r.result = "ok"
                            /\ \A i \in 1..NF : r.post[i].locked = r.op[i].lock /\ r.post[i].val = r.op[i].val
    [] r.kind = "fill"   -> /\ States(r)
                            /\ OpValid(r.op)
                            /\ (r.opkind = "refill" => r.op = ExportOp(r.pre))     \* the harness built the refill from the real export
                            /\ CASE r.result = "ok"   -> FillAllowed(r.pre, r.op, r.post)
                                  [] r.result = "noop" -> ~MustChange(r.pre, r.op) /\ r.post = r.pre
                                  [] OTHER             -> FALSE
    [] r.kind = "sample" -> r.result \in {"ok", "noop"} /\ r.post = r.pre
    [] OTHER -> FALSE

(* a rejected record is printed (its index) instead of stopping TLC, so that one pass judges every record *)
RecordOK == l <= Len(Trace) => IF Judge(Trace[l]) THEN TRUE ELSE PrintT(<<"REJECT", ToJson(l)>>)
TraceAccepted == TLCGet("stats").diameter = Len(Trace) + 1
=============================================================================
