SPECIFICATION Spec
CONSTANTS
  YearLo = 1999
  YearHi = 2001
  ExtraYears = {0, 1, 4, 99, 100, 400, 999, 1000, 1582, 1600, 1900, 1969, 1970, 1971, 2024, 2038, 2100, 9999}
  FullYears = {}
  AllOffs = TRUE
  EdgeTods = FALSE
  Seed = 1
  E2EYears = {1, 999}
  HistLen = 2
  HistN = 12
INVARIANTS RefValid CalendarOK EmitCase
