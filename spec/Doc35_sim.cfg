SPECIFICATION Spec
CONSTANTS
  Mode = "sim"
  MaxLen = 10
  Emit = TRUE
INVARIANTS TypeOK Isolated EmitCase
