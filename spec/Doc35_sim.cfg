SPECIFICATION Spec
CONSTANTS
  Mode = "sim"
  Fams = {"kw", "prop", "view", "att"}
  MaxLen = 10
  Mix = 10
  Bases = {"bare", "info", "rich", "xmpkw"}
  DeepBases = {}
  ShallowBases = {}
  DeepFams = {"kw", "prop", "att"}
  Std = FALSE
  Emit = TRUE
INVARIANTS TypeOK Isolated EmitCase
