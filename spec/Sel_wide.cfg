SPECIFICATION Spec
CONSTANTS
  PCs = {0,1,2,3,4,5,6}
  Nums = {0,1,2,3,4,5,6,7}
  NumsLast = {0}
  MaxFull = 2
  MaxTerms = 2
  Emit = TRUE
INVARIANTS InRange Partition LastWins EmitCase
