\* the model with the map published before it is filled: TLC must find a partially loaded map in a lookup
SPECIFICATION Spec
CONSTANTS
  Readers = {r1, r2}
  Reloaders = {w1, w2}
  OpsR = 1
  OpsW = 1
  MaxGen = 1
  Discipline = TRUE
  Break = "publish_early"
INVARIANTS CompleteGen
