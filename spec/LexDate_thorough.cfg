SPECIFICATION Spec
CONSTANTS
  YearLo = 0
  YearHi = 999
  ExtraYears = {}
  FullYears = {}
  AllOffs = FALSE
  EdgeTods = FALSE
  Seed = 1
INVARIANTS CalendarOK EmitCase
