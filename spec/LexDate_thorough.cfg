SPECIFICATION Spec
CONSTANTS
  YearLo = 0
  YearHi = 999
  ExtraYears = {}
  FullYears = {}
  AllOffs = FALSE
  EdgeTods = FALSE
  Seed = 1
  E2EYears = {}
  HistLen = 0
  HistN = 12
INVARIANTS CalendarOK EmitCase
