------------------------------- MODULE CLIList -------------------------------
(* Listing / reporting commands of the command line that accept "-" (C41):     *)
(* command x sequence of inputs (each good or bad) x which position is read     *)
(* from standard input x state of the configuration directory.  The expected   *)
(* observable outcome: the exit status is 0 exactly when every input is good;  *)
(* the run with "-" at position k is indistinguishable (exit status, stdout up  *)
(* to the source name) from the run that names the same bytes as a file; a JSON *)
(* command that exits 0 prints exactly one JSON document.                       *)
(* NCmds and Multi come from lib/props/c41.py (LIST_CMDS).                      *)
EXTENDS Integers, Sequences, TLC, Json

CONSTANTS NCmds,      \* number of listing commands
          MultiCmds,  \* the commands that accept several inputs
          MaxInputs   \* longest input sequence

VARIABLES cmd, inputs, stdinAt, confdir
vars == <<cmd, inputs, stdinAt, confdir>>

Kinds    == {"good", "bad"}
ConfDirs == {"disabled", "fresh", "outdated"}
SeqsUpTo(n) == UNION {[1..k -> Kinds] : k \in 1..n}

Init == /\ cmd \in 1..NCmds
        /\ inputs \in (IF cmd \in MultiCmds THEN SeqsUpTo(MaxInputs) ELSE SeqsUpTo(1))
        /\ stdinAt \in 0..Len(inputs)          \* 0: every input is a file
        /\ confdir \in ConfDirs
Next == UNCHANGED vars
Spec == Init /\ [][Next]_vars

AllGood == \A i \in 1..Len(inputs) : inputs[i] = "good"
Expect == [exit0 |-> AllGood, sameAsFiles |-> TRUE, oneJSON |-> AllGood]

(* sanity of the table itself *)
FailuresNeverSucceed == (\E i \in 1..Len(inputs) : inputs[i] = "bad") => ~Expect.exit0
EmitCase == PrintT(<<"LCASE", ToJson([cmd |-> cmd, inputs |-> inputs, stdinAt |-> stdinAt, confdir |-> confdir, expect |-> Expect])>>)
=============================================================================
