SPECIFICATION Spec
CONSTANTS
  Seed = 1
  NSample = 5000
  MaxLen = 2
  PairN = 10
  NRandStr = 40
INVARIANTS ScalarsOnly CodingShape EmitCase
