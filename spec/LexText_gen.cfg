SPECIFICATION Spec
CONSTANTS
  Seed = 1
  NSample = 3000
  MaxLen = 2
  PairN = 12
  NRandStr = 40
  SynFolN = 4
  SynLongFolN = 1
  SynLongAllVias = FALSE
INVARIANTS ScalarsOnly CodingShape EmitCase
