--------------------------------------------- MODULE ConcLife ---------------------------------------------
(* C40 - life cycle of the user-font cache in ONE process, as schedules that can be replayed into the real code  *)
(* (harness/cmd/conc life, a fresh process per schedule because the sync.Once state exists once per process).    *)
(*                                                                                                              *)
(* Controllable events (the schedule):                                                                          *)
(*   Start(k)  the next call is issued: k = "lookup" (UserFontNames / IsUserFont / TextWidth with a user font -  *)
(*             the FIRST one of the process loads the fonts) or k = "reload" (ReloadUserFonts)                   *)
(*   Open      the gate opens: until then the directory scan of whichever call is loading cannot finish (the      *)
(*             first font file of the directory is a named pipe whose write end the harness holds)               *)
(* Internal steps (ConcModel at call granularity; mu = loadUserFontsMutex):                                      *)
(*   Acquire(i)   a waiting call takes mu: a lookup that finds the fonts loaded reads and returns; otherwise     *)
(*                the call starts scanning                                                                       *)
(*   ScanDone(i)  gate open: the scanning call publishes (ReloadOp / LoadOp), releases mu and returns            *)
(* Properties: nothing can return while the gate is closed (BlockedWhileClosed); when the gate is open and no     *)
(* more calls are started every started call returns (AllReturn) and every lookup sees the complete directory.    *)
(* Every quiescent state is emitted as a CASE (schedule + expected result per call); the harness replays it under *)
(* a watchdog: a call that does not return is the violation "hang".                                             *)
EXTENDS ConcModel, Sequences, TLC, Json

CONSTANTS MaxCalls

G == {1, 2, 3}      \* the directory content; font 1 is the one behind the gate
FontsOf == [g \in {0} |-> G]

VARIABLES kinds, openAt, cstate, holder, st, obs

vars == <<kinds, openAt, cstate, holder, st, obs>>

Init == /\ kinds = <<>> /\ openAt = -1 /\ cstate = <<>> /\ holder = 0
        /\ st = SeqState(0, NoGen) /\ obs = <<>>

Start(k) == /\ Len(kinds) < MaxCalls
            /\ kinds' = Append(kinds, k) /\ cstate' = Append(cstate, "waiting") /\ obs' = Append(obs, {})
            /\ UNCHANGED <<openAt, holder, st>>

Open == /\ openAt = -1 /\ openAt' = Len(kinds) /\ UNCHANGED <<kinds, cstate, holder, st, obs>>

Acquire(i) == /\ cstate[i] = "waiting" /\ holder = 0
              /\ IF kinds[i] = "lookup" /\ Loaded(st)
                 THEN /\ cstate' = [cstate EXCEPT ![i] = "done"] /\ obs' = [obs EXCEPT ![i] = NamesOf(st, FontsOf)]
                      /\ UNCHANGED holder
                 ELSE /\ cstate' = [cstate EXCEPT ![i] = "scanning"] /\ holder' = i /\ UNCHANGED obs
              /\ UNCHANGED <<kinds, openAt, st>>

ScanDone(i) == /\ cstate[i] = "scanning" /\ openAt >= 0
               /\ st' = IF kinds[i] = "reload" THEN ReloadOp(st) ELSE LoadOp(st)
               /\ holder' = 0
               /\ cstate' = [cstate EXCEPT ![i] = "done"]
               /\ obs' = [obs EXCEPT ![i] = IF kinds[i] = "lookup" THEN NamesOf(st', FontsOf) ELSE {}]
               /\ UNCHANGED <<kinds, openAt>>

Next == \/ \E k \in {"lookup", "reload"} : Start(k)
        \/ Open
        \/ \E i \in 1..Len(kinds) : Acquire(i) \/ ScanDone(i)

Spec == Init /\ [][Next]_vars

AllDone == \A i \in 1..Len(kinds) : cstate[i] = "done"
Quiescent == openAt >= 0 /\ Len(kinds) >= 1 /\ AllDone

BlockedWhileClosed == openAt = -1 => \A i \in 1..Len(kinds) : cstate[i] # "done"
AllReturn == (openAt >= 0 /\ ~AllDone) => ENABLED (\E i \in 1..Len(kinds) : Acquire(i) \/ ScanDone(i))
LookupsComplete == \A i \in 1..Len(kinds) : (cstate[i] = "done" /\ kinds[i] = "lookup") => obs[i] = G

SetToSeq(S) == LET RECURSIVE F(_) F(T) == IF T = {} THEN <<>> ELSE LET m == CHOOSE x \in T : \A y \in T : x <= y IN <<m>> \o F(T \ {m}) IN F(S)

EmitCase == Quiescent => PrintT(<<"CASE", ToJson([kinds |-> kinds, openAt |-> openAt,
                expect |-> [i \in 1..Len(kinds) |-> [obs |-> SetToSeq(obs[i]), found |-> IF kinds[i] = "lookup" THEN 1 ELSE 0]]])>>)
=================================================================================================================
