SPECIFICATION Spec
CONSTANTS
  NB = 4
  OpKinds = {"add", "addu", "rem", "sync"}
  MaxLen = 4
  MaxLevel = 6
  Inits = {"one", "split"}
  Patterns = {"rand"}
  Emit = "state"
INVARIANTS EmitCase
