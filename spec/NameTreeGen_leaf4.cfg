SPECIFICATION Spec
CONSTANTS
  NB = 4
  OpKinds = {"addu", "addx", "rem", "sync"}
  MaxLen = 4
  MaxLevel = 6
  Inits = {"one", "split"}
  Patterns = {"rand"}
  Keeps = {TRUE, FALSE}
  Emit = "state"
INVARIANTS EmitCase
