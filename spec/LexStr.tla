------------------------------- MODULE LexStr -------------------------------
(* C12 case generation: byte strings to be pushed through the real Escape/Unescape *)
(* and EncodeName/DecodeName.  Every state is one input string.                   *)
(*   Mode "alpha" : all strings of length MinLen..MaxLen over the class alphabet   *)
(*                  (every byte the escaping/name rules single out + one member of *)
(*                  every other range) plus NRand seeded longer strings            *)
(*   Mode "bytes1": all 256 single bytes      Mode "bytes2": all 65536 byte pairs *)
EXTENDS Lex, TLC, Json
CONSTANTS Mode, MinLen, MaxLen, AlphaN, NRand, Seed, Slice, NSlices
VARIABLE s

AlphaAll == << 92, 40, 41, 13, 10, 9, 8, 12,    \* \ ( ) CR LF TAB BS FF
               48, 55, 56,                      \* 0 7 8 (octal / non octal digits)
               110, 114,                        \* n r
               35, 47, 37, 60, 62, 91, 123,     \* # / % < > [ {
               32, 0, 128, 97,                  \* SP NUL 0x80 a          (the first 24: quick tier)
               93, 125, 127, 255, 70 >>         \* ] } DEL 0xFF F
AlphaS == SubSeq(AlphaAll, 1, AlphaN)
Alpha == {AlphaS[i] : i \in DOMAIN AlphaS}

LCG(x) == (x * 75 + 74) % 65537
RECURSIVE RandStr(_, _)
RandStr(x, n) == IF n = 0 THEN <<>> ELSE <<AlphaS[(x % Len(AlphaS)) + 1]>> \o RandStr(LCG(x), n - 1)
RandCase(k) == LET x0 == LCG(((Seed % 65537) * 7919 + k * 31337) % 65537) IN RandStr(LCG(x0), MaxLen + 1 + (x0 % 5))

(* Slice/NSlices split the case space by first symbol so that slices can be generated in parallel *)
Mine(S) == {x \in S : x % NSlices = Slice}
IsAlpha == Mode \in {"alpha", "alpha+bytes1"}
Init == \/ IsAlpha /\ MinLen = 0 /\ Slice = 0 /\ s = <<>>
        \/ IsAlpha /\ \E i \in Mine(1..Len(AlphaS)) : \E k \in 0..(MaxLen - 1) : \E f \in [1..k -> Alpha] :
               k + 1 >= MinLen /\ s = <<AlphaS[i]>> \o f
        \/ IsAlpha /\ \E k \in Mine(1..NRand) : s = RandCase(k)
        \/ Mode \in {"bytes1", "alpha+bytes1"} /\ \E b \in Mine(Byte) : s = <<b>>
        \/ Mode = "bytes2" /\ \E a \in Mine(Byte) : \E b \in Byte : s = <<a, b>>
Next == FALSE /\ UNCHANGED s
Spec == Init /\ [][Next]_s

(* design checks of the reference operators on every generated string: the textbook  *)
(* escaping (backslash before \ ( )) is balanced and RefUnescape inverts it.          *)
RECURSIVE RefEsc(_)
RefEsc(b) == IF b = <<>> THEN <<>>
             ELSE (IF Head(b) \in {92, 40, 41} THEN <<92, Head(b)>>
                   ELSE IF Head(b) = 13 THEN <<92, 114>> ELSE <<Head(b)>>) \o RefEsc(Tail(b))
RefRoundTrip == EscapeOK(RefEsc(s)) /\ RefUnescape(RefEsc(s)) = s
RECURSIVE RefEnc(_)
Hx(n) == IF n < 10 THEN 48 + n ELSE 87 + n
RefEnc(b) == IF b = <<>> THEN <<>>
             ELSE (IF RegularPrintable(Head(b)) /\ Head(b) # 35 THEN <<Head(b)>>
                   ELSE <<35, Hx(Head(b) \div 16), Hx(Head(b) % 16)>>) \o RefEnc(Tail(b))
RefNameRoundTrip == NameCharOK(RefEnc(s)) /\ RefDecodeName(RefEnc(s)) = s

EmitCase == PrintT(<<"CASE", ToJson([s |-> s])>>)
=============================================================================
