------------------------------- MODULE LexStr -------------------------------
(* C12 case generation: byte strings to be pushed through the real Escape/Unescape *)
(* and EncodeName/DecodeName.  Every state is one case (s, cps, file):            *)
(*   s    the byte string;                                                        *)
(*   cps  non-empty for text cases: s = TextBytes(cps) is the UTF-16BE text string *)
(*        of the code points cps and the case also goes through the text string   *)
(*        API (EscapedUTF16String and its readers);                               *)
(*   file the string (as a name: dictionary key and name value) is also written   *)
(*        into a real PDF - once inside an object stream, once as a plain object -*)
(*        and read back.                                                          *)
(*   Mode "alpha" : all strings of length MinLen..MaxLen over the class alphabet   *)
(*                  (every byte the escaping/name rules single out + one member of *)
(*                  every other range) plus NRand seeded longer strings            *)
(*   Mode "bytes1": all 256 single bytes      Mode "bytes2": all 65536 byte pairs *)
(*   Files: name cases = alphabet strings up to FileMaxLen without NUL, plus the   *)
(*          name grammar family (escape introducer '#' followed by 0, 1, 2 hex or  *)
(*          non-hex characters, with and without context)                         *)
(*   TextLevel 1/2: text cases over code points chosen by their UTF-16BE BYTES:    *)
(*          every escaped/delimiter byte at every byte position of a BMP code unit *)
(*          and of a surrogate pair (positions 2 and 4), alone and next to others  *)
EXTENDS Lex, TLC, Json
CONSTANTS Mode, MinLen, MaxLen, AlphaN, NRand, Seed, Slice, NSlices, Files, FileMaxLen, TextLevel
VARIABLES s, cps, file
vars == <<s, cps, file>>

AlphaAll == << 92, 40, 41, 13, 10, 9, 8, 12,    \* \ ( ) CR LF TAB BS FF
               48, 55, 56,                      \* 0 7 8 (octal / non octal digits)
               110, 114,                        \* n r
               35, 47, 37, 60, 62, 91, 123,     \* # / % < > [ {
               32, 0, 128, 97,                  \* SP NUL 0x80 a          (the first 24: quick tier)
               93, 125, 127, 255, 70 >>         \* ] } DEL 0xFF F
AlphaS == SubSeq(AlphaAll, 1, AlphaN)
Alpha == {AlphaS[i] : i \in DOMAIN AlphaS}

LCG(x) == (x * 75 + 74) % 65537
RECURSIVE RandStr(_, _)
RandStr(x, n) == IF n = 0 THEN <<>> ELSE <<AlphaS[(x % Len(AlphaS)) + 1]>> \o RandStr(LCG(x), n - 1)
RandCase(k) == LET x0 == LCG(((Seed % 65537) * 7919 + k * 31337) % 65537) IN RandStr(LCG(x0), MaxLen + 1 + (x0 % 5))

(* Slice/NSlices split the case space by first symbol so that slices can be generated in parallel *)
Mine(S) == {x \in S : x % NSlices = Slice}
IsAlpha == Mode \in {"alpha", "alpha+bytes1"}
NoNul(b) == \A i \in 1..Len(b) : b[i] # 0
Bytes(b) == s = b /\ cps = <<>> /\ file = (Files /\ IsAlpha /\ Len(b) <= FileMaxLen /\ NoNul(b))

(* ---- name grammar family (7.3.5): '#' followed by 0..2 characters that are hex digits, non-hex or '#' *)
HexAlpha == {48, 49, 52, 97, 70, 120, 35}                 \* 0 1 4 a F x #
NameGrammar == {pre \o <<35>> \o h \o suf : pre \in {<<>>, <<71, 83>>}, suf \in {<<>>, <<90>>},
                                             h \in UNION {[1..n -> HexAlpha] : n \in 0..2}}

(* ---- text cases: code points chosen by the bytes of their UTF-16BE code units *)
EscBytes == <<40, 41, 92, 13, 10, 9, 8, 12>>               \* ( ) \ CR LF TAB BS FF: the bytes Escape treats specially
TB == {EscBytes[i] : i \in 1..(IF TextLevel >= 2 THEN 8 ELSE 5)} \cup {65}
BmpCp(h, l) == h * 256 + l                                 \* code unit h l
(* surrogate pair D8+a b2 DC+g b4: bytes 2 and 4 of the pair are free *)
AstCp(a, b2, g, b4) == 65536 + ((a * 256 + b2) * 1024) + (g * 256 + b4)
Ast(b2, b4) == AstCp((b2 + b4) % 4, b2, (b2 * 3 + b4) % 4, b4)
ASSUME \A a \in 0..3, g \in 0..3, b2 \in TB, b4 \in TB : Utf16BE(AstCp(a, b2, g, b4)) = <<216 + a, b2, 220 + g, b4>>
BmpSet == {BmpCp(h, l) : h \in TB \cup {0}, l \in TB}
AstSet == {Ast(b2, b4) : b2 \in TB, b4 \in TB}
AdjSet == {40, 41, 92, 65, BmpCp(92, 65), BmpCp(65, 92), BmpCp(40, 41)}    \* BMP neighbours: ( ) \ A U+5C41 U+415C U+2829
TextCases == {<<cp>> : cp \in BmpSet \cup AstSet}
             \cup {<<a, b>> : a \in AstSet, b \in AdjSet} \cup {<<b, a>> : a \in AstSet, b \in AdjSet}
             \cup (IF TextLevel >= 2 THEN {<<a, b>> : a \in BmpSet \cup AstSet, b \in BmpSet \cup AstSet} ELSE {<<a, b>> : a \in AstSet, b \in {Ast(40, 92), Ast(92, 41), Ast(65, 92)}})

Init == \/ IsAlpha /\ MinLen = 0 /\ Slice = 0 /\ Bytes(<<>>)
        \/ IsAlpha /\ \E i \in Mine(1..Len(AlphaS)) : \E k \in 0..(MaxLen - 1) : \E f \in [1..k -> Alpha] :
               k + 1 >= MinLen /\ Bytes(<<AlphaS[i]>> \o f)
        \/ IsAlpha /\ \E k \in Mine(1..NRand) : Bytes(RandCase(k))
        \/ Mode \in {"bytes1", "alpha+bytes1"} /\ \E b \in Mine(Byte) : Bytes(<<b>>)
        \/ Mode = "bytes2" /\ \E a \in Mine(Byte) : \E b \in Byte : Bytes(<<a, b>>)
        \/ Files /\ Slice = 0 /\ \E n \in NameGrammar : s = n /\ cps = <<>> /\ file = TRUE
        \/ TextLevel >= 1 /\ Slice = 0 /\ \E t \in TextCases : s = TextBytes(t) /\ cps = t /\ file = FALSE
Next == FALSE /\ UNCHANGED vars
Spec == Init /\ [][Next]_vars

(* design checks of the reference operators on every generated string: the textbook  *)
(* escaping (backslash before \ ( )) is balanced and RefUnescape inverts it.          *)
RECURSIVE RefEsc(_)
RefEsc(b) == IF b = <<>> THEN <<>>
             ELSE (IF Head(b) \in {92, 40, 41} THEN <<92, Head(b)>>
                   ELSE IF Head(b) = 13 THEN <<92, 114>> ELSE <<Head(b)>>) \o RefEsc(Tail(b))
RefRoundTrip == EscapeOK(RefEsc(s)) /\ RefUnescape(RefEsc(s)) = s
RECURSIVE RefEnc(_)
Hx(n) == IF n < 10 THEN 48 + n ELSE 87 + n
RefEnc(b) == IF b = <<>> THEN <<>>
             ELSE (IF RegularPrintable(Head(b)) /\ Head(b) # 35 THEN <<Head(b)>>
                   ELSE <<35, Hx(Head(b) \div 16), Hx(Head(b) % 16)>>) \o RefEnc(Tail(b))
RefNameRoundTrip == NameCharOK(RefEnc(s)) /\ RefDecodeName(RefEnc(s)) = s

EmitCase == PrintT(<<"CASE", ToJson([s |-> s, cps |-> cps, file |-> file])>>)
=============================================================================
