----------------------------- MODULE LimitsGen -----------------------------
(* Generator of bomb configurations for C09: every initial state is one configuration.           *)
(*  decode family: filter pipeline (1..MaxStages stages, predictor on a final Flate stage) x      *)
(*                 container x size class of the decoded data relative to MaxDecodeBytes x limit  *)
(*  stream family: encoded size class relative to MaxStreamBytes x how /Length lies x container   *)
(*  count family:  /Size, /Index, object stream /N and /First, nesting depth, image pixels:        *)
(*                 value class relative to its (small) configured limit                            *)
EXTENDS Limits, TLC, Json

CONSTANTS MaxStages,     \* 1..3
          Stage3Mod,     \* a 3-stage pipeline is generated iff (PipeCode + Seed) % Stage3Mod = 0
          Seed,
          DecodeLimits,  \* set of MaxDecodeBytes values combined with every pipeline
          FlOnlyLimits,  \* further MaxDecodeBytes values, combined with the <<"Fl">> pipeline only
          X100Max1,      \* the class x100 is generated for limits up to X100Max1 (1-stage pipelines) ...
          X100MaxN,      \* ... and up to X100MaxN (longer pipelines)
          X100Skip,      \* limits for which the class x100 is not generated (keeps the quick tier away from mid-sized bombs)
          StreamLimits,  \* set of MaxStreamBytes values
          CountLimits,   \* set of limits for the count family
          IndexLimits,   \* limits (MaxXRefEntries) for the multi subsection /Index cases
          IndexParts,    \* numbers of subsections
          Containers, Emit

VARIABLE cfg

FCode(f) == CASE f = "Fl" -> 0 [] f = "LZW" -> 1 [] f = "RL" -> 2 [] f = "AHx" -> 3
PipeCode(p) == IF Len(p) = 3 THEN 16 * FCode(p[1]) + 4 * FCode(p[2]) + FCode(p[3]) ELSE 0
PipesOfLen(n) == [1..n -> Filters]
Pipes == UNION {PipesOfLen(n) : n \in 1..MaxStages}
PipeOK(p) == Len(p) < 3 \/ (PipeCode(p) + Seed) % Stage3Mod = 0
Classes == {"below", "at", "above", "x100"}

DecodeCases ==
  {c \in [fam : {"decode"}, pipe : {p \in Pipes : PipeOK(p)}, pred : {0, 1}, cont : Containers, cls : Classes,
           lim : DecodeLimits \cup FlOnlyLimits] :
      /\ (c.pred = 1 => c.pipe[Len(c.pipe)] = "Fl")
      /\ (c.lim \notin DecodeLimits => c.pipe = <<"Fl">>)
      /\ (c.cls = "x100" => HasCompressing(c.pipe))
      /\ (c.cls = "x100" => c.lim <= (IF Len(c.pipe) = 1 THEN X100Max1 ELSE X100MaxN) /\ c.lim \notin X100Skip)}

LenModes == {"true", "huge", "zero", "indirect", "short"}
StreamCases ==
  {c \in [fam : {"stream"}, pipe : {<<>>, <<"Fl">>}, lenmode : LenModes, cont : Containers \ {"xref"}, cls : Classes, lim : StreamLimits] :
      (c.cls = "x100" => c.lim <= X100MaxN)}

CountKinds == {"size", "index", "objstmN", "objstmProlog", "objstmFirst", "nesting", "imagepx"}
CountCases == [fam : {"count"}, kind : CountKinds, cls : Classes, lim : CountLimits, strict : BOOLEAN, parts : {1}, arr : {""}]

(* /Index of an xref stream with several subsections: parts subsections of about total/parts entries each (every   *)
(* one within the limit unless the total is far beyond it), repeated (all start at 0), overlapping (each starts   *)
(* in the middle of its predecessor) or adjacent.  The limit bounds the total number of announced entries.        *)
IndexArrangements == {"repeat", "overlap", "adjacent"}
IndexPartCases == [fam : {"count"}, kind : {"indexparts"}, cls : Classes, lim : IndexLimits, strict : BOOLEAN,
                   parts : IndexParts, arr : IndexArrangements]

Target(c) == IF c.fam = "count" THEN ClassValue(c.cls, c.lim) ELSE ClassValue(c.cls, c.lim)

Init == cfg \in DecodeCases \cup StreamCases \cup CountCases \cup IndexPartCases
Next == UNCHANGED cfg
Spec == Init /\ [][Next]_cfg

(* sanity of the generator itself *)
TargetBeyondIffClass == Beyond(Target(cfg), cfg.lim) <=> cfg.cls \in {"above", "x100"}

(* derived flows (as "derive>consume" names) are generated for the single stage pipelines: the migration of a    *)
(* stream does not depend on how many filters it has                                                             *)
RECURSIVE FlowSeq(_)
FlowSeq(S) == IF S = {} THEN <<>> ELSE LET f == CHOOSE x \in S : TRUE IN <<f[1] \o ">" \o f[2]>> \o FlowSeq(S \ {f})
Out(c) == [fam |-> c.fam, cls |-> c.cls, lim |-> c.lim, target |-> Target(c), beyond |-> Beyond(Target(c), c.lim),
           pipe |-> IF c.fam = "count" THEN <<>> ELSE c.pipe,
           pred |-> IF c.fam = "decode" THEN c.pred ELSE 0,
           cont |-> IF c.fam = "count" THEN "" ELSE c.cont,
           lenmode |-> IF c.fam = "stream" THEN c.lenmode ELSE "",
           kind |-> IF c.fam = "count" THEN c.kind ELSE "",
           strict |-> IF c.fam = "count" THEN c.strict ELSE FALSE,
           parts |-> IF c.fam = "count" THEN c.parts ELSE 1,
           arr |-> IF c.fam = "count" THEN c.arr ELSE "",
           flows |-> IF c.fam = "decode" /\ Len(c.pipe) = 1 THEN FlowSeq(DerivedFlows(c.cont)) ELSE <<>>]
EmitCase == Emit => PrintT(<<"CASE", ToJson(Out(cfg))>>)
=============================================================================
