------------------------------ MODULE SigCover ------------------------------
(* C28: the manipulation lattice.  geom.ndjson lists every signature of every        *)
(* document with its measured geometry (file length f, /ByteRange a b c d, extent     *)
(* [gaplo, gaphi) of the /Contents hex string, gt = the gap widenings that end on a    *)
(* later '>' byte).  The synthetic documents span signature profile x /Type of the     *)
(* signature dictionary (Sig, DocTimeStamp) x role (field value, direct /Perms /UR3).  Every reachable state is one case:   *)
(* a signature plus one manipulation, with the predicted new /ByteRange, file length  *)
(* and Covers.  harness/cmd/sig applies it to the real file and runs the real         *)
(* validation; SigCoverTrace judges the recorded verdicts.                            *)
(*                                                                                    *)
(* Families                                                                           *)
(*   intact                 nothing                                                   *)
(*   resign A E1 C E2       (synthetic documents only) the document is SIGNED over    *)
(*                          a = A, a+b = gaplo+E1, c = gaphi+C, c+d = f+E2, so the    *)
(*                          signature verifies cryptographically and only the         *)
(*                          structural checks can tell that it does not cover         *)
(*   append n               n bytes appended after the last byte                      *)
(*   incr                   a real incremental update appended with the real API      *)
(*   brshift idx delta      one /ByteRange value rewritten in place                   *)
(*   gapmove dE1 dC         gap widened / narrowed: b+dE1, c+dC, d-dC                 *)
(*   overlap k              b enlarged so that the first range ends k bytes behind    *)
(*                          the start of the second                                   *)
EXTENDS Sig, TLC, Json, FiniteSets

CONSTANTS AMax,   \* resign: a in 0..AMax
          Far,    \* resign: E1 in -Far..2, C in -2..Far   (at most two bytes of the constant ends of the hex string can be signed)
          Shift,  \* brshift / gapmove deltas in -Shift..Shift
          Wide    \* more E2 values

Geom == ndJsonDeserialize("geom.ndjson")

E1s == (0-Far)..2
Cs  == (0-2)..Far
E2s == IF Wide THEN {0-10, 0-2, 0-1, 0, 1, 2} ELSE {0-10, 0-1, 0, 1}
Ds  == ((0-Shift)..Shift)

(* widenings of the gap that make it end exactly on a later '>' byte (e.g. the brackets closing the dictionary) *)
Closers(g) == {g.gt[i] : i \in 1..Len(g.gt)}
P(fam, p1, p2, p3, p4) == [fam |-> fam, p1 |-> p1, p2 |-> p2, p3 |-> p3, p4 |-> p4]
Manips(g) ==
    {P("intact", 0, 0, 0, 0), P("incr", 0, 0, 0, 0)}
    \cup {P("append", n, 0, 0, 0) : n \in {1, 10}}
    \cup {P("brshift", i, dl, 0, 0) : i \in 1..4, dl \in Ds \ {0}}
    \cup ({P("gapmove", x, y, 0, 0) : x \in Ds, y \in Ds} \ {P("gapmove", 0, 0, 0, 0)})
    \cup {P("overlap", k, 0, 0, 0) : k \in {1, 2, 10}}
    \cup (IF g.synth THEN {P("resign", a, e1, c, e2) : a \in 0..AMax, e1 \in E1s, c \in Cs \cup Closers(g), e2 \in E2s} ELSE {})

BR0(g) == <<g.a, g.b, g.c, g.d>>

NewBR(g, m) ==
    CASE m.fam = "resign"  -> <<m.p1, g.gaplo + m.p2 - m.p1, g.gaphi + m.p3, g.f + m.p4 - (g.gaphi + m.p3)>>
      [] m.fam = "brshift" -> [i \in 1..4 |-> IF i = m.p1 THEN BR0(g)[i] + m.p2 ELSE BR0(g)[i]]
      [] m.fam = "gapmove" -> <<g.a, g.b + m.p1, g.c + m.p2, g.d - m.p2>>
      [] m.fam = "overlap" -> <<g.a, (g.c - g.a) + m.p1, g.c, g.d>>
      [] OTHER             -> BR0(g)

(* an incremental update grows the file by an amount the model does not know: any positive growth gives the same answer *)
Growth(m) == IF m.fam = "append" THEN m.p1 ELSE IF m.fam = "incr" THEN 1 ELSE 0
NewF(g, m) == g.f + Growth(m)

WellFormed(g, m) == \A i \in 1..4 : NewBR(g, m)[i] >= 0

VARIABLES gi, m
vars == <<gi, m>>
Init == /\ gi \in 1..Len(Geom)
        /\ m \in Manips(Geom[gi])
        /\ WellFormed(Geom[gi], m)
Next == UNCHANGED vars
Spec == Init /\ [][Next]_vars

PCovers == Covers(NewF(Geom[gi], m), NewBR(Geom[gi], m), Geom[gi].gaplo, Geom[gi].gaphi)

(* design properties of the lattice *)
OnlyIdentityCovers ==          \* a manipulated case never covers, an intact one covers iff the document did
    /\ m.fam = "resign" => (PCovers <=> (m.p1 = 0 /\ m.p2 = 0 /\ m.p3 = 0 /\ m.p4 = 0))
    /\ m.fam \in {"append", "incr", "brshift", "gapmove", "overlap"} => ~PCovers
GrowthIrrelevant ==            \* for incr: every positive growth is judged like growth 1
    m.fam = "incr" => \A k \in {1, 2, 1000} :
        Covers(Geom[gi].f + k, NewBR(Geom[gi], m), Geom[gi].gaplo, Geom[gi].gaphi) = PCovers

Case == [doc |-> Geom[gi].doc, sig |-> Geom[gi].sig, fam |-> m.fam, p1 |-> m.p1, p2 |-> m.p2, p3 |-> m.p3, p4 |-> m.p4,
         pa |-> NewBR(Geom[gi], m)[1], pb |-> NewBR(Geom[gi], m)[2], pc |-> NewBR(Geom[gi], m)[3], pd |-> NewBR(Geom[gi], m)[4],
         pf |-> NewF(Geom[gi], m), pcovers |-> PCovers]
Emit == PrintT(<<"CASE", ToJson(Case)>>)
=============================================================================
