----------------------------- MODULE ImposeTrace -----------------------------
(* Judges records of the real imposition code with Impose.tla.                                         *)
(* booklet record: [id, kind |-> "booklet", k, n, mf, folio, sel (selected pages ascending), accepted,   *)
(*                  panic, err, slots (page number per slot, 0 = blank), pages, desc]                    *)
(* nup/grid record: same fields; pages = for every output page the selected pages placed on it in        *)
(*                  content order; n = cells per output page; slots unused.                              *)
(* bookletfile record: pages = for every output sheet side the selected pages painted on it (end to end   *)
(*                  through api.BookletFile): every selected page exactly once, whole sheets.            *)
(* Rejected configurations are not judged.  A record failing some conjunct is printed as a BAD payload. *)
EXTENDS Impose, Json, TLC, SequencesExt
Trace == ndJsonDeserialize("records.ndjson")
VARIABLE l
Init == l = 1
Next == l <= Len(Trace) /\ l' = l + 1
Spec == Init /\ [][Next]_l

Diag(rec) ==
  IF ~rec.accepted THEN [skipped |-> TRUE]
  ELSE IF rec.kind = "booklet" THEN
    LET sel == Range(rec.sel) sheet == SlotsPerSheet(rec.n) IN
    [ completes  |-> ~rec.panic /\ rec.err = "",
      placesonce |-> rec.panic \/ PlacesOnce(rec.slots, sel),
      wholesheets|-> rec.panic \/ WholeSheets(rec.slots, sheet),
      nospare    |-> rec.panic \/ NoSpareSheet(rec.slots, sel, sheet),
      signatures |-> rec.panic \/ ~rec.mf \/ SignaturesOK(rec.slots, rec.sel, sheet, 4 * rec.folio) ]
  ELSE IF rec.kind = "bookletfile" THEN
    LET sel == Range(rec.sel) sheet == SlotsPerSheet(rec.n) done == ~rec.panic /\ rec.err = "" IN
    [ completes  |-> done,
      placesonce |-> ~done \/ PlacesOnce(FlattenSeq(rec.pages), sel),
      wholesheets|-> ~done \/ Len(rec.pages) * rec.n = RoundUp(Cardinality(sel), sheet) ]
  ELSE
    [ completes  |-> ~rec.panic /\ rec.err = "",
      pagecount  |-> rec.panic \/ rec.err # "" \/ Len(rec.pages) = NUpPages(Len(rec.sel), rec.n),
      inorder    |-> rec.panic \/ rec.err # "" \/ IsNUpLayout(rec.pages, rec.sel, rec.n) ]
RecordOK == l <= Len(Trace) =>
              LET d == Diag(Trace[l]) IN (\A c \in DOMAIN d : d[c]) \/ PrintT(<<"BAD", ToJson([l |-> l, diag |-> d])>>)
TraceAccepted == TLCGet("stats").diameter = Len(Trace) + 1
=============================================================================
