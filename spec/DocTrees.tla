------------------------------ MODULE DocTrees ------------------------------
(* Generated document trees for the document-level properties (C32, C33): six shapes of page trees with   *)
(* attributes inherited from the root and from intermediate Pages nodes, pages with their own attributes,  *)
(* and the "own box followed by inheriting siblings" shape.  Shape(n, k, prefix) has n pages whose unique  *)
(* markers are prefix1 .. prefixn.  Doc!TreePages resolves the inheritance.                                *)
EXTENDS Doc

A4 == <<0, 0, 595, 842>>
B1 == <<0, 0, 200, 300>>
B2 == <<0, 0, 400, 500>>
B3 == <<10, 20, 310, 420>>
C1 == <<10, 10, 190, 290>>
C2 == <<20, 20, 300, 300>>
C3 == <<5, 5, 100, 100>>
Pg(i, rot, media, crop) == [idx |-> i, rot |-> rot, media |-> media, crop |-> crop]
Grp(node, rot, media, crop, ps) == [node |-> node, rot |-> rot, media |-> media, crop |-> crop, pages |-> ps]
RotCycle == <<-1, 0, 90, 180, 270>>
Cnt(n, sz, g) == Min2(sz, n - (g - 1) * sz)

ShapeIdx(n, k) ==
  CASE k = 1 ->   \* flat, everything inherited from the root
         [media |-> A4, rot |-> -1, groups |-> <<Grp(FALSE, -1, NoBox, NoBox, [i \in 1..n |-> Pg(i, -1, NoBox, NoBox)])>>]
    [] k = 2 ->   \* flat, Rotate inherited from the root, mixed own rotations
         [media |-> A4, rot |-> 90, groups |-> <<Grp(FALSE, -1, NoBox, NoBox,
                     [i \in 1..n |-> Pg(i, RotCycle[(i % 5) + 1], NoBox, NoBox)])>>]
    [] k = 3 ->   \* a page with its own MediaBox/CropBox followed by siblings inheriting theirs
         [media |-> A4, rot |-> -1, groups |-> <<Grp(FALSE, -1, NoBox, NoBox,
                     [i \in 1..n |-> Pg(i, IF i = 3 THEN 270 ELSE -1,
                                        IF i = 1 THEN B1 ELSE IF i = 4 THEN B3 ELSE NoBox,
                                        IF i = 1 THEN C1 ELSE NoBox)])>>]
    [] k = 4 ->   \* intermediate nodes of 2 pages with inherited Rotate / MediaBox
         [media |-> A4, rot |-> 90, groups |->
            [g \in 1..CeilDiv(n, 2) |->
               Grp(TRUE, IF g % 2 = 1 THEN 180 ELSE -1, IF g % 3 = 1 THEN B2 ELSE NoBox, NoBox,
                   [j \in 1..Cnt(n, 2, g) |->
                      Pg((g - 1) * 2 + j, IF j = 2 /\ g % 2 = 1 THEN 0 ELSE IF j = 1 /\ g % 4 = 0 THEN 270 ELSE -1, NoBox, NoBox)])]]
    [] k = 5 ->   \* intermediate nodes of 3 pages with inherited CropBox / MediaBox / Rotate, own boxes inside
         [media |-> A4, rot |-> -1, groups |->
            [g \in 1..CeilDiv(n, 3) |->
               Grp(TRUE, IF g % 2 = 0 THEN 270 ELSE -1, IF g % 2 = 1 THEN B2 ELSE NoBox, IF g % 3 # 2 THEN C2 ELSE NoBox,
                   [j \in 1..Cnt(n, 3, g) |->
                      Pg((g - 1) * 3 + j, -1,
                         IF j = 2 /\ g % 2 = 1 THEN B1 ELSE NoBox,
                         IF j = 2 /\ g % 2 = 1 THEN C1 ELSE IF j = 3 /\ g % 2 = 0 THEN C3 ELSE NoBox)])]]
    [] k = 6 ->   \* pages directly below the root, then nodes with MediaBox/Rotate, then a page below the root again
         LET d1   == Min2(2, n)
             rest == n - d1
             tail == IF rest >= 3 THEN 1 ELSE 0
             mid  == rest - tail
         IN [media |-> A4, rot |-> -1, groups |->
               <<Grp(FALSE, -1, NoBox, NoBox, [i \in 1..d1 |-> Pg(i, IF i = 2 THEN 90 ELSE -1, IF i = 1 THEN B3 ELSE NoBox, NoBox)])>>
               \o [g \in 1..CeilDiv(mid, 2) |->
                     Grp(TRUE, IF g % 2 = 1 THEN 90 ELSE -1, IF g % 2 = 1 THEN B2 ELSE NoBox, NoBox,
                         [j \in 1..Cnt(mid, 2, g) |-> Pg(d1 + (g - 1) * 2 + j, IF j = 2 THEN 180 ELSE -1, NoBox, NoBox)])]
               \o (IF tail = 1 THEN <<Grp(FALSE, -1, NoBox, NoBox, <<Pg(n, -1, NoBox, NoBox)>>)>> ELSE <<>>)]


(* the same tree with page markers prefix \o index *)
Shape(n, k, prefix) ==
  LET t == ShapeIdx(n, k) IN
  [media |-> t.media, rot |-> t.rot, groups |->
     [g \in 1..Len(t.groups) |->
        [node |-> t.groups[g].node, rot |-> t.groups[g].rot, media |-> t.groups[g].media, crop |-> t.groups[g].crop,
         pages |-> [j \in 1..Len(t.groups[g].pages) |->
                      LET p == t.groups[g].pages[j] IN
                      [mark |-> prefix \o ToString(p.idx), rot |-> p.rot, media |-> p.media, crop |-> p.crop]]]]]
NShapes == 6
=============================================================================
