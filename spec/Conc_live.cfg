\* no operation can get stuck (every non-terminal state has a successor); small instance, ENABLED is costly
SPECIFICATION Spec
CONSTANTS
  Readers = {r1, r2}
  Reloaders = {w1}
  OpsR = 1
  OpsW = 2
  MaxGen = 1
  Discipline = TRUE
  Break = "none"
INVARIANTS NoStuck LockSanity
