---------------------------- MODULE StagedTrace ----------------------------
(* Inclusion of recorded os-call traces of real api.*File executions in the    *)
(* behaviours of Staged.tla. lib/stagedmon.py projects every trace of          *)
(* harness/cmd/fsops onto the protocol's events (one line per call on the      *)
(* staged output, the temp file or the destination, plus "other" for a failing *)
(* call elsewhere and "end" carrying the outcome and the final classification  *)
(* of the destination).  Steps that leave no call (finishing the body, the     *)
(* deferred decision, closing inputs successfully) are silent steps; the       *)
(* high-water mark of consumed lines decides acceptance.                       *)
EXTENDS Staged, Json

Trace == ndJsonDeserialize("strace.ndjson")
VARIABLE l
tvars == <<vars, l>>

Ev == Trace[l]
Is(e) == l <= Len(Trace) /\ Ev.ev = e /\ l' = l + 1
(* the logged result selects the branch of the action *)
Res == /\ Ev.r = "ok"    => faults' = faults /\ panicked' = panicked
       /\ Ev.r = "err"   => faults' = faults + 1
       /\ Ev.r = "panic" => panicked' /\ ~panicked

Silent == /\ (BodyDone \/ Unwind \/ (BodyErr /\ faults' = faults)
              \/ (CommitCloseIn /\ faults' = faults) \/ (FailCloseIn /\ faults' = faults) \/ (CleanupCloseIn /\ faults' = faults))
          /\ UNCHANGED l

TOpenExcl   == Is("OpenExcl") /\ OpenExcl /\ Res
TStat       == Is("Stat") /\ Stat /\ Res
TCreateTemp == Is("CreateTemp") /\ CreateTemp /\ Res
TFchmod     == Is("Fchmod") /\ Fchmod /\ Res
TWrite      == Is("Write") /\ (Write \/ DeferredFlush) /\ Res
TCloseOut   == Is("CloseOut") /\ (OpenFailClose \/ CommitCloseOut \/ CleanupCloseOut) /\ Res
TRename     == Is("Rename") /\ Rename /\ Res
TRemove     == Is("Remove") /\ (OpenFailRemove \/ FailRemove) /\ Res
(* a failing call that is not one of the protocol's own: it fails the body or the closing of the inputs *)
TOther      == Is("Other") /\ (BodyErr \/ BodyIgnoresErr \/ CommitCloseIn \/ FailCloseIn \/ CleanupCloseIn \/ CallerCloseFails) /\ faults' = faults + 1

(* the end of a trace: outcome and final state of the real run agree with the model; then the next trace starts *)
FinalOK == /\ Ev.outcome = "ok"    => Succeeded
           /\ Ev.outcome = "err"   => Done /\ err /\ ~panicked
           /\ Ev.outcome = "panic" => Done /\ panicked
           /\ Ev.fout = (IF out \in {"partial", "complete"} THEN "new" ELSE out)
           /\ (Ev.ftmp = "none") = (tmp = "none")
TEnd == /\ Is("end") /\ Done /\ FinalOK
        /\ pc' = (IF Variant = "inplace" THEN "stat" ELSE "openexcl")
        /\ out' = Init0 /\ tmp' = "none" /\ outMode' = "orig" /\ tmpMode' = "default"
        /\ wr' = 0 /\ okflag' = FALSE /\ err' = FALSE /\ panicked' = FALSE /\ faults' = 0 /\ rmFailed' = FALSE

TraceInit == Init /\ l = 1
TraceNext == Silent \/ TOpenExcl \/ TStat \/ TCreateTemp \/ TFchmod \/ TWrite \/ TCloseOut \/ TRename \/ TRemove \/ TOther \/ TEnd
TraceSpec == TraceInit /\ [][TraceNext]_tvars

ASSUME TLCSet(1, 0)
HighWater == TLCSet(1, IF l > TLCGet(1) THEN l ELSE TLCGet(1))
TraceAccepted == PrintT(<<"HIGHWATER", TLCGet(1), Len(Trace)>>) /\ TLCGet(1) = Len(Trace) + 1
=============================================================================
