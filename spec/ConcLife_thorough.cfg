SPECIFICATION Spec
CONSTANT MaxCalls = 4
INVARIANTS BlockedWhileClosed AllReturn LookupsComplete EmitCase
