SPECIFICATION Spec
CONSTANTS
  N = 2
  Pre = {1}
  MaxFaults = 2
  Variant = "asis"
INVARIANTS TypeOK AllOrNothing AllPublished ErrXorInstalled NeverLost BackupHoused
PROPERTY Terminates
