------------------------------ MODULE SecLeak ------------------------------
(* C23: which document text may be visible in an encrypted file.  A case is a   *)
(* location kind, an algorithm, the cross-reference layout of the source         *)
(* (classic table / object streams) and the EncryptMetadata choice.  pdfcpu's    *)
(* encrypt command has no switch for EncryptMetadata (it is always true), so     *)
(* EMDs is {TRUE} in every configuration.                                        *)
EXTENDS Sec, TLC, Json

CONSTANTS LAlgs, Layouts, EMDs,
          Forms,   \* how text strings are written in the source: "literal", "hex", "utf16"
          UPWs,    \* user password kinds: "empty", "set"
          Writes,  \* 1: the output of the encrypt operation; 2: the same context written once more (reset, write again)
          Emit

VARIABLE c
Init == c \in [loc : Locs, alg : LAlgs, layout : Layouts, emd : EMDs, form : Forms, upw : UPWs, write : Writes]
Next == FALSE
Spec == Init /\ [][Next]_c

Case == [loc |-> c.loc, alg |-> c.alg, layout |-> c.layout, emd |-> c.emd, form |-> c.form, upw |-> c.upw, write |-> c.write, mayleak |-> Leaks(c.loc, c.alg, c.emd)]
EmitCase == Emit => PrintT(<<"CASE", ToJson(Case)>>)
(* the exceptions are exactly the two the property names *)
ExceptionsExact == Leaks(c.loc, c.alg, c.emd) => c.loc \in {"sigcontents", "xmp"}
=============================================================================
