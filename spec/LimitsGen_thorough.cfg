SPECIFICATION Spec
CONSTANTS
  MaxStages = 3
  Stage3Mod = 1
  Seed = 1
  DecodeLimits = {4096, 65536, 1048576}
  FlOnlyLimits = {16777216}
  X100Max1 = 1048576
  X100Skip = {}
  X100MaxN = 65536
  StreamLimits = {4096, 65536, 1048576}
  IndexLimits = {1000, 100000}
  IndexParts = {2, 7, 200}
  CountLimits = {50, 1000, 20000}
  Containers = {"content", "objstm", "xref", "image"}
  Emit = TRUE
INVARIANTS TargetBeyondIffClass EmitCase
