SPECIFICATION Spec
CONSTANTS
  NPages = 4
  StreamPats = {1, 2, 3}
  Fanouts = {0, 1, 2, 3}
  MaxAdds = 2
  Kinds = {"text", "image", "pdf"}
  Sels1 = {1, 2, 3, 4, 5, 6, 7}
  Sels2 = {1, 2, 3, 4}
  SelsR = {1, 2, 4}
  FreeDesc = FALSE
  FreeKind2 = TRUE
  Emit = TRUE
INVARIANTS WInRange CleanEnd LastRemoveSound EmitCase
