SPECIFICATION Spec
CONSTANTS
  Maxes = {1, 2, 7, 100, 127, 255}
  ClassMaxes = {127, 255}
  Emit = TRUE
INVARIANTS AddOK MulOK NeverWrapped EmitClass EmitCount
