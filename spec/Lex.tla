------------------------------- MODULE Lex -------------------------------
(* Lexical conventions of ISO 32000 used by C11-C14, written from the standard *)
(* (not from the Go code).  Everything is an operator over byte sequences      *)
(* (Seq(0..255)); TLC integers are 32 bit, so instants are (day, second) pairs *)
(* and PDF integers are decimal strings.                                       *)
(*   7.3.4.2 literal strings : Balanced, ParensEscaped, RefUnescape            *)
(*   7.3.5   names           : NameCharOK, RefDecodeName                       *)
(*   7.9.2.2 text strings    : Utf16BE, Utf8, TextBytes                        *)
(*   7.9.4   dates           : ValidISODate, DateFields, Instant               *)
(*   7.3     objects         : Norm (null dict entries absent, reals to 1e-12) *)
EXTENDS Integers, Sequences, FiniteSets

Byte == 0..255

--------------------------------------------------------------------------
(* 7.3.4.2 literal strings *)
IsOct(c) == c \in 48..55

RECURSIVE BalScan(_, _, _, _)
BalScan(e, i, depth, esc) ==
  IF i > Len(e) THEN (IF esc THEN -1 ELSE depth)
  ELSE IF esc THEN BalScan(e, i + 1, depth, FALSE)
  ELSE IF e[i] = 92 THEN BalScan(e, i + 1, depth, TRUE)
  ELSE IF e[i] = 40 THEN BalScan(e, i + 1, depth + 1, FALSE)
  ELSE IF e[i] = 41 THEN (IF depth = 0 THEN -1 ELSE BalScan(e, i + 1, depth - 1, FALSE))
  ELSE BalScan(e, i + 1, depth, FALSE)

(* "(" \o e \o ")" is one complete literal string token: unescaped parentheses *)
(* are balanced and the closing parenthesis is not eaten by a backslash.       *)
Balanced(e) == BalScan(e, 1, 0, FALSE) = 0

RECURSIVE EscScan(_, _, _)
EscScan(e, i, esc) ==
  IF i > Len(e) THEN ~esc
  ELSE IF esc THEN EscScan(e, i + 1, FALSE)
  ELSE IF e[i] = 92 THEN EscScan(e, i + 1, TRUE)
  ELSE IF e[i] \in {40, 41} THEN FALSE
  ELSE EscScan(e, i + 1, FALSE)

(* every parenthesis is preceded by an escaping backslash *)
ParensEscaped(e) == EscScan(e, 1, FALSE)
EscapeOK(e) == Balanced(e) /\ ParensEscaped(e)

RECURSIVE OctLen(_, _, _)
OctLen(e, i, n) == IF n < 3 /\ i + n <= Len(e) /\ IsOct(e[i + n]) THEN OctLen(e, i, n + 1) ELSE n
OctVal(e, i, n) == CASE n = 1 -> e[i] - 48
                     [] n = 2 -> (e[i] - 48) * 8 + (e[i + 1] - 48)
                     [] n = 3 -> (e[i] - 48) * 64 + (e[i + 1] - 48) * 8 + (e[i + 2] - 48)

(* The bytes a conforming reader obtains from the literal string body e. *)
RECURSIVE RefUn(_, _)
RefUn(e, i) ==
  IF i > Len(e) THEN <<>>
  ELSE LET c == e[i] IN
    IF c = 92 THEN
      IF i = Len(e) THEN <<>>
      ELSE LET d == e[i + 1] IN
        CASE d = 110 -> <<10>> \o RefUn(e, i + 2)
          [] d = 114 -> <<13>> \o RefUn(e, i + 2)
          [] d = 116 -> <<9>> \o RefUn(e, i + 2)
          [] d = 98  -> <<8>> \o RefUn(e, i + 2)
          [] d = 102 -> <<12>> \o RefUn(e, i + 2)
          [] d \in {40, 41, 92} -> <<d>> \o RefUn(e, i + 2)
          [] d = 10 -> RefUn(e, i + 2)
          [] d = 13 -> (IF i + 2 <= Len(e) /\ e[i + 2] = 10 THEN RefUn(e, i + 3) ELSE RefUn(e, i + 2))
          [] IsOct(d) -> (LET n == OctLen(e, i + 1, 1) IN <<OctVal(e, i + 1, n) % 256>> \o RefUn(e, i + 1 + n))
          [] OTHER -> RefUn(e, i + 1)           \* the backslash is ignored
    ELSE IF c = 13 THEN <<10>> \o (IF i + 1 <= Len(e) /\ e[i + 1] = 10 THEN RefUn(e, i + 2) ELSE RefUn(e, i + 1))
    ELSE <<c>> \o RefUn(e, i + 1)
RefUnescape(e) == RefUn(e, 1)

--------------------------------------------------------------------------
(* 7.3.5 names *)
IsHex(c) == c \in (48..57) \cup (65..70) \cup (97..102)
HexVal(c) == IF c \in 48..57 THEN c - 48 ELSE IF c \in 65..70 THEN c - 55 ELSE c - 87
Delims == {40, 41, 60, 62, 91, 93, 123, 125, 47, 37}
RegularPrintable(c) == c \in 33..126 /\ c \notin Delims

RECURSIVE NameScan(_, _)
NameScan(n, i) ==
  IF i > Len(n) THEN TRUE
  ELSE IF n[i] = 35 THEN i + 2 <= Len(n) /\ IsHex(n[i + 1]) /\ IsHex(n[i + 2]) /\ NameScan(n, i + 3)
  ELSE RegularPrintable(n[i]) /\ NameScan(n, i + 1)
(* only regular printable characters; '#' only as the introducer of a 2 digit hex code *)
NameCharOK(n) == NameScan(n, 1)

RECURSIVE RefDec(_, _)
RefDec(n, i) ==
  IF i > Len(n) THEN <<>>
  ELSE IF n[i] = 35 /\ i + 2 <= Len(n) /\ IsHex(n[i + 1]) /\ IsHex(n[i + 2])
    THEN <<HexVal(n[i + 1]) * 16 + HexVal(n[i + 2])>> \o RefDec(n, i + 3)
  ELSE <<n[i]>> \o RefDec(n, i + 1)
RefDecodeName(n) == RefDec(n, 1)

--------------------------------------------------------------------------
(* 7.9.2.2 text strings: UTF-16BE with byte order mark *)
IsScalar(cp) == (cp >= 0 /\ cp <= 55295) \/ (cp >= 57344 /\ cp <= 1114111)
NthScalar(n) == IF n < 55296 THEN n ELSE n + 2048        \* 0-based enumeration of all scalar values
NumScalars == 1112064
BOM == <<254, 255>>
U16(u) == <<u \div 256, u % 256>>
Utf16BE(cp) == IF cp < 65536 THEN U16(cp)
               ELSE LET v == cp - 65536 IN U16(55296 + (v \div 1024)) \o U16(56320 + (v % 1024))
Utf8(cp) == IF cp < 128 THEN <<cp>>
            ELSE IF cp < 2048 THEN <<192 + (cp \div 64), 128 + (cp % 64)>>
            ELSE IF cp < 65536 THEN <<224 + (cp \div 4096), 128 + ((cp \div 64) % 64), 128 + (cp % 64)>>
            ELSE <<240 + (cp \div 262144), 128 + ((cp \div 4096) % 64), 128 + ((cp \div 64) % 64), 128 + (cp % 64)>>
RECURSIVE TextBody(_)
TextBody(cps) == IF cps = <<>> THEN <<>> ELSE Utf16BE(Head(cps)) \o TextBody(Tail(cps))
TextBytes(cps) == BOM \o TextBody(cps)                   \* the text string for a code point sequence
RECURSIVE Utf8Bytes(_)
Utf8Bytes(cps) == IF cps = <<>> THEN <<>> ELSE Utf8(Head(cps)) \o Utf8Bytes(Tail(cps))

--------------------------------------------------------------------------
(* 7.9.4 dates  D:YYYYMMDDHHmmSSOHH'mm  (the closing apostrophe of PDF 1.x is accepted) *)
IsLeap(y) == (y % 4 = 0 /\ y % 100 # 0) \/ y % 400 = 0
DaysInMonth(y, m) == IF m \in {1, 3, 5, 7, 8, 10, 12} THEN 31
                     ELSE IF m \in {4, 6, 9, 11} THEN 30
                     ELSE IF IsLeap(y) THEN 29 ELSE 28
(* days since 1970-01-01 in the proleptic Gregorian calendar (year 0 = 1 BC) *)
DaysFromCivil(y, m, d) ==
  LET yy  == IF m <= 2 THEN y - 1 ELSE y
      era == yy \div 400                       \* floor division
      yoe == yy - era * 400
      mp  == (m + 9) % 12
      doy == ((153 * mp + 2) \div 5) + d - 1
      doe == yoe * 365 + (yoe \div 4) - (yoe \div 100) + doy
  IN era * 146097 + doe - 719468

(* f = [y, mo, d, h, mi, s, off] with off = minutes east of UT; result <<day, second of day>> in UT *)
Instant(f) ==
  LET t == f.h * 3600 + f.mi * 60 + f.s - f.off * 60
  IN <<DaysFromCivil(f.y, f.mo, f.d) + (t \div 86400), t % 86400>>
(* the same with the offset given in seconds *)
InstantS(f, offs) ==
  LET t == f.h * 3600 + f.mi * 60 + f.s - offs
  IN <<DaysFromCivil(f.y, f.mo, f.d) + (t \div 86400), t % 86400>>

Dig(c) == c \in 48..57
Digs(b, i, n) == i + n - 1 <= Len(b) /\ \A k \in i..(i + n - 1) : Dig(b[k])
N2(b, i) == (b[i] - 48) * 10 + (b[i + 1] - 48)
N4(b, i) == N2(b, i) * 100 + N2(b, i + 2)

ValidTZ(b) ==      \* b[17] is O; what follows is nothing, HH, HH', HH'mm or HH'mm'
  LET n == Len(b) IN
  /\ b[17] \in {43, 45, 90}
  /\ n \in {17, 19, 20, 22, 23}
  /\ n >= 19 => Digs(b, 18, 2) /\ N2(b, 18) <= 23
  /\ n >= 20 => b[20] = 39
  /\ n >= 22 => Digs(b, 21, 2) /\ N2(b, 21) <= 59
  /\ n = 23 => b[23] = 39
  /\ b[17] = 90 => (n >= 19 => N2(b, 18) = 0) /\ (n >= 22 => N2(b, 21) = 0)

ValidISODate(b) ==
  LET n == Len(b) IN
  /\ n >= 6 /\ b[1] = 68 /\ b[2] = 58 /\ Digs(b, 3, 4)
  /\ n \in {6, 8, 10, 12, 14, 16} \/ n >= 17
  /\ n >= 8  => Digs(b, 7, 2)  /\ N2(b, 7) \in 1..12
  /\ n >= 10 => Digs(b, 9, 2)  /\ N2(b, 9) \in 1..DaysInMonth(N4(b, 3), N2(b, 7))
  /\ n >= 12 => Digs(b, 11, 2) /\ N2(b, 11) <= 23
  /\ n >= 14 => Digs(b, 13, 2) /\ N2(b, 13) <= 59
  /\ n >= 16 => Digs(b, 15, 2) /\ N2(b, 15) <= 59
  /\ n >= 17 => ValidTZ(b)

(* the time a complete (>= 22 bytes) valid date string denotes *)
DateFields(b) ==
  [y |-> N4(b, 3), mo |-> N2(b, 7), d |-> N2(b, 9), h |-> N2(b, 11), mi |-> N2(b, 13), s |-> N2(b, 15),
   off |-> (IF b[17] = 45 THEN -1 ELSE 1) * (N2(b, 18) * 60 + N2(b, 21))]

--------------------------------------------------------------------------
(* 7.3 objects.  An object is a record tagged by k:                                        *)
(*   null | bool(b) | int(s: decimal string) | real(m, e: m * 10^e) | bigreal(t: token)     *)
(*   name(v: bytes) | str(v: bytes) | hex(v: bytes) | ref(n, g) | arr(v: Seq(Obj))          *)
(*   dict(v: Seq([key: bytes, val: Obj]) sorted by key, keys distinct)                      *)
Pow10(n) == IF n <= 0 THEN 1 ELSE
            CASE n = 1 -> 10 [] n = 2 -> 100 [] n = 3 -> 1000 [] n = 4 -> 10000 [] n = 5 -> 100000
              [] n = 6 -> 1000000 [] n = 7 -> 10000000 [] n = 8 -> 100000000 [] OTHER -> 1000000000
Abs(x) == IF x < 0 THEN -x ELSE x
RECURSIVE Canon(_, _)
Canon(m, e) == IF m = 0 THEN [k |-> "real", m |-> 0, e |-> 0]
               ELSE IF m % 10 = 0 THEN Canon(m \div 10, e + 1)
               ELSE [k |-> "real", m |-> m, e |-> e]
(* m * 10^e rounded to 12 fractional digits (half away from zero), without trailing zeros *)
NormReal(m, e) ==
  IF e >= -12 THEN Canon(m, e)
  ELSE LET drop == -12 - e IN
       IF drop > 9 THEN Canon(0, 0)                         \* |m| < 2^31 < 10^10
       ELSE LET p == Pow10(drop)
                q == (2 * Abs(m) + p) \div (2 * p)
            IN Canon((IF m < 0 THEN -q ELSE q), -12)

RECURSIVE Norm(_), NormSeq(_), NormEntries(_)
NormSeq(v) == IF v = <<>> THEN <<>> ELSE <<Norm(Head(v))>> \o NormSeq(Tail(v))
NormEntries(v) == IF v = <<>> THEN <<>>
                  ELSE (IF Head(v).val.k = "null" THEN <<>> ELSE <<[key |-> Head(v).key, val |-> Norm(Head(v).val)]>>)
                       \o NormEntries(Tail(v))
Norm(o) ==
  CASE o.k = "real" -> NormReal(o.m, o.e)
    [] o.k = "arr"  -> [k |-> "arr", v |-> NormSeq(o.v)]
    [] o.k = "dict" -> [k |-> "dict", v |-> NormEntries(o.v)]
    [] OTHER -> o

RECURSIVE Depth(_)
Max(S) == CHOOSE x \in S : \A y \in S : y <= x
Depth(o) == IF o.k = "arr" THEN 1 + Max({0} \cup {Depth(o.v[i]) : i \in 1..Len(o.v)})
            ELSE IF o.k = "dict" THEN 1 + Max({0} \cup {Depth(o.v[i].val) : i \in 1..Len(o.v)})
            ELSE 0
=============================================================================
