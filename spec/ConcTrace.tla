--------------------------------------------- MODULE ConcTrace ---------------------------------------------
(* C40 - judge of call/return histories recorded from the REAL pdfcpu code (harness/cmd/conc fonts).            *)
(*                                                                                                              *)
(* hist.ndjson: one history per line                                                                            *)
(*   [h, procs, synthetic, gens (generation -> font indices), init [dir, cache], names,                         *)
(*    ops: sequence (sorted by call) of [id, op, g, seq, call, ret, arg, obs, found, err]]                      *)
(* call / ret are values of ONE atomic counter (logical clock), so  ops[j].ret < ops[i].call  means that j      *)
(* really returned before i was called.                                                                         *)
(*                                                                                                              *)
(* A history is accepted iff it is LINEARIZABLE w.r.t. the sequential model ConcModel: there is a total order   *)
(* of linearization points, one per operation (two for a lookup that finds the fonts not loaded: Load, then     *)
(* Read - the code performs LoadUserFonts() and then the read under the read lock), each between the            *)
(* operation's call and return, such that executing the abstract operations in this order from the recorded     *)
(* initial state yields every recorded observation. TLC searches the orders: a state is (history, remaining      *)
(* points per operation, abstract state); an operation may take its next point only when every operation that   *)
(* returned before its call is finished. Reaching "all finished" prints the LIN payload for the history;         *)
(* histories without a LIN line are rejected by the driver.                                                      *)
(* Observations that can never be right are printed as BAD payloads from the initial state of the history:       *)
(*   partial  - a lookup saw a set of fonts that is not exactly one generation (partially loaded map)            *)
(*   error    - an operation returned an error                                                                  *)
(*   corrupt  - UserFont returned a copy whose metrics are inconsistent                                          *)
(*   order    - the record itself is malformed (ids not 1..n in call order, call >= ret)                         *)
EXTENDS ConcModel, Sequences, TLC, Json

Hist == ndJsonDeserialize("hist.ndjson")

VARIABLES h,      \* index of the history
          rem,    \* remaining linearization points per operation
          pred,   \* pred[i] = operations that returned before i was called (constant along a behaviour)
          st      \* abstract state of ConcModel
vars == <<h, rem, pred, st>>

Ops(k)      == Hist[k].ops
NOps(k)     == Len(Hist[k].ops)
Fonts(k)    == [g \in 0..(Len(Hist[k].gens) - 1) |-> {Hist[k].gens[g + 1][i] : i \in 1..Len(Hist[k].gens[g + 1])}]
IsLookup(o) == o.op \in {"names", "has", "isuser"}
ObsSet(o)   == {o.obs[i] : i \in 1..Len(o.obs)}

BadOp(k, F, j) == LET o == Ops(k)[j] IN
                  IF o.id # j \/ o.call >= o.ret \/ (j > 1 /\ Ops(k)[j - 1].call >= o.call) THEN "order"
                  ELSE IF o.err # "" THEN "error"
                  ELSE IF o.op = "names" /\ ~Complete(ObsSet(o), F) THEN "partial"
                  ELSE IF o.found = 2 THEN "corrupt"
                  ELSE "ok"
BadOps(k) == LET F == Fonts(k) IN
             {[h |-> Hist[k].h, id |-> j, what |-> BadOp(k, F, j)] : j \in {i \in 1..NOps(k) : BadOp(k, F, i) # "ok"}}

Init == /\ h \in 1..Len(Hist)
        /\ rem = [i \in 1..NOps(h) |-> 1]
        /\ pred = [i \in 1..NOps(h) |-> {j \in 1..(i - 1) : Ops(h)[j].ret < Ops(h)[i].call}]
        /\ st = SeqState(Hist[h].init.dir, Hist[h].init.cache)

(* real-time order: i may take a linearization point only if everything that returned before i's call is finished *)
MayStep(i) == rem[i] > 0 /\ \A j \in pred[i] : rem[j] = 0

(* the read of a lookup is consistent with the abstract state *)
ReadOK(o, s) == /\ o.err = ""
                /\ Loaded(s)
                /\ CASE o.op = "names"  -> ObsSet(o) = NamesOf(s, Fonts(h))
                     [] o.op = "has"    -> o.found = (IF HasFont(s, Fonts(h), o.arg) THEN 1 ELSE 0)
                     [] o.op = "isuser" -> o.found = (IF HasFont(s, Fonts(h), o.arg) THEN 1 ELSE 0)

Step(i) == LET o == Ops(h)[i] IN
           /\ MayStep(i)
           /\ CASE o.op = "setdir" -> st' = SetDirOp(st, o.arg) /\ rem' = [rem EXCEPT ![i] = 0]
                [] o.op = "reload" -> o.err = "" /\ st' = ReloadOp(st) /\ rem' = [rem EXCEPT ![i] = 0]
                [] o.op = "load"   -> o.err = "" /\ st' = LoadOp(st) /\ rem' = [rem EXCEPT ![i] = 0]
                   \* lookup, fonts not loaded: the Load point now (a later point of this operation is its Read);
                   \* rem stays 1. When the fonts are loaded the Load point is a no-op and need not be placed.
                [] IsLookup(o) /\ ~Loaded(st) -> st' = LoadOp(st) /\ UNCHANGED rem
                [] IsLookup(o) /\ Loaded(st)  -> ReadOK(o, st) /\ st' = st /\ rem' = [rem EXCEPT ![i] = 0]
           /\ UNCHANGED <<h, pred>>

Next == \E i \in {j \in 1..NOps(h) : rem[j] > 0} : Step(i)

Spec == Init /\ [][Next]_vars

AllFinished == \A i \in 1..NOps(h) : rem[i] = 0
Initial     == \A i \in 1..NOps(h) : rem[i] = 1

(* emitting "invariants" (always TRUE) *)
EmitLin == AllFinished => PrintT(<<"LIN", ToJson([h |-> Hist[h].h])>>)
EmitBad == (Initial /\ st = SeqState(Hist[h].init.dir, Hist[h].init.cache)) => \A b \in BadOps(h) : PrintT(<<"BAD", ToJson(b)>>)
=================================================================================================================
