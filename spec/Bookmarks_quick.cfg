SPECIFICATION Spec
CONSTANTS
  Modes = {"free", "rot", "dup"}
  FreeMax = 2
  NCFree = 5
  NCRot = 7
  MaxNodes = 5
  MaxDepth = 3
  MaxSibs = 6
  NPages = 5
  Targets = {0}
  Emit = TRUE
INVARIANTS TreeSize CleanIdem CleanOrdered RoundTrip EmitCase
