#!/bin/bash
# try_kept.sh <seed id, e.g. C19-B> <PROP> [tier] : apply /verif/seeded/<id>/patch.diff to a scratch worktree, run the check there, undo.
id=$1; p=$2; tier=${3:-quick}
S=/tmp/repo-seed
exec 9>/tmp/try_seed.lock; flock 9    # one scratch worktree: serialise concurrent callers
cd /verif
if [ ! -d $S ]; then git -C /repo worktree add --detach $S HEAD -q; fi
git -C $S reset -q --hard; git -C $S checkout -q --detach ${SEED_BASE:-$(git -C /repo rev-parse HEAD)}
git -C $S apply /verif/seeded/$id/patch.diff 2>/dev/null || git -C $S apply -3 /verif/seeded/$id/patch.diff || { echo "apply failed"; git -C $S reset -q --hard; exit 2; }
VERIF_REPO=$S VERIF_BUILD=/tmp/vb-seed VERIF_OUT=/tmp/vb-seed/out ./check $p $tier > /tmp/try_seed.log 2>&1; rc=$?
git -C $S checkout -q -- . ; git -C $S reset -q --hard
grep -v KNOWN-FINDING /tmp/try_seed.log | grep -A1 "^VIOLATION\|HARNESS-ERROR" | head -6 | cut -c1-300
echo "SEED $id on $p $tier: exit=$rc"
