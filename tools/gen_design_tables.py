#!/usr/bin/env python3
"""Regenerates the generated tables of DESIGN.md (between <!-- BEGIN GENERATED --> and <!-- END GENERATED -->)."""
import json, os, glob, subprocess, importlib, sys
ROOT = os.path.dirname(os.path.dirname(os.path.abspath(__file__)))
sys.path.insert(0, os.path.join(ROOT, "lib"))
out = []
acc = json.load(open(os.path.join(ROOT, "tools/accepted.json")))
props = {json.loads(l)["id"]: json.loads(l) for l in open(os.path.join(ROOT, "properties.jsonl"))}
out.append("### Checks registered in MANIFEST.json\n")
out.append("| id | level | technique | TLA+ modules (spec/) | harness |")
out.append("|---|---|---|---|---|")
import re
for pid in sorted(acc):
    m = importlib.import_module("props." + pid.lower())
    src = open(os.path.join(ROOT, "lib/props", pid.lower() + ".py")).read()
    fam = ""
    for f in re.findall(r"import ([a-z]+family|pageopslib|fsfamily|cli)", src):
        fam += open(os.path.join(ROOT, "lib", f + ".py")).read()
    mods = sorted(set(re.findall(r'run_tlc\(\s*"([A-Za-z0-9_]+)"', src + fam)))
    bins = sorted(set(re.findall(r'build_bin\("([a-z0-9]+)"', src + fam)))
    if "fsfamily" in src:
        mods = sorted(set(mods + ["FSTrace"]))
    out.append("| %s | %s | %s | %s | %s |" % (pid, m.META["level"], m.META["technique"], ", ".join(mods) or "-", ", ".join("cmd/" + b for b in bins) or ("CLI binary" if "cli." in src else "-")))
kf = json.load(open(os.path.join(ROOT, "known_findings.json")))["findings"]
out.append("\n### Defects repaired in /repo (`fix:` commits)\n")
log = subprocess.run(["git", "-C", "/repo", "log", "--format=%h %s"], stdout=subprocess.PIPE, text=True).stdout.splitlines()
fixes = [l for l in log if " fix:" in l]
out.append("| commit | message | found by |")
out.append("|---|---|---|")
for l in reversed(fixes):
    h, msg = l.split(" ", 1)
    by = sorted({f["property"] for f in kf if f.get("status") == "fixed" and f.get("commit", "") == msg})
    out.append("| %s | %s | %s |" % (h, msg, ", ".join(by)))
out.append("\n### Known findings (open; printed as KNOWN-FINDING, never re-alarmed)\n")
out.append("| property | key | what |")
out.append("|---|---|---|")
for f in kf:
    if f.get("status") == "open":
        out.append("| %s | `%s` | %s |" % (f["property"], f["key"].replace("|", "\\|"), f["what"].replace("|", "\\|")))
out.append("\n### Seeded changes (/verif/seeded) and the checks that catch them\n")
out.append("| seed | needs to manifest | detected | by |")
out.append("|---|---|---|---|")
for d in sorted(glob.glob(os.path.join(ROOT, "seeded", "*", "meta.json"))):
    m = json.load(open(d))
    out.append("| %s | %s | %s | %s |" % (os.path.basename(os.path.dirname(d)), m["needs_to_manifest"].replace("|", "/"), m["detected_by_checks"], "; ".join(m["detecting_checks"])))
txt = "\n".join(out) + "\n"
p = os.path.join(ROOT, "DESIGN.md")
s = open(p).read()
a, b = "<!-- BEGIN GENERATED -->\n", "<!-- END GENERATED -->"
if a in s:
    s = s[:s.index(a) + len(a)] + txt + s[s.index(b):]
    open(p, "w").write(s)
    print("DESIGN.md tables regenerated (%d lines)" % len(out))
else:
    print(txt)
