#!/usr/bin/env python3
"""keep_seed.py <PROP> <worktree> <letter> <detected: yes|no|partly> "<needs>" "<what I ran>" [detected_by...]"""
import json, os, shutil, sys
prop, wt, letter, detected, needs, ran = sys.argv[1:7]
by = sys.argv[7:]
src = os.path.join(wt, "verif_seed", letter)
dst = os.path.join("/verif/seeded", "%s-%s" % (prop, letter))
if os.path.exists(dst):
    shutil.rmtree(dst)
shutil.copytree(src, dst)
meta = {"property": prop, "breaks": open(os.path.join(src, "README.md")).read()[:1500], "needs_to_manifest": needs,
        "confirmed": ran, "detected_by_checks": detected, "detecting_checks": by}
json.dump(meta, open(os.path.join(dst, "meta.json"), "w"), indent=1)
print("kept", dst)
