#!/bin/bash
# sweep.sh <tier> <seed> ids... : run checks sequentially, one summary line each
tier=$1; seed=$2; shift 2
for p in "$@"; do
  t0=$(date +%s)
  VERIF_SEED=$seed ./check $p $tier > sweep_$p.log 2>&1; rc=$?
  t1=$(date +%s)
  echo "$p $tier seed=$seed rc=$rc wall=$((t1-t0))s known=$(grep -c KNOWN-FINDING sweep_$p.log) viol=$(grep -c '^VIOLATION' sweep_$p.log)"
  grep -A1 "^VIOLATION\|HARNESS-ERROR" sweep_$p.log | head -6 | cut -c1-300
done
