#!/bin/bash
# try_seed.sh <worktree> <letter> <PROP> [tier] : apply the seed to a scratch worktree of /repo (so that background sweeps on /repo are
# not disturbed), run the check against it (VERIF_REPO), undo. Prints the first violations and the exit code.
wt=$1; l=$2; p=$3; tier=${4:-quick}
S=/tmp/repo-seed
exec 9>/tmp/try_seed.lock; flock 9    # one scratch worktree: serialise concurrent callers
cd /verif
if [ ! -d $S ]; then git -C /repo worktree add --detach $S HEAD -q; fi
git -C $S reset -q --hard; git -C $S checkout -q --detach ${SEED_BASE:-$(git -C /repo rev-parse HEAD)} 2>/dev/null   # SEED_BASE: commit the patch was written against, when it no longer applies to HEAD
git -C $S apply $wt/verif_seed/$l/patch.diff 2>/dev/null || git -C $S apply -3 $wt/verif_seed/$l/patch.diff || { echo "apply failed"; git -C $S reset -q --hard; exit 2; }
VERIF_REPO=$S VERIF_BUILD=/tmp/vb-seed VERIF_OUT=/tmp/vb-seed/out ./check $p $tier > /tmp/try_seed.log 2>&1; rc=$?
git -C $S checkout -q -- .
grep -v KNOWN-FINDING /tmp/try_seed.log | grep -A1 "^VIOLATION\|HARNESS-ERROR" | head -6 | cut -c1-300
echo "SEED $(basename $wt)-$l on $p $tier: exit=$rc"
