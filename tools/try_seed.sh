#!/bin/bash
# try_seed.sh <worktree> <letter> <PROP> [tier]  : apply the seed to /repo, run the check, undo. Prints the first violations and exit code.
wt=$1; l=$2; p=$3; tier=${4:-quick}
cd /verif
git -C /repo apply $wt/verif_seed/$l/patch.diff || { echo "apply failed"; exit 2; }
./check $p $tier > /tmp/try_seed.log 2>&1; rc=$?
git -C /repo checkout -- .
grep -v KNOWN-FINDING /tmp/try_seed.log | grep -A1 "^VIOLATION" | head -6 | cut -c1-300
echo "SEED $(basename $wt)-$l on $p $tier: exit=$rc"
