#!/bin/bash
# verify_seed.sh <worktree> <letter> <demo command (run inside worktree)>
# Confirms: patch applies, builds, affected packages' tests pass, demo FAILS with the patch and PASSES without.
wt=$1; l=$2; shift 2; demo="$*"
cd $wt || exit 2
git checkout -q -- . 
git apply --check verif_seed/$l/patch.diff || { echo "PATCH DOES NOT APPLY"; exit 1; }
git apply verif_seed/$l/patch.diff
go build ./... || { echo "BUILD FAILS"; git checkout -q -- .; exit 1; }
pkgs=$(grep '^+++ b/' verif_seed/$l/patch.diff | sed 's|+++ b/||' | xargs -n1 dirname | sort -u | sed 's|^|./|')
echo "affected packages: $pkgs"
go test -mod=mod -vet=off -count=1 $pkgs 2>&1 | grep -E "^(--- FAIL|FAIL|ok)" | grep -v TestReadTIFFWritePNG
echo "--- demo WITH patch (expect failure):"
bash -c "$demo" >/tmp/demo_with.log 2>&1; w=$?
tail -3 /tmp/demo_with.log
git checkout -q -- .
echo "--- demo WITHOUT patch (expect pass):"
bash -c "$demo" >/tmp/demo_without.log 2>&1; wo=$?
tail -2 /tmp/demo_without.log
echo "RESULT with=$w without=$wo"
[ $w -ne 0 ] && [ $wo -eq 0 ]
