#!/usr/bin/env python3
"""Generate a go build overlay that instruments package os of the local go1.26.8 toolchain.
usage: gen.py <outdir>      (writes <outdir>/overlay.json and patched sources)
Nothing in /repo is touched; the overlay only replaces/adds files of GOROOT/src/os."""
import json, os, re, sys
GOROOT = os.environ.get("VERIF_GOROOT", "/opt/veriftools/go1.26.8")
SRC = os.path.join(GOROOT, "src", "os")
out = os.path.abspath(sys.argv[1])
os.makedirs(out, exist_ok=True)
FUNCS = {  # file -> top-level functions to rename
    "file.go": ["OpenFile", "Mkdir", "Rename", "Chmod"],
    "file_unix.go": ["Truncate", "Remove", "Link", "Symlink"],
    "path.go": ["RemoveAll"],
    "stat.go": ["Stat", "Lstat"],
    "dir.go": ["ReadDir"],
}
METHODS = {  # file -> (*File) methods to rename
    "file.go": ["Write", "WriteAt", "ReadFrom", "Read", "ReadAt", "Chmod"],
    "file_posix.go": ["Close", "Truncate", "Sync"],
}
overlay = {}
files = set(FUNCS) | set(METHODS)
for fn in sorted(files):
    src = open(os.path.join(SRC, fn)).read()
    for name in FUNCS.get(fn, []):
        pat = re.compile(r"^func %s\(" % name, re.M)
        if len(pat.findall(src)) != 1:
            sys.exit("osovl: cannot find func %s in %s" % (name, fn))
        src = pat.sub("func verifOrig%s(" % name, src)
    for name in METHODS.get(fn, []):
        pat = re.compile(r"^func \(f \*File\) %s\(" % name, re.M)
        if len(pat.findall(src)) != 1:
            sys.exit("osovl: cannot find method %s in %s" % (name, fn))
        src = pat.sub("func (f *File) verifOrig%s(" % name, src)
    dst = os.path.join(out, "os_" + fn)
    open(dst, "w").write(src)
    overlay[os.path.join(SRC, fn)] = dst
hook = open(os.path.join(os.path.dirname(os.path.abspath(__file__)), "verif_hook.go.txt")).read()
dst = os.path.join(out, "os_verif_hook.go")
open(dst, "w").write(hook)
overlay[os.path.join(SRC, "verif_hook.go")] = dst
json.dump({"Replace": overlay}, open(os.path.join(out, "overlay.json"), "w"), indent=1)
print("osovl: %d files -> %s" % (len(overlay), out))
