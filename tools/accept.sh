#!/bin/bash
# accept.sh Cnn... : run quick with two seeds, validate evidence, print wall time and result
cd /verif
for p in "$@"; do
  for s in 1 2; do
    t0=$(date +%s)
    VERIF_SEED=$s ./check $p quick > /tmp/accept_$p.log 2>&1; rc=$?
    t1=$(date +%s)
    v=$(python3-vt -c "import json,jsonschema;jsonschema.validate(json.load(open('/verif/evidence/$p.json')),json.load(open('/root/.vp/EVIDENCE.schema.json')));print('evidence-ok')" 2>&1 | tail -1)
    echo "$p seed=$s rc=$rc wall=$((t1-t0))s $v known=$(grep -c KNOWN-FINDING /tmp/accept_$p.log) viol=$(grep -c '^VIOLATION' /tmp/accept_$p.log)"
  done
done
