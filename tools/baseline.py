#!/usr/bin/env python3
"""Run /repo's pinned test suite (guard off, baseline toolchain) and compare with /root/.vp/BASELINE.json stable_pass."""
import json, subprocess, sys, os
b = json.load(open("/root/.vp/BASELINE.json"))
want = set(b["stable_pass"])
env = dict(os.environ); env.pop("GOTOOLCHAIN", None); env["GOFLAGS"] = "-mod=mod"
p = subprocess.run(["go", "test", "-json", "-vet=off", "-count=1", "-timeout", "25m", "./..."], cwd=os.environ.get("VERIF_REPO", "/repo"),
                   env=env, stdout=subprocess.PIPE, stderr=subprocess.DEVNULL, text=True)
passed = set(); failed = set()
for line in p.stdout.splitlines():
    try:
        e = json.loads(line)
    except Exception:
        continue
    if e.get("Test") and e.get("Action") in ("pass", "fail"):
        (passed if e["Action"] == "pass" else failed).add(e["Package"] + "::" + e["Test"])
missing = sorted(want - passed)
print("stable_pass=%d passed_now=%d missing=%d failed_now=%d" % (len(want), len(passed & want), len(missing), len(failed)))
for m in missing[:40]:
    print("  MISSING", m)
sys.exit(1 if missing else 0)
